"""Program facts: loading, CFG helpers, def-use slices, Result/bool check extraction.

Everything here works on the MIR facts written by /verif/driver (one JSON per crate).  Nothing is
executed; these are graph and dataflow computations over the type-checked program.
"""
import glob, json, os, re
from collections import defaultdict, deque


class AnchorLost(Exception):
    """An anchored function / call site / constant the rules rely on no longer exists."""


# --------------------------------------------------------------------------------------------
# loading

class Program:
    def __init__(self, facts_dir):
        self.dir = facts_dir
        self.funcs = {}
        self.consts = {}
        self.adts = {}
        self.impls = []
        self.traits = {}
        self.crates = []
        for path in sorted(glob.glob(os.path.join(facts_dir, "*.json"))):
            with open(path) as fh:
                d = json.load(fh)
            crate = d["crate"]
            if "executable" in d.get("crate_types", []):
                continue
            self.crates.append(crate)
            for f in d["functions"]:
                f["crate"] = crate
                self.funcs[f["key"]] = Func(f, self)
            for c in d["consts"]:
                c["crate"] = crate
                self.consts[c["key"]] = c
            for a in d["adts"]:
                a["crate"] = crate
                self.adts[a["key"]] = a
            for i in d["impls"]:
                i["crate"] = crate
                self.impls.append(i)
            for t in d["traits"]:
                t["crate"] = crate
                self.traits[t["key"]] = t
        self._impl_index = None
        self._callgraph = None

    # -- lookup ---------------------------------------------------------------------------
    def fn(self, key, inline=True):
        """the function a rule is anchored on; private helpers it calls are virtually inlined
        (inline.py) so that extracting a check into a helper does not change verdicts."""
        f = self.funcs.get(key)
        if f is None:
            raise AnchorLost("function %s not found in facts" % key)
        if not inline:
            return f
        cache = self.__dict__.setdefault("_inlined", {})
        if key not in cache:
            from . import inline as _inline
            try:
                cache[key] = _inline.inline_helpers(self, f)
            except Exception:
                cache[key] = f
        return cache[key]

    def fns_matching(self, regex):
        r = re.compile(regex)
        return [f for k, f in sorted(self.funcs.items()) if r.search(k)]

    def closures_of(self, key):
        """closure bodies syntactically nested in function `key` (any depth)."""
        pre = key + "::{closure#"
        return [f for k, f in sorted(self.funcs.items()) if k.startswith(pre)]

    def impls_of_trait(self, trait_key):
        return [i for i in self.impls if i.get("trait") == trait_key]

    def impl_methods(self, trait_key, method):
        """all workspace functions implementing `trait_key::method` (excluding the default body)."""
        out = []
        for i in self.impls_of_trait(trait_key):
            for it in i["items"]:
                if it["name"] == method and it["key"] in self.funcs:
                    out.append(self.funcs[it["key"]])
        return out

    def const(self, key):
        c = self.consts.get(key)
        if c is None:
            raise AnchorLost("constant %s not found in facts" % key)
        return c

    # -- call graph -----------------------------------------------------------------------
    def call_targets(self, callee):
        """workspace function keys a call with this callee record may enter."""
        out = []
        r = callee.get("rdef")
        if r is not None and r in self.funcs:
            return [r]
        d = callee["def"]
        if r is None and callee.get("trait"):
            # unresolved trait method: default body (if any) plus every workspace impl
            if d in self.funcs:
                out.append(d)
            for f in self.impl_methods(callee["trait"], callee.get("name")):
                out.append(f.key)
            return out
        if d in self.funcs:
            out.append(d)
        return out

    def callgraph(self):
        if self._callgraph is None:
            g = {}
            for k, f in self.funcs.items():
                s = set()
                for bi, t in f.calls():
                    c = callee_of(t)
                    if c:
                        s.update(self.call_targets(c))
                for cl in f.closure_defs():
                    if cl in self.funcs:
                        s.add(cl)
                g[k] = s
            self._callgraph = g
        return self._callgraph

    def reachable_from(self, keys, stop=lambda k: False):
        g = self.callgraph()
        seen = {}
        dq = deque()
        for k in keys:
            if k in self.funcs and k not in seen:
                seen[k] = None
                dq.append(k)
        while dq:
            k = dq.popleft()
            if stop(k):
                continue
            for n in sorted(g.get(k, ())):
                if n not in seen:
                    seen[n] = k
                    dq.append(n)
        return seen

    @staticmethod
    def path_to(seen, k):
        p = []
        while k is not None:
            p.append(k)
            k = seen.get(k)
        return list(reversed(p))


# --------------------------------------------------------------------------------------------
# small accessors on raw JSON

def callee_of(term):
    if term.get("k") not in ("call", "tailcall"):
        return None
    f = term["f"]
    if f[0] == "k":
        return f[1].get("fn")
    return None


def callee_keys(term):
    c = callee_of(term)
    if not c:
        return ()
    ks = [c["def"]]
    if c.get("rdef"):
        ks.append(c["rdef"])
    return tuple(ks)


def is_call_to(term, *keys):
    ks = callee_keys(term)
    return any(k in keys for k in ks)


def op_place(op):
    return op[1] if op[0] in ("cp", "mv") else None


def op_local(op):
    p = op_place(op)
    return p[0] if p else None


def op_const(op):
    return op[1] if op[0] == "k" else None


def op_const_int(op):
    c = op_const(op)
    if c is not None and "v" in c:
        return int(c["v"])
    return None


def place_fields(place):
    """field names appearing in a place's projection, outermost base first."""
    out = []
    for e in place[1:]:
        if isinstance(e, str) and e.startswith("."):
            out.append(e.split(":", 1)[1])
    return out


def place_str(func, place):
    l = place[0]
    n = func.local_name(l)
    s = n if n else "_%d" % l
    for e in place[1:]:
        if e == "*":
            s = "(*%s)" % s
        elif e.startswith("."):
            s += "." + (e.split(":", 1)[1] or e[1:].split(":")[0])
        elif e.startswith("@"):
            s += " as " + e.split(":", 1)[1]
        else:
            s += e
    return s


def line_of(at):
    # "path:line:col" -> "path:line"
    parts = at.rsplit(":", 2)
    return parts[0] + ":" + parts[1] if len(parts) == 3 else at


# --------------------------------------------------------------------------------------------
# function wrapper

CARRIERS = {
    "core::result::Result::<T, E>::map_err", "core::result::Result::<T, E>::map",
    "core::option::Option::<T>::ok_or", "core::option::Option::<T>::ok_or_else",
    "core::ops::try_trait::Try::branch", "core::convert::From::from",
    "core::convert::Into::into", "core::result::Result::<T, E>::or_else",
    "core::result::Result::<T, E>::and_then",
}
TRY_BRANCH = "core::ops::try_trait::Try::branch"
FROM_RESIDUAL = "core::ops::try_trait::FromResidual::from_residual"


class Func:
    def __init__(self, raw, prog):
        self.raw = raw
        self.prog = prog
        self.key = raw["key"]
        self.crate = raw["crate"]
        self.at = raw.get("at", "?")
        self.name = raw.get("name")
        mir = raw.get("mir") or {"argc": 0, "locals": [], "blocks": []}
        self.argc = mir["argc"]
        self.locals = mir["locals"]
        self.blocks = mir["blocks"]
        self._succ = None
        self._pred = None
        self._defs = None
        self._uses = None
        self._rplus = {}
        for bi, b in enumerate(self.blocks):
            b["t"]["_bb"] = bi
            for si, st in enumerate(b["s"]):
                st["_pos"] = (bi, si)

    def __repr__(self):
        return "<Func %s>" % self.key

    # -- basic ------------------------------------------------------------------------------
    def local_name(self, l):
        if 0 <= l < len(self.locals):
            return self.locals[l].get("name")
        return None

    def local_ty(self, l):
        return self.locals[l]["ty"]

    def locals_named(self, name):
        return [i for i, l in enumerate(self.locals) if l.get("name") == name]

    def term(self, bi):
        return self.blocks[bi]["t"]

    def stmts(self, bi):
        return self.blocks[bi]["s"]

    def calls(self):
        for bi, b in enumerate(self.blocks):
            if b["t"].get("k") in ("call", "tailcall"):
                yield bi, b["t"]

    def calls_to(self, *keys):
        return [(bi, t) for bi, t in self.calls() if is_call_to(t, *keys)]

    def calls_named(self, name):
        out = []
        for bi, t in self.calls():
            c = callee_of(t)
            if c and c.get("name") == name:
                out.append((bi, t))
        return out

    def closure_defs(self):
        out = []
        for b in self.blocks:
            for s in b["s"]:
                if s["k"] == "assign" and s["rv"][0] == "agg" and s["rv"][1].get("k") in (
                        "closure", "coroutine", "coroutine_closure"):
                    out.append(s["rv"][1]["def"])
        return out

    def is_cleanup(self, bi):
        return bool(self.blocks[bi].get("cleanup"))

    # -- CFG --------------------------------------------------------------------------------
    def succ(self, bi):
        """normal-flow successors: list of (target, label). Unwind edges are not recorded."""
        if self._succ is None:
            self._succ = [self._succ_of(i) for i in range(len(self.blocks))]
        return self._succ[bi]

    def _succ_of(self, bi):
        t = self.blocks[bi]["t"]
        k = t["k"]
        if k in ("goto", "drop", "yield"):
            return [(t["t"], "")]
        if k == "switch":
            out = [(b, v) for v, b in t["arms"]]
            out.append((t["else"], "else"))
            return out
        if k in ("call",):
            return [(t["t"], "ret")] if "t" in t else []
        if k == "assert":
            return [(t["t"], "ok")]
        return []

    def pred(self, bi):
        if self._pred is None:
            p = defaultdict(list)
            for i in range(len(self.blocks)):
                for t, lab in self.succ(i):
                    p[t].append((i, lab))
            self._pred = p
        return self._pred.get(bi, [])

    def reach(self, starts, cut_edges=(), cut_blocks=()):
        """blocks reachable from `starts` (inclusive), not crossing cut edges / entering cut blocks."""
        cut_edges = set(cut_edges)
        cut_blocks = set(cut_blocks)
        seen = set()
        dq = deque()
        for s in starts:
            if s not in cut_blocks and s not in seen:
                seen.add(s)
                dq.append(s)
        while dq:
            b = dq.popleft()
            for t, lab in self.succ(b):
                if (b, t) in cut_edges or (b, t, lab) in cut_edges or t in cut_blocks:
                    continue
                if t not in seen:
                    seen.add(t)
                    dq.append(t)
        return seen

    def can_reach(self, src, dst_set, cut_edges=(), cut_blocks=()):
        r = self.reach([src], cut_edges, cut_blocks)
        return any(d in r for d in dst_set)

    def must_cross(self, targets, cut_edges=(), cut_blocks=(), start=0):
        """True iff every entry->target path crosses one of the cut edges / cut blocks."""
        r = self.reach([start], cut_edges, cut_blocks)
        return not any(t in r for t in targets)

    # -- return-place exits -----------------------------------------------------------------
    def exits(self):
        """Sites that write the return place `_0`, classified.

        Returns list of dict(bb, kind, detail) with kind in
        ok / err / residual / call:<callee> / other.
        """
        out = []
        for bi, b in enumerate(self.blocks):
            if b.get("cleanup"):
                continue
            for si, s in enumerate(b["s"]):
                if s["k"] == "assign" and s["p"] == [0]:
                    rv = s["rv"]
                    kind, detail = "other", None
                    if rv[0] == "agg" and rv[1].get("k") == "adt":
                        adt = rv[1]["adt"]
                        var = rv[1]["variant"]
                        if adt == "core::result::Result":
                            kind = "ok" if var == "Ok" else "err"
                        elif adt == "core::option::Option":
                            kind = "some" if var == "Some" else "none"
                        else:
                            kind = "value"
                            detail = adt
                    elif rv[0] == "use":
                        kind = "use"
                        detail = rv[1]
                        # a Result / Option built on several paths and returned through one local:
                        # report the building sites instead of the join
                        exp = self._expand_result_local(op_local(rv[1]), 0) if op_place(rv[1]) and len(op_place(rv[1])) == 1 else None
                        if exp:
                            out.extend(exp)
                            continue
                    out.append({"bb": bi, "si": si, "kind": kind, "detail": detail, "at": s["sp"]["at"]})
            t = b["t"]
            if t["k"] == "call" and t["dest"] == [0]:
                c = callee_of(t)
                name = c["def"] if c else "?"
                kind = "residual" if name == FROM_RESIDUAL else "call:" + name
                out.append({"bb": bi, "si": None, "kind": kind, "detail": c, "at": t["sp"]["at"]})
        return out

    def _expand_result_local(self, l, depth):
        if l is None or depth > 4:
            return None
        out = []
        ds = self.defs(l)
        if not ds:
            return None
        ds = [d for d in ds if d.get("p") and len(d["p"]) == 1]
        if not ds:
            return None
        for d in ds:
            if d["kind"] == "call" and len(ds) > 1:
                # one of several return paths delegates to a call (`?`'s from_residual, or a tail call of a spliced helper)
                c = callee_of(d["term"])
                name = c["def"] if c else "?"
                out.append({"bb": d["bb"], "si": None, "kind": "residual" if name == FROM_RESIDUAL else "call:" + name,
                            "detail": c, "at": d["at"]})
                continue
            if d["kind"] != "assign":
                return None
            rv = d["rv"]
            if rv[0] == "agg" and rv[1].get("k") == "adt" and rv[1].get("adt") in ("core::result::Result", "core::option::Option"):
                var = rv[1]["variant"]
                kind = {"Ok": "ok", "Err": "err", "Some": "some", "None": "none"}.get(var, "other")
                out.append({"bb": d["bb"], "si": d.get("si"), "kind": kind, "detail": None, "at": d["at"]})
            elif rv[0] == "use" and op_place(rv[1]) and len(op_place(rv[1])) == 1:
                sub = self._expand_result_local(op_local(rv[1]), depth + 1)
                if not sub:
                    return None
                out.extend(sub)
            else:
                return None
        return out

    def ok_exit_blocks(self, include_delegated=True):
        """blocks from which the function returns a possibly-Ok Result (or any non-Err value)."""
        out = []
        for e in self.exits():
            if e["kind"] in ("ok", "some", "value", "other", "use"):
                out.append(e["bb"])
            elif e["kind"].startswith("call:") and include_delegated:
                out.append(e["bb"])
        return sorted(set(out))

    def return_blocks(self):
        return [bi for bi, b in enumerate(self.blocks) if b["t"]["k"] == "return"]

    # -- def/use ----------------------------------------------------------------------------
    def _build_defuse(self):
        defs = defaultdict(list)   # local -> list of def records
        uses = defaultdict(list)   # local -> list of use records
        for bi, b in enumerate(self.blocks):
            for si, s in enumerate(b["s"]):
                if s["k"] != "assign":
                    continue
                tgt = s["p"]
                srcs = rv_operands(s["rv"])
                rec = {"bb": bi, "si": si, "kind": "assign", "p": tgt, "rv": s["rv"], "srcs": srcs,
                       "at": s["sp"]["at"]}
                defs[tgt[0]].append(rec)
                for e in tgt[1:]:
                    if isinstance(e, str) and e.startswith("[_"):
                        uses[int(e[2:-1])].append(rec)
                for src in srcs:
                    pl = op_place(src) if src[0] in ("cp", "mv") else (src[1] if src[0] == "pl" else None)
                    if pl:
                        uses[pl[0]].append(rec)
                        for e in pl[1:]:
                            if isinstance(e, str) and e.startswith("[_"):
                                uses[int(e[2:-1])].append(rec)
            t = b["t"]
            if t["k"] in ("call", "tailcall"):
                srcs = list(t["a"])
                if t["f"][0] != "k":
                    srcs.append(t["f"])
                rec = {"bb": bi, "si": None, "kind": "call", "p": t.get("dest"), "term": t,
                       "srcs": srcs, "at": t["sp"]["at"]}
                if t.get("dest"):
                    defs[t["dest"][0]].append(rec)
                for src in srcs:
                    pl = op_place(src)
                    if pl:
                        uses[pl[0]].append(rec)
            elif t["k"] == "switch":
                pl = op_place(t["d"])
                if pl:
                    uses[pl[0]].append({"bb": bi, "si": None, "kind": "switch", "term": t,
                                        "srcs": [t["d"]], "at": t["sp"]["at"]})
            elif t["k"] == "assert":
                pl = op_place(t["c"])
                rec = {"bb": bi, "si": None, "kind": "assert", "term": t, "srcs": [t["c"]] + t.get("ao", []),
                       "at": t["sp"]["at"]}
                if pl:
                    uses[pl[0]].append(rec)
        # stores through a pointer / reference `(*q).. = v` define what q points into
        for bi, b in enumerate(self.blocks):
            for si, st in enumerate(b["s"]):
                if st["k"] == "assign" and len(st["p"]) > 1 and st["p"][1] == "*":
                    for base in self._ptr_origins(st["p"][0], defs, set()):
                        if base != st["p"][0]:
                            defs[base].append({"bb": bi, "si": si, "kind": "store", "p": [base, "*"], "rv": st["rv"],
                                               "srcs": rv_operands(st["rv"]), "at": st["sp"]["at"]})
        # calls mutate what their `&mut` arguments point to: add weak defs
        for bi, b in enumerate(self.blocks):
            t = b["t"]
            if t["k"] != "call":
                continue
            for a in t["a"]:
                pl = op_place(a)
                if not pl:
                    continue
                for base in self._mutref_origins(pl[0], defs, set()):
                    defs[base].append({"bb": bi, "si": None, "kind": "call-mut", "p": [base], "term": t,
                                       "srcs": list(t["a"]), "at": t["sp"]["at"]})
        self._defs = defs
        self._uses = uses

    def _ptr_origins(self, l, defs, seen):
        """locals a pointer-like local may point into / be derived from (refs, raw pointers, casts,
        field projections of smart-pointer internals)."""
        if l in seen or len(seen) > 40:
            return set()
        seen.add(l)
        out = set()
        for d in defs.get(l, []):
            if d["kind"] != "assign":
                continue
            rv = d["rv"]
            pl = None
            if rv[0] in ("ref", "rawptr"):
                pl = rv[2]
            elif rv[0] in ("use", "cast"):
                pl = op_place(rv[1] if rv[0] == "use" else rv[2])
            if pl:
                out.add(pl[0])
                out |= self._ptr_origins(pl[0], defs, seen)
        return out

    def _mutref_origins(self, l, defs, seen):
        """locals that `l` (a `&mut` reference) may point into."""
        if l in seen:
            return set()
        seen.add(l)
        ty = self.locals[l]["ty"] if l < len(self.locals) else ""
        if not (ty.startswith("&mut") or (ty.startswith("(") and "&mut" in ty)):
            # (tuples of `&mut`, e.g. the halves returned by split_at_mut, are followed too)
            return set()
        out = set()
        for d in defs.get(l, []):
            if d["kind"] == "assign":
                rv = d["rv"]
                if rv[0] == "ref" and rv[1] == "mut":
                    pl = rv[2]
                    if "*" in pl[1:]:
                        out |= self._mutref_origins(pl[0], defs, seen)
                        out.add(pl[0])
                    else:
                        out.add(pl[0])
                elif rv[0] == "use":
                    p2 = op_place(rv[1])
                    if p2:
                        out |= self._mutref_origins(p2[0], defs, seen)
                elif rv[0] == "cast":
                    # unsizing `&mut [T; N]` -> `&mut [T]` and similar pointer coercions
                    p2 = op_place(rv[2])
                    if p2:
                        out |= self._mutref_origins(p2[0], defs, seen)
            elif d["kind"] == "call":
                # `&mut` returned by a call (deref_mut, index_mut, iter_mut, as_mut ...) points
                # into whatever its `&mut` arguments point into
                for a in d["term"]["a"]:
                    p2 = op_place(a)
                    if p2:
                        out |= self._mutref_origins(p2[0], defs, seen)
        return out

    def defs(self, l):
        if self._defs is None:
            self._build_defuse()
        return self._defs.get(l, [])

    def uses(self, l):
        if self._uses is None:
            self._build_defuse()
        return self._uses.get(l, [])

    INF = 1 << 30

    def reach_plus(self, b):
        """blocks reachable from b through at least one edge."""
        r = self._rplus.get(b)
        if r is None:
            r = self.reach([t for t, _ in self.succ(b)])
            self._rplus[b] = r
        return r

    def _def_reaches(self, d, pos):
        if pos is None:
            return True
        b2, s2 = pos
        dsi = d["si"] if d["si"] is not None else self.INF
        if d["bb"] == b2 and dsi < s2:
            return True
        return b2 in self.reach_plus(d["bb"])

    def reaching_defs(self, l, pos):
        """definitions of local `l` that may reach `pos`, with kills: a whole-local definition d2
        hides an earlier d1 when every path from d1 to pos passes through d2."""
        ds = [d for d in self.defs(l) if self._def_reaches(d, pos)]
        if pos is None or len(ds) <= 1:
            return ds
        key = (l, pos)
        cache = self.__dict__.setdefault("_rd_cache", {})
        if key in cache:
            return cache[key]

        def dpos(d):
            return (d["bb"], d["si"] if d["si"] is not None else self.INF)
        strong = [d for d in ds if d["kind"] in ("assign", "call") and d.get("p") and len(d["p"]) == 1]
        out = []
        for d1 in ds:
            killed = False
            b1, s1 = dpos(d1)
            for d2 in strong:
                if d2 is d1:
                    continue
                b2, s2 = dpos(d2)
                if b2 == b1:
                    if not (s1 < s2):
                        continue
                    # same block, d2 later: kills d1 for uses after d2 in this block and beyond,
                    # unless the block is on a cycle that re-enters between them (impossible within a block)
                    if pos[0] == b1 and not (s2 < pos[1]):
                        continue
                    killed = True
                    break
                if b2 == pos[0]:
                    if s2 < pos[1] and b1 != pos[0] and not (b2 in self.reach_plus(b2) and False):
                        # every path into this block reaches d2 before pos
                        killed = True
                        break
                    continue
                # different blocks: d2 kills d1 if pos is unreachable from d1 without entering b2
                if b2 in self.reach_plus(b1):
                    r = self.reach([t for t, _ in self.succ(b1)], cut_blocks=[b2])
                    if pos[0] not in r and not (pos[0] == b1 and s1 < pos[1]):
                        killed = True
                        break
            if not killed:
                out.append(d1)
        cache[key] = out
        return out

    def backward_slice(self, start_locals, stop_calls=(), at=None):
        """Backward slice from a set of locals as read at position `at` = (bb, stmt index)
        (None = anywhere: flow-insensitive).  A definition is followed only if it can reach the
        point where the value is read (so later mutations through `&mut` do not pollute earlier
        reads); the sources of a definition are read at the definition's own position.

        Returns dict(locals=set, calls=set of bb, places=list of places read, consts=list,
        args=set of argument locals reached, closures=set of closure def keys, aggs=list).
        `stop_calls`: callee keys whose results are not traced further (treated as sources).
        """
        seen = set()
        locs = set()
        dq = deque((l, at) for l in start_locals)
        res = {"locals": locs, "calls": set(), "places": [], "consts": [], "args": set(),
               "closures": set(), "aggs": []}
        while dq:
            l, pos = dq.popleft()
            if (l, pos) in seen:
                continue
            seen.add((l, pos))
            locs.add(l)
            if 1 <= l <= self.argc:
                res["args"].add(l)
            for d in self.reaching_defs(l, pos):
                dpos = (d["bb"], d["si"] if d["si"] is not None else self.INF)
                if d["kind"] in ("call", "call-mut"):
                    res["calls"].add(d["bb"])
                    if is_call_to(d["term"], *stop_calls):
                        continue
                elif d["kind"] == "assign":
                    rv = d["rv"]
                    if rv[0] == "agg":
                        res["aggs"].append(rv[1])
                        if rv[1].get("k") == "closure":
                            res["closures"].add(rv[1]["def"])
                for src in d["srcs"]:
                    if src[0] in ("cp", "mv"):
                        pl = src[1]
                    elif src[0] == "pl":
                        pl = src[1]
                    elif src[0] == "k":
                        res["consts"].append(src[1])
                        continue
                    else:
                        continue
                    res["places"].append(pl)
                    dq.append((pl[0], dpos))
                    for e in pl[1:]:
                        if isinstance(e, str) and e.startswith("[_"):
                            dq.append((int(e[2:-1]), dpos))
        return res

    def copy_chain(self, l):
        """locals that `l` is a plain copy/move/reborrow of (no arithmetic, no calls); includes l.
        Stops at locals with several definitions (loop-carried variables), which are included."""
        out = set()
        dq = deque([l])
        while dq:
            x = dq.popleft()
            if x in out:
                continue
            out.add(x)
            ds = self.defs(x)
            if len(ds) != 1 or ds[0]["kind"] != "assign":
                continue
            rv = ds[0]["rv"]
            if rv[0] == "use":
                pl = op_place(rv[1])
                if pl and all(e == "*" for e in pl[1:]):
                    dq.append(pl[0])
                elif pl and len(pl) == 2 and pl[1].startswith(".0:") and self.locals[pl[0]]["ty"].startswith("("):
                    # `.0` of a checked-arithmetic (value, overflow) pair: the value itself
                    dq.append(pl[0])
            elif rv[0] == "ref":
                pl = rv[2]
                if all(e == "*" for e in pl[1:]):
                    dq.append(pl[0])
        return out

    def operand_is_value_of_call(self, op, call_bb):
        """operand is (a copy of) the payload of the call's result, through `?`/map_err carriers."""
        t = self.term(call_bb)
        if not t.get("dest"):
            return False
        carried = self.forward_locals([t["dest"][0]], through_calls=CARRIERS)
        pl = op_place(op)
        return bool(pl) and bool(self.copy_chain(pl[0]) & carried)

    def operand_is_copy_of(self, op, locals_):
        pl = op_place(op)
        if not pl or any(e != "*" for e in pl[1:]):
            return False
        return bool(self.copy_chain(pl[0]) & set(locals_))

    def slice_of_operand(self, op, **kw):
        pl = op_place(op)
        if pl is None:
            return {"locals": set(), "calls": set(), "places": [], "consts": [op_const(op)],
                    "args": set(), "closures": set(), "aggs": []}
        start = [pl[0]] + [int(e[2:-1]) for e in pl[1:] if isinstance(e, str) and e.startswith("[_")]
        r = self.backward_slice(start, **kw)
        r["places"].append(pl)
        return r

    def slice_fields(self, sl):
        """set of field names read anywhere in a slice."""
        out = set()
        for pl in sl["places"]:
            out.update(place_fields(pl))
        return out

    def slice_callees(self, sl):
        out = set()
        for bi in sl["calls"]:
            out.update(callee_keys(self.term(bi)))
        return out

    def forward_locals(self, start, through_calls=None, into_fields=False):
        """locals that receive (a carrier of) the value in `start`, following moves/copies/refs,
        and results of calls in `through_calls` (set of callee keys; None = every call).
        Stores into a field / element of another local are not followed unless into_fields."""
        seen = set()
        dq = deque(start)
        while dq:
            l = dq.popleft()
            if l in seen:
                continue
            seen.add(l)
            for u in self.uses(l):
                if u["kind"] == "assign":
                    if len(u["p"]) > 1 and not into_fields:
                        continue
                    # value use only: the local must be an operand, not merely an index inside a place
                    direct = False
                    for src in u["srcs"]:
                        pl = op_place(src) if src[0] in ("cp", "mv") else (src[1] if src[0] == "pl" else None)
                        if pl and pl[0] == l:
                            direct = True
                    if direct:
                        dq.append(u["p"][0])
                elif u["kind"] == "call":
                    if not any(op_place(a) and op_place(a)[0] == l for a in u["term"]["a"]):
                        continue
                    if through_calls is None or is_call_to(u["term"], *through_calls):
                        if u["p"]:
                            dq.append(u["p"][0])
        return seen

    # -- checks -----------------------------------------------------------------------------
    def result_checks(self, call_bb):
        """For the Result/Option produced by the call in `call_bb`, find where it is tested.

        Follows the destination through carriers (map_err, Try::branch, moves) to SwitchInt on a
        discriminant.  Returns list of dict(switch_bb, pass_edges=[(bb,t)], fail_edges=[...], via).
        An empty list means the result is never inspected by a branch in this function.
        """
        t = self.term(call_bb)
        if not t.get("dest"):
            return []
        carriers = self.forward_locals([t["dest"][0]], through_calls=CARRIERS)
        checks = []
        for bi, b in enumerate(self.blocks):
            for s in b["s"]:
                if s["k"] == "assign" and s["rv"][0] == "discr" and s["rv"][1][0] in carriers:
                    dl = s["p"][0]
                    src_local = s["rv"][1][0]
                    # find switch on dl
                    for u in self.uses(dl):
                        if u["kind"] == "switch":
                            sw = u["term"]
                            sb = u["bb"]
                            # Result / ControlFlow: 0 = Ok / Continue (pass); Option: 1 = Some (pass).  The
                            # passing variant may be the explicit arm or the `otherwise` edge (`if let Some(x)`
                            # lists only arm 1, `if let Err(e)` only arm 1 of a Result).
                            labs = [lab for _, lab in self.succ(sb)]
                            ty = self.local_ty(src_local)
                            want = "1" if ty.startswith("core::option::Option") else "0"
                            other = "0" if want == "1" else "1"
                            pass_lab = want if want in labs else ("else" if other in labs else want)
                            pass_e, fail_e = [], []
                            for tgt, lab in self.succ(sb):
                                (pass_e if lab == pass_lab else fail_e).append((sb, tgt))
                            checks.append({"switch_bb": sb, "pass_edges": pass_e, "fail_edges": fail_e,
                                           "on": src_local, "at": sw["sp"]["at"]})
        # `if r.is_err() { return Err(..) }` / `if r.is_ok() { .. }`: the variant test as a boolean
        for bi, t2 in self.calls():
            c = callee_of(t2) or {}
            if c.get("name") not in ("is_ok", "is_err", "is_some", "is_none") or c.get("krate") != "core" or len(t2["a"]) != 1 or self.is_cleanup(bi):
                continue
            a = op_local(t2["a"][0])
            if a is None:
                continue
            srcs = {a}
            for d in self.defs(a):
                if d["kind"] == "assign" and d["rv"][0] == "ref":
                    srcs.add(d["rv"][2][0])
                elif d["kind"] == "assign" and d["rv"][0] == "use" and op_local(d["rv"][1]) is not None:
                    srcs.add(op_local(d["rv"][1]))
            hit = srcs & carriers
            if not hit:
                continue
            positive = c["name"] in ("is_ok", "is_some")
            for ch in self.bool_checks_of(bi):
                checks.append({"switch_bb": ch["switch_bb"], "pass_edges": ch["true_edges"] if positive else ch["false_edges"],
                               "fail_edges": ch["false_edges"] if positive else ch["true_edges"], "on": min(hit), "at": ch["at"], "via": c["name"]})
        return checks

    def bool_checks_of(self, call_bb):
        """SwitchInt sites testing the bool produced by the call in `call_bb` (possibly negated)."""
        t = self.term(call_bb)
        if not t.get("dest"):
            return []
        return self.bool_checks_of_local(t["dest"][0])

    def bool_checks_of_local(self, l):
        out = []
        seen = set()
        dq = deque([(l, False)])
        while dq:
            x, neg = dq.popleft()
            if (x, neg) in seen:
                continue
            seen.add((x, neg))
            for u in self.uses(x):
                if u["kind"] == "switch":
                    sb = u["bb"]
                    tr, fa = [], []
                    for tgt, lab in self.succ(sb):
                        # bool switch: arm "0" = false, else = true
                        (fa if lab == "0" else tr).append((sb, tgt))
                    if neg:
                        tr, fa = fa, tr
                    out.append({"switch_bb": sb, "true_edges": tr, "false_edges": fa,
                                "at": u["term"]["sp"]["at"]})
                elif u["kind"] == "assign":
                    rv = u["rv"]
                    if rv[0] == "un" and rv[1] == "Not":
                        dq.append((u["p"][0], not neg))
                    elif rv[0] == "use":
                        dq.append((u["p"][0], neg))
        return out


def rv_operands(rv):
    k = rv[0]
    if k == "use":
        return [rv[1]]
    if k == "repeat":
        return [rv[1]]
    if k in ("ref", "rawptr"):
        return [["pl", rv[2]]]
    if k == "cast":
        return [rv[2]]
    if k == "bin":
        return [rv[2], rv[3]]
    if k == "un":
        return [rv[2]]
    if k == "discr":
        return [["pl", rv[1]]]
    if k == "agg":
        return list(rv[2])
    return []
