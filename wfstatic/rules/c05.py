"""C05 — deserializing and verifying untrusted proofs never crashes or hangs (A5 inventory)."""
import os
from .. import ir, panics
from ..ir import AnchorLost, callee_of

TABLE = os.path.join(os.path.dirname(os.path.dirname(os.path.abspath(__file__))), "tables", "panic_sites.json")

DESER = "winter_utils::serde::Deserializable"
# component parsers (Commitments::parse, Queries::parse, Table::from_bytes, OodFrame::parse,
# FriProof::parse_*, FriProofLayer::parse) take trusted numeric parameters from the verifier and
# untrusted bytes: they are analysed in the parameter environment of their call sites under
# `verify`, not as free-standing entry points with arbitrary parameters.
COMPONENT_PARSERS = [
    "winter_air::proof::commitments::Commitments::parse",
    "winter_air::proof::queries::Queries::parse",
    "winter_air::proof::table::Table::<E>::from_bytes",
    "winter_air::proof::ood_frame::OodFrame::parse",
    "winter_fri::proof::FriProof::parse_layers",
    "winter_fri::proof::FriProof::parse_remainder",
    "winter_fri::proof::FriProof::num_partitions",
    "winter_fri::proof::FriProofLayer::parse",
]
PROTOCOL_PARSERS = [
    "winter_air::proof::Proof::from_bytes",
    "winter_crypto::merkle::proofs::BatchMerkleProof::<H>::get_root",
    "winter_crypto::merkle::proofs::BatchMerkleProof::<H>::into_openings",
    "winter_crypto::merkle::MerkleTree::<H>::verify_batch",
    "winter_verifier::verify",
    DESER + "::read_from_bytes",
    # every Air::new must build its context from the proof-supplied TraceInfo / ProofOptions
    "winter_air::air::context::AirContext::<B>::new",
    "winter_air::air::context::AirContext::<B>::new_multi_segment",
]


def decoder_scope(k):
    """element / digest decoders inside otherwise excluded arithmetic and hash modules."""
    return any(x in k for x in ("Deserializable>::read_from", "TryFrom<", "Randomizable>::from_random_bytes",
                                "from_bytes_with_padding", "get_modulus_le_bytes", "Digest>::as_bytes",
                                "::Digest as", "ByteDigest"))


def make_stop(prog):
    def stop(k):
        f = prog.funcs.get(k)
        if f is None:
            return True
        if f.crate in ("examples", "winter_prover", "winter_rand_utils", "winter_maybe_async"):
            return True
        if f.name == "fmt" or "core::fmt::" in k or "as core::fmt::" in k:
            return True
        if "ReadAdapter" in k:
            return True
        if k.startswith(("winter_math::field::", "<winter_math::field::")) and not decoder_scope(k):
            return True
        if k.startswith(("winter_crypto::hash::", "<winter_crypto::hash::")) and not decoder_scope(k):
            return True
        if k.startswith(("winter_math::fft::", "<[E] as winter_math::fft::", "<[[E; N]] as winter_math::fft::",
                         "winter_math::polynom::", "winter_math::utils::")):
            return True
        # code whose inputs come from the user's Air implementation (assertions, degrees, periodic
        # columns): entered only up to the calls that carry proof-supplied values
        if k.startswith(("winter_air::air::boundary::", "winter_air::air::assertions::", "winter_air::air::transition::",
                         "winter_air::air::divisor::", "winter_air::air::Air::get_periodic_column_polys",
                         "<winter_air::air::assertions::", "<winter_air::air::transition::")):
            return True
        if "std::io::cursor::Cursor" in k:
            return True
        return False
    return stop


def entry_points(prog):
    es = [k for k in PROTOCOL_PARSERS]
    for i in prog.impls_of_trait(DESER):
        if i["crate"] in ("examples",):
            continue
        for it in i["items"]:
            if it["name"] == "read_from":
                es.append(it["key"])
    missing = [k for k in PROTOCOL_PARSERS + COMPONENT_PARSERS if k not in prog.funcs]
    if missing:
        raise AnchorLost("entry points not found: %s" % missing)
    return sorted(set(k for k in es if k in prog.funcs))


def run_inventory(ctx, rule, entries, scope_note, cfg="default"):
    p = ctx.prog(cfg)
    table = panics.load_table(TABLE)
    recs, keys, an = panics.inventory(p, entries, make_stop(p), table)
    counts = {}
    used = set()
    for r in recs:
        counts[r["verdict"]] = counts.get(r["verdict"], 0) + 1
        s = r["site"]
        if r["verdict"] == "open":
            path = " -> ".join(x.split("::")[-1] if len(x) > 60 else x for x in r["path"][-4:])
            ctx.ob(rule, s["id"], False, "%s [%s]; reached via %s" % (r["how"], s["kind"], path), r["func"], r["at"], cfg=cfg)
        elif r["verdict"] == "table":
            used.add(r["key"])
            ctx.ob(rule, s["id"], True, r["how"], r["func"], r["at"], cfg=cfg)
        elif r["verdict"] == "auto":
            ctx.ob(rule, s["id"], True, r["how"], r["func"], r["at"], cfg=cfg)
        else:
            ctx.ob(rule, s["id"], True, r["how"], r["func"], r["at"], nontrivial=False, cfg=cfg)
    ctx.note("%s [%s]: %d entry points, %d functions in scope, sites: %s (%s)" % (rule, cfg, len(entries), len(keys), counts, scope_note))
    return recs, keys, counts


def run(ctx):
    ctx.rule("A5", "every panic / abort / unbounded-allocation site reachable from the untrusted-input entry points is discharged by guard intervals, a relational index pattern, a reviewed reason, or is a known finding", 150)
    ctx.rule("ENTRY", "entry points resolved from the program (protocol parsers + every Deserializable::read_from impl)", 1)

    def go(c):
        entries = entry_points(c.p)
        c.ob("ENTRY", "entry-points", len(entries) >= 40, "%d entry points resolved: protocol parsers, verify, %d Deserializable impls" % (
            len(entries), len(entries) - len(PROTOCOL_PARSERS)), "entry-set", nontrivial=False)
        run_inventory(c, "A5", entries, "field arithmetic and hash permutation bodies excluded (C10/C16 value-level); user Air methods opaque")
    ctx.guard("A5", go)
    ctx.assume("user Air implementations (Air::new, evaluate_transition, get_assertions, ...) do not panic")
    ctx.assume("field arithmetic and hash permutations do not panic on representable inputs (representation invariant, C10/C16)")
    ctx.assume("sites whose operands are not data-dependent on the entry points' inputs behave as on honest runs")


def thorough(ctx):
    """repeat the inventory on the concurrent and the no_std build (cfg-dependent code paths)."""
    for cfg in ("concurrent", "nostd"):
        def go(c, cfg=cfg):
            entries = entry_points(c.prog(cfg))
            run_inventory(c, "A5", entries, "same scope as the default build", cfg=cfg)
        ctx.guard("A5", go)
