"""C05 — deserializing and verifying untrusted proofs never crashes or hangs (A5 inventory)."""
import os
from .. import ir, panics
from ..ir import AnchorLost, callee_of

TABLE = os.path.join(os.path.dirname(os.path.dirname(os.path.abspath(__file__))), "tables", "panic_sites.json")

DESER = "winter_utils::serde::Deserializable"
# component parsers (Commitments::parse, Queries::parse, Table::from_bytes, OodFrame::parse,
# FriProof::parse_*, FriProofLayer::parse) take trusted numeric parameters from the verifier and
# untrusted bytes: they are analysed in the parameter environment of their call sites under
# `verify`, not as free-standing entry points with arbitrary parameters.
COMPONENT_PARSERS = [
    "winter_air::proof::commitments::Commitments::parse",
    "winter_air::proof::queries::Queries::parse",
    "winter_air::proof::table::Table::<E>::from_bytes",
    "winter_air::proof::ood_frame::OodFrame::parse",
    "winter_fri::proof::FriProof::parse_layers",
    "winter_fri::proof::FriProof::parse_remainder",
    "winter_fri::proof::FriProof::num_partitions",
    "winter_fri::proof::FriProofLayer::parse",
]
PROTOCOL_PARSERS = [
    "winter_air::proof::Proof::from_bytes",
    "winter_crypto::merkle::proofs::BatchMerkleProof::<H>::get_root",
    "winter_crypto::merkle::proofs::BatchMerkleProof::<H>::into_openings",
    "winter_crypto::merkle::MerkleTree::<H>::verify_batch",
    "winter_verifier::verify",
    DESER + "::read_from_bytes",
    # every Air::new must build its context from the proof-supplied TraceInfo / ProofOptions
    "winter_air::air::context::AirContext::<B>::new",
    "winter_air::air::context::AirContext::<B>::new_multi_segment",
]


def decoder_scope(k):
    """element / digest decoders inside otherwise excluded arithmetic and hash modules."""
    return any(x in k for x in ("Deserializable>::read_from", "TryFrom<", "Randomizable>::from_random_bytes",
                                "from_bytes_with_padding", "get_modulus_le_bytes", "Digest>::as_bytes",
                                "::Digest as", "ByteDigest"))


def make_stop(prog):
    def stop(k):
        f = prog.funcs.get(k)
        if f is None:
            return True
        if f.crate in ("examples", "winter_prover", "winter_rand_utils", "winter_maybe_async"):
            return True
        if f.name == "fmt" or "core::fmt::" in k or "as core::fmt::" in k:
            return True
        if "ReadAdapter" in k:
            return True
        if k.startswith(("winter_math::field::", "<winter_math::field::")) and not decoder_scope(k):
            return True
        if k.startswith(("winter_crypto::hash::", "<winter_crypto::hash::")) and not decoder_scope(k):
            return True
        if k.startswith(("winter_math::fft::", "<[E] as winter_math::fft::", "<[[E; N]] as winter_math::fft::",
                         "winter_math::polynom::", "winter_math::utils::")):
            return True
        # code whose inputs come from the user's Air implementation (assertions, degrees, periodic
        # columns): entered only up to the calls that carry proof-supplied values
        if k.startswith(("winter_air::air::boundary::", "winter_air::air::assertions::", "winter_air::air::transition::",
                         "winter_air::air::divisor::", "winter_air::air::Air::get_periodic_column_polys",
                         "<winter_air::air::assertions::", "<winter_air::air::transition::")):
            return True
        if "std::io::cursor::Cursor" in k:
            return True
        return False
    return stop


def entry_points(prog):
    es = [k for k in PROTOCOL_PARSERS]
    for i in prog.impls_of_trait(DESER):
        if i["crate"] in ("examples",):
            continue
        for it in i["items"]:
            if it["name"] == "read_from":
                es.append(it["key"])
    missing = [k for k in PROTOCOL_PARSERS + COMPONENT_PARSERS if k not in prog.funcs]
    if missing:
        raise AnchorLost("entry points not found: %s" % missing)
    return sorted(set(k for k in es if k in prog.funcs))


def padding_chunks(prog):
    """every slice handed to StarkField::from_bytes_with_padding (which asserts len < ELEMENT_BYTES) is either a
    half of the context's modulus bytes (bounded by verify's modulus comparison, the entry's other requirement) or
    an item of `.chunks(E::ELEMENT_BYTES - 1)`."""
    from .c14 import sym
    from .c03 import for_loops
    from ..patterns import arg_slice, slice_field_bases
    n, hows = 0, []
    def chunk_size_ok(f, sl):
        for b in sl["calls"]:
            tt = f.term(b)
            if (callee_of(tt) or {}).get("name") in ("chunks", "chunks_exact", "rchunks") and len(tt["a"]) == 2:
                size = sym(f, tt["a"][1])
                if size[0] == "bin" and size[1] == "Sub" and size[2][0] == "c" and size[2][1].endswith("::ELEMENT_BYTES") and size[3][0] == "k" and size[3][1] >= 1:
                    return True
        return False

    def fn_item_uses(f0):
        return [(bi, t) for bi, t in f0.calls() if not f0.is_cleanup(bi) and any(
            a[0] == "k" and isinstance(a[1], dict) and (a[1].get("fn") or {}).get("name") == "from_bytes_with_padding" for a in t["a"])]

    for k, f0 in sorted(prog.funcs.items()):
        direct = any((callee_of(t) or {}).get("name") == "from_bytes_with_padding" for _, t in f0.calls())
        items = fn_item_uses(f0)
        if not direct and not items:
            continue
        f = prog.fn(k)
        # `chunks(n).map(E::from_bytes_with_padding)`: the function item applied to every chunk
        for bi, t in fn_item_uses(f):
            n += 1
            c = callee_of(t) or {}
            recv = arg_slice(f, t, 0)
            if c.get("name") != "map" or c.get("krate") != "core" or not chunk_size_ok(f, recv) or \
                    {(callee_of(f.term(b)) or {}).get("name") for b in recv["calls"]} & {"flatten", "flat_map", "chain", "zip"}:
                return False, "%s applies from_bytes_with_padding as a function item to something other than chunks(ELEMENT_BYTES - 1) (%s)" % (k, ir.line_of(t["sp"]["at"]))
            hows.append("chunks(ELEMENT_BYTES - 1).map(from_bytes_with_padding)")
        loops = None
        for bi, t in f.calls():
            if (callee_of(t) or {}).get("name") != "from_bytes_with_padding" or f.is_cleanup(bi):
                continue
            n += 1
            sl = arg_slice(f, t, 0)
            names = {(callee_of(f.term(b)) or {}).get("name") for b in sl["calls"]}
            if ("split_at" in names or "index" in names) and "field_modulus_bytes" in slice_field_bases(sl) and not (names & {"chunks", "chunks_exact"}):
                hows.append("modulus half")
                continue
            ok = False
            for b in sl["calls"]:
                tt = f.term(b)
                if (callee_of(tt) or {}).get("name") in ("chunks", "chunks_exact", "rchunks") and len(tt["a"]) == 2:
                    size = sym(f, tt["a"][1])
                    if size[0] == "bin" and size[1] == "Sub" and size[2][0] == "c" and size[2][1].endswith("::ELEMENT_BYTES") and size[3][0] == "k" and size[3][1] >= 1:
                        loops = loops if loops is not None else for_loops(f)
                        L = [x for x in loops if bi in x["own_body"]]
                        items = set().union(*[set(x["item_locals"]) | {x["item_local"]} for x in L]) if L else set()
                        if sl["locals"] & items:
                            ok = True
            if not ok:
                return False, "%s hands from_bytes_with_padding a slice that is not a chunk of ELEMENT_BYTES - 1 bytes (%s)" % (k, ir.line_of(t["sp"]["at"]))
            hows.append("chunks(ELEMENT_BYTES - 1) item")
    if n < 3:
        return False, "expected the three from_bytes_with_padding call sites, found %d" % n
    return True, "all %d from_bytes_with_padding arguments are modulus halves or items of chunks(ELEMENT_BYTES - 1)" % n


panics.FACTS["c05.padding_chunks"] = padding_chunks


def run_inventory(ctx, rule, entries, scope_note, cfg="default", stop=None):
    p = ctx.prog(cfg)
    table = panics.load_table(TABLE)
    recs, keys, an = panics.inventory(p, entries, stop or make_stop(p), table)
    counts = {}
    used = set()
    for r in recs:
        counts[r["verdict"]] = counts.get(r["verdict"], 0) + 1
        s = r["site"]
        if r["verdict"] == "open":
            path = " -> ".join(x.split("::")[-1] if len(x) > 60 else x for x in r["path"][-4:])
            ctx.ob(rule, s["id"], False, "%s [%s]; reached via %s" % (r["how"], s["kind"], path), panics.stable_key(p, r["func"]), r["at"], cfg=cfg)
        elif r["verdict"] == "table":
            used.add(r["key"])
            ctx.ob(rule, s["id"], True, r["how"], panics.stable_key(p, r["func"]), r["at"], cfg=cfg)
        elif r["verdict"] == "auto":
            ctx.ob(rule, s["id"], True, r["how"], panics.stable_key(p, r["func"]), r["at"], cfg=cfg)
        else:
            ctx.ob(rule, s["id"], True, r["how"], panics.stable_key(p, r["func"]), r["at"], nontrivial=False, cfg=cfg)
    ctx.note("%s [%s]: %d entry points, %d functions in scope, sites: %s (%s)" % (rule, cfg, len(entries), len(keys), counts, scope_note))
    return recs, keys, counts


def run(ctx):
    ctx.rule("A5", "every panic / abort / unbounded-allocation site reachable from the untrusted-input entry points is discharged by guard intervals, a relational index pattern, a reviewed reason, or is a known finding", 150)
    ctx.rule("ENTRY", "entry points resolved from the program (protocol parsers + every Deserializable::read_from impl)", 1)

    def go(c):
        entries = entry_points(c.p)
        c.ob("ENTRY", "entry-points", len(entries) >= 40, "%d entry points resolved: protocol parsers, verify, %d Deserializable impls" % (
            len(entries), len(entries) - len(PROTOCOL_PARSERS)), "entry-set", nontrivial=False)
        run_inventory(c, "A5", entries, "field arithmetic and hash permutation bodies excluded (C10/C16 value-level); user Air methods opaque")
    ctx.guard("A5", go)
    ctx.rule("TERM", "loops with an input-dependent trip count contain a fallible read whose error leaves the function, or have a count bounded by a type width <= 2^16", 3)
    ctx.guard("TERM", r_termination)
    ctx.assume("user Air implementations (Air::new, evaluate_transition, get_assertions, ...) do not panic")
    ctx.assume("field arithmetic and hash permutations do not panic on representable inputs (representation invariant, C10/C16)")
    ctx.assume("sites whose operands are not data-dependent on the entry points' inputs behave as on honest runs")


def r_termination(ctx, cfg="default"):
    """loops whose trip count is a decoded / caller-supplied integer must contain a fallible step whose
    failure leaves the function (so the loop stops at end of input), or have a count bounded by a
    small type width."""
    from .c03 import for_loops
    from .. import intervals
    from ..patterns import check_result_guard
    p = ctx.prog(cfg)
    entries = entry_points(p)
    stop = make_stop(p)
    reach = p.reachable_from(entries, stop=stop)
    keys = [k for k in reach if not stop(k)]
    an = intervals.Analysis(p)
    an.compute_param_env(entries, set(keys))
    tn = panics.taint(p, entries, set(keys))
    n = 0
    for k in sorted(keys):
        f = p.funcs[k]
        for L in for_loops(f):
            rng = None
            sl = f.backward_slice([L["iter_local"]], at=(L["header"], 0))
            for x in sl["locals"]:
                for d in f.defs(x):
                    if d["kind"] == "assign" and d["rv"][0] == "agg" and d["rv"][1].get("adt", "").startswith("core::ops::range::Range") and len(d["rv"][2]) == 2:
                        rng = d
            if rng is None:
                continue
            end = rng["rv"][2][1]
            el = ir.op_local(end)
            if el is None or el not in tn.get(k, set()):
                continue
            n += 1
            iv = an.eval_op(f, end, (rng["bb"], rng["si"]))
            bounded = iv is not None and iv[1] <= 1 << 16
            fallible = False
            for b in sorted(L["body"]):
                t = f.term(b)
                if t["k"] == "call" and t.get("dest") and f.local_ty(t["dest"][0]).startswith("core::result::Result"):
                    for c in f.result_checks(b):
                        if c["fail_edges"] and all(not f.can_reach(tg, [L["header"]]) for _, tg in c["fail_edges"] if f.blocks[tg]["t"]["k"] != "unreachable"):
                            fallible = True
            names = panics._names_of(f, [end])
            esl = f.slice_of_operand(end, at=(rng["bb"], rng["si"]))
            enames = {(callee_of(f.term(b)) or {}).get("name") for b in esl["calls"]}
            held = bool(enames & {"len", "num_rows", "num_columns", "num_fri_layers", "depth"}) or any(
                d["kind"] == "assign" and d["rv"][0] == "un" and d["rv"][1] == "PtrMetadata" for l in esl["locals"] for d in f.defs(l))
            why = ("count bounded by %s" % panics._fmt(iv) if bounded else
                   "every iteration performs a fallible read whose error leaves the function (stops at end of input)" if fallible else
                   "count is the size of a collection already held in memory (or the logarithmic layer count)")
            ctx.ob("TERM", "loop-bound:%s" % names, bounded or fallible or held,
                   "loop over 0..%s: %s" % (names, why) if bounded or fallible or held else
                   "loop count %s comes from the input, is not bounded (%s), is not the size of held data and the body has no fallible step" % (names, panics._fmt(iv)),
                   f, f.term(L["header"])["sp"]["at"], cfg=cfg)
    # while-loops: a simple variant must make progress on every iteration
    from .. import codec
    m = 0
    for k in sorted(keys):
        f = p.funcs[k]
        fls = for_loops(f)
        skip = {L["header"] for L in fls} | {L["switch"] for L in fls}
        for src, h in sorted(codec._back_edges(f)):
            if h in skip or f.is_cleanup(h):
                continue
            m += 1
            ok, how = _variant_progress(f, h, an)
            ctx.ob("TERM", "while-variant", ok, how, f, f.term(h)["sp"]["at"], cfg=cfg)
    ctx.note("TERM: %d input-dependent for-loops and %d while-loops examined" % (n, m))


def _variant_progress(f, h, an):
    from ..patterns import cmp_sites
    body = {h}
    from .. import codec
    for src, hh in codec._back_edges(f):
        if hh != h:
            continue
        stack = [src]
        while stack:
            x = stack.pop()
            if x in body:
                continue
            body.add(x)
            for pb, _ in f.pred(x):
                stack.append(pb)
    # exit-controlling comparisons inside the loop
    for s in cmp_sites(f):
        if s["bb"] not in body:
            continue
        for c in f.bool_checks_of_local(s["local"]):
            leaves_t = any(tg not in body for _, tg in c["true_edges"])
            leaves_f = any(tg not in body for _, tg in c["false_edges"])
            if leaves_t == leaves_f:
                continue
            # the loop continues while `a REL b` (REL = op if the false edge leaves)
            from ..intervals import CMP_NEG
            rel = s["op"] if leaves_f else CMP_NEG[s["op"]]
            for var_op, other, grows_ok in ((s["a"], s["b"], rel in ("Lt", "Le", "Ne")), (s["b"], s["a"], rel in ("Gt", "Ge", "Ne"))):
                vl = ir.op_local(var_op)
                if vl is None:
                    continue
                carried = [x for x in f.copy_chain(vl) if len(f.defs(x)) > 1 or (1 <= x <= f.argc and f.defs(x))]
                for v in carried:
                    for d in f.defs(v):
                        if d["bb"] not in body or d["kind"] != "assign":
                            continue
                        rv = d["rv"]
                        src = None
                        if rv[0] == "bin":
                            src = rv
                        elif rv[0] == "use" and ir.op_local(rv[1]) is not None:
                            for x in f.copy_chain(ir.op_local(rv[1])):
                                for dd in f.defs(x):
                                    if dd["kind"] == "assign" and dd["rv"][0] == "bin":
                                        src = dd["rv"]
                        if not src:
                            continue
                        op = src[1].replace("WithOverflow", "")
                        step = an.eval_op(f, src[3], (d["bb"], d["si"]))
                        inc = op == "Add" and step and step[0] >= 1
                        dec = (op in ("Sub", "Shr") and step and step[0] >= 1) or (op == "Div" and step and step[0] >= 2)
                        outside = [b for b in range(len(f.blocks)) if b not in body]
                        on_every = all(not f.can_reach(tg, [h], cut_blocks=[d["bb"]] + outside) for tg, _ in f.succ(h) if tg in body) or d["bb"] == h
                        if on_every and ((inc and grows_ok) or (dec and not grows_ok) or (dec and rel in ("Gt", "Ge"))):
                            return True, "loop continues while %s %s ..; `%s` moves by %s (step %s) on every iteration" % (
                                f.local_name(v) or "_%d" % v, rel, f.local_name(v) or "_%d" % v, op, panics._fmt(step))
    return False, "no loop-carried variable with a strictly monotone update on every iteration was found for this loop"


def thorough(ctx):
    """repeat the inventory on the concurrent and the no_std build (cfg-dependent code paths)."""
    for cfg in ("concurrent", "nostd"):
        def go(c, cfg=cfg):
            entries = entry_points(c.prog(cfg))
            run_inventory(c, "A5", entries, "same scope as the default build", cfg=cfg)
        ctx.guard("A5", go)
