"""C15 — byte-oriented hashers follow their byte layout (representation clause)."""
from .. import ir, intervals
from ..ir import AnchorLost, callee_of, op_place, op_local, op_const, is_call_to
from ..patterns import calls_to, arg_slice, slice_field_bases

EH = "winter_crypto::hash::ElementHasher"
HASHER = "winter_crypto::hash::Hasher"
FE = "winter_math::field::traits::FieldElement"
BYTE_HASHERS = {
    "winter_crypto::hash::blake::Blake3_256<B>": 32,
    "winter_crypto::hash::blake::Blake3_192<B>": 24,
    "winter_crypto::hash::sha::Sha3_256<B>": 32,
}


def names_in(f, sl):
    return {(callee_of(f.term(b)) or {}).get("name") for b in sl["calls"]}


def impl_fn(p, trait, self_ty, name):
    for i in p.impls_of_trait(trait):
        if i["self_ty"] == self_ty:
            for it in i["items"]:
                if it["name"] == name and it["key"] in p.funcs:
                    return p.fn(it["key"])
    raise AnchorLost("%s::%s for %s not found" % (trait, name, self_ty))


def ret_slice(f):
    from .c24 import ret_slice as rs
    return rs(f)


def r1_canonical_gate(ctx):
    p = ctx.p
    for ty, dlen in BYTE_HASHERS.items():
        f = impl_fn(p, EH, ty, "hash_elements")
        short = ty.split("::")[-1].split("<")[0]
        sw = None
        for bi, b in enumerate(f.blocks):
            t = b["t"]
            if t["k"] == "switch" and not b.get("cleanup"):
                c = op_const(t["d"])
                sl = f.slice_of_operand(t["d"], at=(bi, f.INF)) if c is None else {"consts": [c]}
                if any(x and x.get("uneval_def") == FE + "::IS_CANONICAL" for x in sl["consts"]):
                    sw = (bi, t)
        if not sw:
            ctx.ob("R1", "%s:branch-on-IS_CANONICAL" % short, False, "hash_elements does not branch on B::IS_CANONICAL", f)
            continue
        bi, t = sw
        true_edges = [(bi, tg) for tg, lab in f.succ(bi) if lab != "0"]
        false_edges = [(bi, tg) for tg, lab in f.succ(bi) if lab == "0"]
        raw = [(b2, t2) for b2, t2 in f.calls() if (callee_of(t2) or {}).get("name") in ("elements_as_bytes", "as_bytes_unchecked")
               or ((callee_of(t2) or {}).get("name") == "from_raw_parts")]
        raw = [(b2, t2) for b2, t2 in raw if not f.is_cleanup(b2)]
        ok_raw = bool(raw) and all(f.must_cross([b2], cut_edges=true_edges) for b2, _ in raw)
        ctx.ob("R1", "%s:raw-bytes-only-when-canonical" % short, ok_raw,
               "elements_as_bytes (raw element memory) is used only on the IS_CANONICAL == true edge" if ok_raw else
               "raw element memory is hashed on a path not guarded by IS_CANONICAL == true", f, t["sp"]["at"])
        wm = [(b2, t2) for b2, t2 in f.calls() if (callee_of(t2) or {}).get("name") == "write_many" and not f.is_cleanup(b2)]
        ok_ser = bool(wm) and all(f.must_cross([b2], cut_edges=false_edges) for b2, _ in wm) and \
            all(2 - 1 in arg_slice(f, t2, 1)["args"] or 1 in arg_slice(f, t2, 1)["args"] for _, t2 in wm)
        fin = [(b2, t2) for b2, t2 in f.calls() if (callee_of(t2) or {}).get("name") == "finalize" and not f.is_cleanup(b2)]
        same_hasher = bool(fin) and bool(wm) and bool(
            f._mutref_origins(op_local(wm[0][1]["a"][0]), f._defs or (f.defs(0) and f._defs), set()) &
            (f.slice_of_operand(fin[0][1]["a"][0], at=(fin[0][0], f.INF))["locals"]))
        ctx.ob("R1", "%s:serialised-when-not-canonical" % short, ok_ser and same_hasher,
               "on the other edge the digest is finalize() of a ByteWriter that absorbed write_many(elements) (canonical little-endian serialisation)"
               if ok_ser and same_hasher else "the non-canonical edge does not hash the serialised elements", f, t["sp"]["at"])
        # both edges return
        rs = ret_slice(f)
        ctx.ob("R1", "%s:both-results-returned" % short, {b2 for b2, _ in raw} <= rs["calls"] | set() and fin[0][0] in rs["calls"] if fin and raw else False,
               "the returned digest derives from the hashed bytes on both edges", f)


def r2_flags(ctx):
    from . import c11
    p = ctx.p
    for ty in c11.stark_fields(p):
        fc = c11.trait_consts(p, FE, ty)
        canonical = bool(c11.cval(fc["IS_CANONICAL"]))
        as_int = [f for f in p.impl_methods(FE, "as_int") if f.raw.get("self_ty") == ty] or \
                 [f for f in p.impl_methods(c11.STARK, "as_int") if f.raw.get("self_ty") == ty]
        ident = bool(as_int) and not [t for _, t in as_int[0].calls()]
        ctx.ob("R2", "%s:IS_CANONICAL-matches-representation" % ty.split("::")[-2], canonical == ident,
               "IS_CANONICAL = %s and as_int() is %sthe identity on the backing word" % (canonical, "" if ident else "not "), ty, fc["IS_CANONICAL"]["at"])
    for ext in ("winter_math::field::extensions::quadratic::QuadExtension<B>", "winter_math::field::extensions::cubic::CubeExtension<B>"):
        fc = c11.trait_consts(p, FE, ext)
        mir = fc["IS_CANONICAL"].get("mir") or {}
        ok = any(s["k"] == "assign" and s["p"] == [0] and s["rv"][0] == "use" and (op_const(s["rv"][1]) or {}).get("uneval_def") == FE + "::IS_CANONICAL"
                 for b in mir.get("blocks", []) for s in b["s"])
        ctx.ob("R2", "%s:IS_CANONICAL-inherited" % ext.split("::")[-1], ok, "IS_CANONICAL = B::IS_CANONICAL", ext, fc["IS_CANONICAL"]["at"])


def r3_layout(ctx):
    p = ctx.p
    an = intervals.Analysis(p)
    for ty, dlen in BYTE_HASHERS.items():
        short = ty.split("::")[-1].split("<")[0]
        f = impl_fn(p, HASHER, ty, "merge_with_int")
        reps = [s for b in f.blocks for s in b["s"] if s["k"] == "assign" and s["rv"][0] == "repeat"]
        buf_ok = any(s["rv"][2] == str(dlen + 8) for s in reps)
        le = [(bi, t) for bi, t in f.calls() if (callee_of(t) or {}).get("name") == "to_le_bytes"]
        le_ok = bool(le) and 2 in arg_slice(f, le[0][1], 0)["args"]
        # the two copy_from_slice targets: ..dlen <- seed, dlen.. <- value bytes
        cps = [(bi, t) for bi, t in f.calls() if (callee_of(t) or {}).get("name") == "copy_from_slice" and not f.is_cleanup(bi)]
        seed_ok = val_ok = False
        for bi, t in cps:
            dst = f.slice_of_operand(t["a"][0], at=(bi, f.INF))
            src = f.slice_of_operand(t["a"][1], at=(bi, f.INF))
            rng = None
            for b2 in dst["calls"]:
                t2 = f.term(b2)
                if (callee_of(t2) or {}).get("name") == "index_mut":
                    rng = an._range_of(f, t2["a"][1], (b2, f.INF - 1), None, 0, frozenset())
            # `let (head, tail) = data.split_at_mut(dlen)`: head = ..dlen, tail = dlen..
            for b2 in dst["calls"]:
                t2 = f.term(b2)
                if (callee_of(t2) or {}).get("name") == "split_at_mut" and len(t2["a"]) == 2 and t2.get("dest"):
                    mid = an.eval_op(f, t2["a"][1], (b2, f.INF - 1))
                    halves = {ir.place_fields(pl)[0] if False else (pl[1].split(":")[0] if len(pl) > 1 and isinstance(pl[1], str) else None)
                              for pl in dst["places"] if pl[0] == t2["dest"][0]}
                    if mid == (dlen, dlen) and ".0" in halves and ".1" not in halves:
                        rng = ("to", None, (dlen, dlen))
                    if mid == (dlen, dlen) and ".1" in halves and ".0" not in halves:
                        rng = ("from", (dlen, dlen), None)
            if rng and rng[0] == "to" and rng[2] == (dlen, dlen) and 1 in src["args"]:
                seed_ok = True
            if rng and rng[0] == "from" and rng[1] == (dlen, dlen) and le and le[0][0] in src["calls"]:
                val_ok = True
        ctx.ob("R3", "%s:merge_with_int-layout" % short, buf_ok and le_ok and seed_ok and val_ok,
               "merge_with_int hashes a %d-byte buffer = digest bytes || value.to_le_bytes()" % (dlen + 8)
               if buf_ok and le_ok and seed_ok and val_ok else
               "merge_with_int layout changed (buffer %s, le %s, seed slot %s, value slot %s)" % (buf_ok, le_ok, seed_ok, val_ok), f)
        for nm in ("merge", "merge_many"):
            g = impl_fn(p, HASHER, ty, nm)
            rs = ret_slice(g)
            ok = "digests_as_bytes" in names_in(g, rs) and 1 in rs["args"]
            ctx.ob("R3", "%s:%s-hashes-concatenated-digests" % (short, nm), ok,
                   "%s = primitive(digests_as_bytes(values))" % nm if ok else "%s no longer hashes the concatenated digest bytes" % nm, g)
        g = impl_fn(p, HASHER, ty, "hash")
        rs = ret_slice(g)
        ctx.ob("R3", "%s:hash-input-bytes" % short, 1 in rs["args"], "hash = primitive(input bytes)", g)
        if dlen == 24:
            fns = [impl_fn(p, HASHER, ty, n) for n in ("hash", "merge", "merge_many", "merge_with_int")] + [impl_fn(p, EH, ty, "hash_elements")]
            for g in fns:
                idx = [(bi, t) for bi, t in g.calls() if (callee_of(t) or {}).get("name") == "index" and not g.is_cleanup(bi)]
                n24 = 0
                for bi, t in idx:
                    r = an._range_of(g, t["a"][1], (bi, g.INF - 1), None, 0, frozenset())
                    if r and r[0] == "to" and r[2] == (24, 24):
                        n24 += 1
                aggs = [s for b in g.blocks if not b.get("cleanup") for s in b["s"] if s["k"] == "assign" and s["rv"][0] == "agg"
                        and s["rv"][1].get("adt") == "winter_crypto::hash::ByteDigest"]
                ok = n24 >= len(aggs) >= 1
                ctx.ob("R3", "Blake3_192:%s-truncates-to-24" % g.name, ok,
                       "every ByteDigest<24> built in %s comes from a [..24] prefix of the 32-byte output (%d of %d)" % (g.name, n24, len(aggs))
                       if ok else "%s builds a 24-byte digest without the [..24] truncation" % g.name, g)


def run(ctx):
    ctx.rule("R1", "hash_elements of every byte-digest ElementHasher uses raw element memory only on the IS_CANONICAL edge and hashes the serialised elements on the other", 9)
    ctx.rule("R2", "IS_CANONICAL constants match the representation (as_int identity) and are inherited by the extensions", 5)
    ctx.rule("R3", "merge_with_int = primitive(digest || value.to_le_bytes()) on a buffer of digest_len + 8; merge/merge_many hash the concatenated digests; Blake3_192 truncates to 24 bytes in all entry points", 17)
    ctx.guard("R1", r1_canonical_gate)
    ctx.guard("R2", r2_flags)
    ctx.guard("R3", r3_layout)
    ctx.assume("equality with the underlying primitive on all inputs needs running the hash and is not decided")
