"""C03 — data revealed after the query positions are fixed must match earlier commitments.

Rule template: a datum revealed after the challenges reaches the verifier only through a function
whose accepting exits lie behind the Ok edge of a commitment check whose inputs derive from that
very datum and from a commitment absorbed into the coin before the positions were drawn.
"""
from .. import ir
from ..ir import AnchorLost, callee_of, is_call_to, op_place, op_local
from ..patterns import (VERIFY_MANY, HASH_ELEMENTS, RESEED, DRAW, DRAW_INTEGERS, PARTIAL_EQ,
                        calls_to, arg_slice, slice_const_ints, slice_field_bases, closure_calls,
                        check_result_guard, check_bool_guard, option_switches_on_field,
                        ok_payload_slice, call_before)

VCH = "winter_verifier::channel::VerifierChannel::<E, H, V>::"
HASH_ROW = "winter_verifier::channel::hash_row"
FRI_CH = "winter_fri::verifier::channel::VerifierChannel"
FRIV = "winter_fri::verifier::FriVerifier::<E, C, H, R, V>::"
PERFORM = "winter_verifier::perform_verification"


def _verify_many_sites(f):
    sites = []
    for bi, t in calls_to(f, VERIFY_MANY, 1, "verify_many"):
        sites.append({
            "bb": bi, "t": t,
            "commit": arg_slice(f, t, 0), "pos": arg_slice(f, t, 1),
            "items": arg_slice(f, t, 2), "proof": arg_slice(f, t, 3),
        })
    return sites


def _items_hashed_by(ctx, f, site, hashers):
    """closure(s) in the items slice must call one of `hashers`; returns list of (closure f, call term)."""
    return closure_calls(ctx.p, site["items"]["closures"], hashers)


def r1_trace_states(ctx):
    f = ctx.p.fn(VCH + "read_queried_trace_states")
    sites = _verify_many_sites(f)
    ok_sl = ok_payload_slice(f)
    ret_bases = slice_field_bases(ok_sl)
    seg = {0: ("main", "main_states"), 1: ("aux", "aux_states")}
    found = {}
    for s in sites:
        fields = slice_field_bases(s["commit"])
        ints = slice_const_ints(s["commit"])
        if "trace_commitments" not in fields:
            continue
        for idx in (0, 1):
            if ints == {idx}:
                found.setdefault(idx, []).append(s)
    for idx, (nm, table_field) in seg.items():
        ss = found.get(idx, [])
        if not ss:
            ctx.ob("R1", "%s-segment-commitment-check" % nm, False,
                   "no verify_many call whose commitment argument is trace_commitments[%d]" % idx, f)
            continue
        s = ss[0]
        at = s["t"]["sp"]["at"]
        # (a) items derive from the very table that is returned, through hash_row
        ib = slice_field_bases(s["items"])
        hashed = _items_hashed_by(ctx, f, s, (HASH_ROW,))
        same_tbl = table_field in ib and table_field in ret_bases and (_alias_roots(f, ib[table_field]) & _alias_roots(f, ret_bases[table_field]))
        ctx.ob("R1", "%s-items-from-returned-table" % nm, bool(same_tbl and hashed),
               "items argument = collect(map(%s.rows(), |row| hash_row(..))) over the same `%s` that is moved into the Ok payload"
               % (table_field, table_field) if same_tbl and hashed else
               "items passed to verify_many do not derive (via hash_row) from the `%s` table that is returned" % table_field,
               f, at)
        # (b) opening proof = query_proofs[idx], positions = the positions parameter
        pb = slice_field_bases(s["proof"])
        pr_ok = "query_proofs" in pb and slice_const_ints(s["proof"]) == {idx}
        ctx.ob("R1", "%s-proof-index" % nm, pr_ok,
               "opening proof argument is query_proofs[%d]" % idx if pr_ok else
               "opening proof argument is not query_proofs[%d]" % idx, f, at)
        pos_ok = 2 in s["pos"]["args"]
        ctx.ob("R1", "%s-positions-param" % nm, pos_ok,
               "positions argument is the function's `positions` parameter" if pos_ok else
               "positions argument does not derive from the `positions` parameter", f, at)
        # (c) guard
        if idx == 0:
            ok, how = check_result_guard(f, s["bb"])
        else:
            sw = option_switches_on_field(f, "aux_states")
            none_edges = [e for x in sw for e in x["none_edges"]]
            if not sw:
                ok, how = False, "no branch on aux_states presence found"
            else:
                ok, how = check_result_guard(f, s["bb"], extra_cut_edges=none_edges)
                if ok:
                    how += " (or the aux_states == None edge, where no aux table is returned)"
        ctx.ob("R1", "%s-guard" % nm, ok, how, f, at)


def r2_constraint_evals(ctx):
    f = ctx.p.fn(VCH + "read_constraint_evaluations")
    sites = _verify_many_sites(f)
    ok_sl = ok_payload_slice(f)
    ret_bases = slice_field_bases(ok_sl)
    s = None
    for x in sites:
        if "constraint_commitment" in slice_field_bases(x["commit"]):
            s = x
    if s is None:
        ctx.ob("R2", "constraint-commitment-check", False,
               "no verify_many call whose commitment argument is self.constraint_commitment", f)
        return
    at = s["t"]["sp"]["at"]
    ib = slice_field_bases(s["items"])
    hashed = _items_hashed_by(ctx, f, s, (HASH_ROW,))
    same = "evaluations" in ib and "evaluations" in ret_bases and (ib["evaluations"] & ret_bases["evaluations"])
    ctx.ob("R2", "items-from-returned-table", bool(same and hashed),
           "items = hash_row over rows of the same `evaluations` table that is returned" if same and hashed else
           "items do not derive via hash_row from the returned `evaluations` table", f, at)
    ctx.ob("R2", "proof-field", "query_proofs" in slice_field_bases(s["proof"]),
           "opening proof argument is queries.query_proofs", f, at)
    ctx.ob("R2", "positions-param", 2 in s["pos"]["args"], "positions argument is the `positions` parameter", f, at)
    ok, how = check_result_guard(f, s["bb"])
    ctx.ob("R2", "guard", ok, how, f, at)


def _check_read_layer_queries(ctx, f, rule):
    sites = _verify_many_sites(f)
    s = sites[0]
    at = s["t"]["sp"]["at"]
    # params: 1 self, 2 positions, 3 commitment
    ctx.ob(rule, "commitment-param", 3 in s["commit"]["args"] and 2 not in s["commit"]["args"],
           "commitment argument is the `commitment` parameter", f, at)
    ctx.ob(rule, "positions-param", 2 in s["pos"]["args"], "positions argument is the `positions` parameter", f, at)
    hashed = _items_hashed_by(ctx, f, s, (HASH_ELEMENTS,))
    ok_sl = ok_payload_slice(f)
    take_q = {bi for bi, t in f.calls_named("take_next_fri_layer_queries")}
    take_p = {bi for bi, t in f.calls_named("take_next_fri_layer_proof")}
    same = bool(take_q) and take_q <= s["items"]["calls"] and take_q <= ok_sl["calls"]
    ctx.ob(rule, "items-from-returned-values", bool(same and hashed),
           "hashed_values = map(hash_elements) over the same leaf_values (from take_next_fri_layer_queries) that are returned"
           if same and hashed else "hashed items do not derive from the returned layer values", f, at)
    ctx.ob(rule, "proof-from-channel", bool(take_p) and take_p <= s["proof"]["calls"],
           "opening proof argument is the value of take_next_fri_layer_proof()", f, at)
    ok, how = check_result_guard(f, s["bb"])
    ctx.ob(rule, "guard", ok, how, f, at)


def r3_fri_layers(ctx):
    f = ctx.p.fn(FRI_CH + "::read_layer_queries")
    _check_read_layer_queries(ctx, f, "R3")
    # call site in verify_generic
    g = ctx.p.fn(FRIV + "verify_generic")
    cs = calls_to(g, FRI_CH + "::read_layer_queries", 1, "read_layer_queries")
    for bi, t in cs:
        at = t["sp"]["at"]
        csl = arg_slice(g, t, 2)
        fb = slice_field_bases(csl)
        loops = for_loops(g)
        in_loop = [L for L in loops if bi in L["body"]]
        depth_ok = False
        if in_loop:
            L = in_loop[0]
            depth_ok = "layer_commitments" in fb and bool(L["item_locals"] & csl["locals"])
        ctx.ob("R3", "callsite-commitment-is-layer_commitments[depth]", depth_ok,
               "commitment argument = self.layer_commitments[depth] with depth the loop counter" if depth_ok else
               "commitment passed to read_layer_queries is not self.layer_commitments[<loop index>]", g, at)
        if in_loop:
            ok, how = loop_result_guard(g, in_loop[0], bi)
        else:
            ok, how = check_result_guard(g, bi)
        ctx.ob("R3", "callsite-guard", ok, how, g, at)
    # layer_commitments stored by FriVerifier::new come from the channel and are all absorbed
    n = ctx.p.fn(FRIV + "new")
    agg = [s for b in n.blocks for s in b["s"] if s["k"] == "assign" and s["rv"][0] == "agg"
           and s["rv"][1].get("adt") == "winter_fri::verifier::FriVerifier"]
    if not agg:
        raise AnchorLost("FriVerifier::new: struct literal not found")
    fields = agg[0]["rv"][1]["fields"]
    op = agg[0]["rv"][2][fields.index("layer_commitments")]
    sl = n.slice_of_operand(op)
    rd = {bi for bi, t in n.calls_named("read_fri_layer_commitments")}
    ctx.ob("R3", "stored-commitments-from-channel", bool(rd) and rd <= sl["calls"],
           "FriVerifier.layer_commitments is the value of channel.read_fri_layer_commitments()", n, agg[0]["sp"]["at"])
    loops = for_loops(n)
    rs = calls_to(n, RESEED, 1, "reseed")
    dr = calls_to(n, DRAW, 1, "draw")
    okr = False
    how = "reseed(commitment) not found inside the loop over layer_commitments"
    for L in loops:
        src = n.backward_slice([L["iter_local"]])
        if not (rd and rd <= src["calls"]):
            continue
        for rbi, rt in rs:
            if rbi in L["body"] and (L["item_locals"] & arg_slice(n, rt, 1)["locals"]):
                for dbi, dt in dr:
                    if dbi in L["body"] and call_before(n, rbi, dbi) and every_iteration(n, L, rbi):
                        okr = True
                        how = "for every layer commitment: reseed(commitment) at %s precedes draw() at %s in each iteration" % (
                            ir.line_of(rt["sp"]["at"]), ir.line_of(dt["sp"]["at"]))
    ctx.ob("R3", "every-commitment-absorbed-before-alpha", okr, how, n)


def r4_remainder(ctx):
    """the remainder must be compared (through a hash) with a commitment from layer_commitments."""
    g = ctx.p.fn(FRIV + "verify_generic")
    rr = calls_to(g, FRI_CH + "::read_remainder", 1, "read_remainder")
    bi, t = rr[0]
    rem_locals = g.forward_locals([t["dest"][0]], through_calls=ir.CARRIERS)
    # candidate 1: a comparison in verify_generic between hash(remainder) and layer_commitments
    ok, how = _remainder_commit_check(ctx, g, rem_locals, start_after=bi)
    if not ok:
        # candidate 2: read_remainder itself (trait default + overrides) performs the check on a
        # commitment parameter that the call site feeds from layer_commitments
        d = ctx.p.fn(FRI_CH + "::read_remainder")
        take = {b for b, _ in d.calls_named("take_fri_remainder")}
        rl = d.forward_locals([d.term(b)["dest"][0] for b in take]) if take else set()
        ok2, how2 = _remainder_commit_check(ctx, d, rl, start_after=None, commitment_from_param=True)
        if ok2:
            fed = any("layer_commitments" in slice_field_bases(arg_slice(g, t, i)) for i in range(1, len(t["a"])))
            ok, how = fed, how2 + ("; call site passes a value from self.layer_commitments" if fed else
                                   "; but the call site does not pass a commitment from self.layer_commitments")
    ctx.ob("R4", "remainder-commitment-check", ok, how, g, t["sp"]["at"])


def _remainder_commit_check(ctx, f, rem_locals, start_after=None, commitment_from_param=False):
    """find `hash_elements(remainder) ==/!= commitment` guarding the accepting exits of f."""
    for hbi, ht in f.calls_to(HASH_ELEMENTS):
        hs = arg_slice(f, ht, 0)
        if not (hs["locals"] & rem_locals):
            continue
        digest_locals = f.forward_locals([ht["dest"][0]])
        for cbi, ct in f.calls():
            c = callee_of(ct)
            if not c or c.get("name") not in ("eq", "ne"):
                continue
            sls = [arg_slice(f, ct, i) for i in range(len(ct["a"]))]
            has_digest = any(s["locals"] & digest_locals for s in sls)
            if commitment_from_param:
                has_commit = any((s["args"] - {1}) for s in sls)
            else:
                has_commit = any("layer_commitments" in slice_field_bases(s) for s in sls)
            if has_digest and has_commit:
                ok, how = check_bool_guard(f, cbi, reject_when=(c["name"] == "ne"))
                if ok:
                    return True, "hash_elements(remainder) compared with the committed digest at %s; %s" % (
                        ir.line_of(ct["sp"]["at"]), how)
                return False, "comparison at %s does not guard the accepting exit: %s" % (ir.line_of(ct["sp"]["at"]), how)
    return False, ("the remainder polynomial returned by read_remainder() is never hashed and compared with a "
                   "commitment from layer_commitments: the last FRI commitment is absorbed into the coin but "
                   "nothing ties the revealed remainder to it")


def r5_ordering(ctx):
    f = ctx.p.fn(PERFORM)
    new = calls_to(f, FRIV + "new", 1, "FriVerifier::new")[0]
    di = calls_to(f, DRAW_INTEGERS, 1, "draw_integers")[0]
    ctx.ob("R5", "fri-commit-phase-before-positions", call_before(f, new[0], di[0]),
           "FriVerifier::new (absorbs every FRI layer commitment incl. the remainder's) dominates draw_integers", f, di[1]["sp"]["at"])
    pos_locals = f.forward_locals([di[1]["dest"][0]], through_calls=ir.CARRIERS | {
        "core::ops::deref::Deref::deref", "core::ops::deref::DerefMut::deref_mut"})
    readers = {
        "read_queried_trace_states": VCH + "read_queried_trace_states",
        "read_constraint_evaluations": VCH + "read_constraint_evaluations",
        "fri_verifier.verify": FRIV + "verify",
        "DeepComposer::new": "winter_verifier::composer::DeepComposer::<E>::new",
    }
    for nm, key in readers.items():
        cs = calls_to(f, key, 1, nm)
        bi, t = cs[0]
        dom = call_before(f, di[0], bi)
        uses_pos = any(arg_slice(f, t, i)["locals"] & pos_locals for i in range(len(t["a"])))
        ctx.ob("R5", "positions-fixed-before-%s" % nm, dom and uses_pos,
               "draw_integers dominates %s and its positions argument derives from the drawn query_positions" % nm
               if dom and uses_pos else "%s is not dominated by draw_integers or does not receive the drawn positions" % nm,
               f, t["sp"]["at"])
    # results of the two readers are `?`-propagated
    for nm in ("read_queried_trace_states", "read_constraint_evaluations"):
        bi, t = calls_to(f, readers[nm])[0]
        ok, how = check_result_guard(f, bi)
        ctx.ob("R5", "%s-result-propagated" % nm, ok, how, f, t["sp"]["at"])
    # commitments were absorbed before positions
    rs = calls_to(f, RESEED, 3, "reseed")
    want = {"read_trace_commitments": False, "read_constraint_commitment": False}
    for bi, t in rs:
        sl = arg_slice(f, t, 1)
        names = {(callee_of(f.term(b)) or {}).get("name") for b in sl["calls"]}
        for w in want:
            if w in names and call_before(f, bi, di[0]):
                want[w] = True
    for w, v in want.items():
        ctx.ob("R5", "reseed(%s)-before-positions" % w, v,
               "coin.reseed(channel.%s()) dominates draw_integers" % w if v else
               "no reseed with %s() dominating draw_integers" % w, f)


def r6_impls(ctx):
    impls = ctx.p.impls_of_trait(FRI_CH)
    if len(impls) < 2:
        raise AnchorLost("expected >=2 impls of fri::VerifierChannel, found %d" % len(impls))
    for i in impls:
        names = {it["name"]: it["key"] for it in i["items"]}
        for m in ("read_layer_queries", "read_remainder"):
            if m in names and names[m] in ctx.p.funcs:
                f = ctx.p.funcs[names[m]]
                if m == "read_layer_queries":
                    ctx.guard("R6", lambda c: _check_read_layer_queries(c, f, "R6"))
                else:
                    take = {b for b, _ in f.calls_named("take_fri_remainder")}
                    rl = f.forward_locals([f.term(b)["dest"][0] for b in take]) if take else set()
                    ok, how = _remainder_commit_check(ctx, f, rl, commitment_from_param=True)
                    ctx.ob("R6", "override-read_remainder-checks", ok, how, f)
            else:
                ctx.ob("R6", "%s-not-overridden" % m, True,
                       "impl for %s uses the trait's default %s (checked under R3/R4)" % (i["self_ty"], m),
                       i["self_ty"], i["at"], nontrivial=False)


# -- loops -----------------------------------------------------------------------------------

ITER_NEXT = "core::iter::traits::iterator::Iterator::next"


def for_loops(f):
    """for-loops: header = block calling Iterator::next (ForLoop desugaring); returns dicts with
    header, body (set of blocks from the Some arm that can reach the header again), exit edges,
    item_local (the pattern variable) and iter_local."""
    out = []
    for bi, t in f.calls_to(ITER_NEXT):
        if "desugar:ForLoop" not in t["sp"].get("mac", []):
            continue
        checks = f.result_checks(bi)
        if not checks:
            continue
        c = checks[0]
        some = [tgt for (_, tgt) in c["pass_edges"]]
        none = [tgt for (_, tgt) in c["fail_edges"] if f.blocks[tgt]["t"]["k"] != "unreachable"]
        body = set()
        for s in some:
            for b in f.reach([s]):
                if f.can_reach(b, [bi]):
                    body.add(b)
        # the natural loop: what can come back to the header without leaving through the None arm
        # (`body` of an inner loop also contains the enclosing loop, which leads back here as well)
        own = set()
        for s in some:
            for b in f.reach([s], cut_blocks=none):
                if b not in none and (b == bi or f.can_reach(b, [bi], cut_blocks=none)):
                    own.add(b)
        items = set()
        res_local = t["dest"][0]
        for s in some:
            for st in f.stmts(s):
                if st["k"] == "assign" and st["rv"][0] in ("use", "ref"):
                    pl = op_place(st["rv"][1]) if st["rv"][0] == "use" else st["rv"][2]
                    if pl and pl[0] == res_local and any(isinstance(e, str) and e.startswith("@1") for e in pl[1:]):
                        items.add(st["p"][0])
        item = min(items) if items else None
        # iterator local: `_x = &mut iter`
        itl = None
        sl = f.slice_of_operand(t["a"][0])
        for l in sl["locals"]:
            if f.local_name(l) == "iter":
                itl = l
        out.append({"header": bi, "switch": c["switch_bb"], "some": some, "none": none, "body": body, "own_body": own,
                    "item_local": item, "item_locals": items, "iter_local": itl if itl is not None else op_local(t["a"][0])})
    return out


def every_iteration(f, L, bb):
    """bb lies on every path from the loop body's start back to the header."""
    return all(not f.can_reach(s, [L["header"]], cut_blocks=[bb]) or s == bb for s in L["some"])


def loop_result_guard(f, L, call_bb):
    """per-iteration Result check: executed on every iteration, Err edge leaves to a reject exit."""
    checks = f.result_checks(call_bb)
    if not checks:
        return False, "result is never tested"
    pass_edges = [e for c in checks for e in c["pass_edges"]]
    fail_edges = [e for c in checks for e in c["fail_edges"]]
    oks = f.ok_exit_blocks()
    for (sb, tgt) in fail_edges:
        if f.blocks[tgt]["t"]["k"] == "unreachable":
            continue
        if f.can_reach(tgt, oks):
            return False, "error edge bb%d->bb%d can reach an accepting exit" % (sb, tgt)
    for s in L["some"]:
        if f.can_reach(s, [L["header"]], cut_edges=pass_edges):
            return False, "an iteration can complete without passing the Ok edge of the check"
    return True, "checked on every iteration of the loop at %s; Err edge returns" % ir.line_of(f.term(L["header"])["sp"]["at"])


def _alias_roots(f, locs):
    """the locals a set of base locals stand for: references / copies / reborrows are followed back
    (a spliced helper reads `(*queries).aux_states` through its own parameter)."""
    out = set()
    todo = list(locs)
    seen = set()
    while todo:
        l = todo.pop()
        if l in seen:
            continue
        seen.add(l)
        ds = f.defs(l)
        moved = False
        if len(ds) == 1 and ds[0]["kind"] == "assign":
            rv = ds[0]["rv"]
            pl = None
            if rv[0] == "use":
                pl = op_place(rv[1])
            elif rv[0] in ("ref", "rawptr"):
                pl = rv[2]
            elif rv[0] == "cast":
                pl = op_place(rv[2])
            if pl and all(e == "*" for e in pl[1:]):
                todo.append(pl[0])
                moved = True
        if not moved:
            out.add(l)
    return out


def loop_bool_guard(f, L, call_bb, is_call=True):
    chk = f.bool_checks_of(call_bb) if is_call else f.bool_checks_of_local(call_bb)
    oks = f.ok_exit_blocks()
    for c in chk:
        t_reach = any(f.can_reach(t, oks) for (_, t) in c["true_edges"])
        f_reach = any(f.can_reach(t, oks) for (_, t) in c["false_edges"])
        if t_reach == f_reach:
            continue
        pass_edges = c["true_edges"] if t_reach else c["false_edges"]
        if all(not f.can_reach(s, [L["header"]], cut_edges=pass_edges) for s in L["some"]):
            return True, "compared on every iteration (branch at %s); the %s edge returns an error" % (
                ir.line_of(c["at"]), "false" if t_reach else "true"), (not t_reach)
    return False, "no per-iteration rejecting branch on this comparison", None


def run(ctx):
    ctx.rule("R1", "read_queried_trace_states: Ok only behind verify_many(trace_commitments[i], positions, hash_row(rows of the returned table), query_proofs[i]) for main and (when present) aux segment", 8)
    ctx.rule("R2", "read_constraint_evaluations: Ok only behind verify_many(constraint_commitment, positions, hash_row(returned table rows), query_proofs)", 4)
    ctx.rule("R3", "FRI read_layer_queries: Ok only behind verify_many(commitment param, positions param, hash_elements(returned values), layer proof); call site passes layer_commitments[depth]; every commitment reseeded before its alpha", 9)
    ctx.rule("R4", "the revealed FRI remainder is hashed and compared with a digest from layer_commitments, failing with an error", 1)
    ctx.rule("R5", "perform_verification: FRI commit phase and all commitments are absorbed before draw_integers; all readers are dominated by draw_integers and receive the drawn positions", 9)
    ctx.rule("R6", "every impl of fri::VerifierChannel keeps the default read_layer_queries/read_remainder or its override satisfies R3/R4", 4)
    ctx.guard("R1", r1_trace_states)
    ctx.guard("R2", r2_constraint_evals)
    ctx.guard("R3", r3_fri_layers)
    ctx.guard("R4", r4_remainder)
    ctx.guard("R5", r5_ordering)
    ctx.guard("R6", r6_impls)
    ctx.assume("VectorCommitment::verify_many, hash_elements and merge_many are binding (cryptographic; C18/C19)")
    ctx.assume("user-supplied VectorCommitment/Hasher/RandomCoin impls behave as their trait contracts state")
