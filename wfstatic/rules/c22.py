"""C22 — Boundary constraints vanish exactly on asserted cells (order-independence clause only).

Decided: the last sentence of the property — "the assignment of composition coefficients to assertions,
and therefore the proof, does not depend on the order in which the AIR lists its assertions" — through
the four links it needs in the code:
R1  prepare_assertions returns its assertions in the order of a sorted container (a BTreeSet drained by
    into_iter, or a vector sorted before it is returned), never in input order;
R2  the order used, `Ord for Assertion`, compares all three of stride, first_step and column, each with
    the same field of the other operand, so that two assertions compare Equal only when they constrain
    the same cells of the same column;
R3  such a pair can never reach the set (where the second would be dropped silently and the coefficient
    count would no longer match): every insertion lies behind a loop over the set's current elements
    that calls overlaps_with(existing, new) and diverges when it answers true; a filter in front of
    that loop may only select on equality of the column;
R4  BoundaryConstraints::new hands group_constraints exactly the prepared vectors, main with the first
    `main.len()` coefficients and aux with the rest, and group_constraints pairs assertions and
    coefficients by position.
Not decided: that each constraint vanishes exactly on the asserted cells and the divisor degrees
(numerical), and the exactness of overlaps_with itself (C21)."""
from .. import ir
from ..ir import AnchorLost, callee_of, op_local, op_const, op_place
from ..patterns import slice_field_bases, arg_slice, cmp_sites

B = "winter_air::air::boundary::"
ASSERTION = "winter_air::air::assertions::Assertion"
IDENTITY = {"stride", "first_step", "column"}


def _names(f, sl):
    return {(callee_of(f.term(b)) or {}).get("name") for b in sl["calls"]}


def r1_sorted_output(ctx):
    p = ctx.p
    f = p.fn(B + "prepare_assertions")
    ret = f.backward_slice([0])
    how, ok = "the returned vector is not drained from a sorted set nor sorted before it is returned: coefficients would follow the AIR's listing order", False
    for bi in ret["calls"]:
        t = f.term(bi)
        c = callee_of(t) or {}
        if c.get("name") == "into_iter" and t["a"] and op_local(t["a"][0]) is not None:
            ty = f.local_ty(op_local(t["a"][0]))
            if "BTreeSet<" in ty and ASSERTION in ty:
                # and nothing re-orders it afterwards by input position: the collect is fed by this iterator only
                ok, how = True, "the result is collected from BTreeSet<Assertion>::into_iter(): ascending order of `Ord for Assertion`"
    if not ok:
        for bi, t in f.calls():
            c = callee_of(t) or {}
            if not f.is_cleanup(bi) and c.get("name") in ("sort", "sort_unstable") and t["a"] and op_local(t["a"][0]) is not None:
                roots = f._mutref_origins(op_local(t["a"][0]), f._defs or (f.defs(0) and f._defs), set())
                if roots & ret["locals"] and f.must_cross(f.return_blocks(), cut_blocks=[bi]):
                    ok, how = True, "the returned vector is sorted (`Ord for Assertion`) on every path before it is returned"
    ctx.ob("R1", "prepare_assertions:sorted-output", ok, how, f)
    ins = [(bi, t) for bi, t in f.calls() if (callee_of(t) or {}).get("name") in ("insert", "push") and not f.is_cleanup(bi)]
    if not ins:
        raise AnchorLost("prepare_assertions: insertion into the result container not found")
    src = all(1 in arg_slice(f, t, 1)["args"] for _, t in ins)
    ctx.ob("R1", "prepare_assertions:elements-are-the-inputs", src, "every inserted element comes from the `assertions` parameter" if src else
           "an inserted element does not come from the `assertions` parameter", f, ins[0][1]["sp"]["at"])


def _ord_impl(p):
    for i in p.impls_of_trait("core::cmp::Ord"):
        if str(i.get("self_ty", "")).startswith(ASSERTION):
            for it in i["items"]:
                if it["name"] == "cmp" and it["key"] in p.funcs:
                    return p.fn(it["key"])
    raise AnchorLost("`impl Ord for Assertion` not found")


def _field_pair(f, a, b, at):
    """(field, True) when a and b read the same field of the two operands (self / other, or closure captures of them)."""
    fa = set(slice_field_bases(f.slice_of_operand(a, at=at))) & (IDENTITY | {"values"})
    fb = set(slice_field_bases(f.slice_of_operand(b, at=at))) & (IDENTITY | {"values"})
    if len(fa) == 1 and fa == fb:
        ra, rb = f.slice_of_operand(a, at=at), f.slice_of_operand(b, at=at)
        roots_a = set(ra["args"]) | {("env", pl[1]) for pl in ra["places"] if pl[0] == 1 and len(pl) > 1 and f.key.split("::")[-1].startswith("{closure")}
        roots_b = set(rb["args"]) | {("env", pl[1]) for pl in rb["places"] if pl[0] == 1 and len(pl) > 1 and f.key.split("::")[-1].startswith("{closure")}
        return next(iter(fa)), roots_a != roots_b or not roots_a
    return None, False


def r2_total_order(ctx):
    p = ctx.p
    f = _ord_impl(p)
    compared, mismatched = set(), []
    for g in [f] + list(p.closures_of(f.key)):
        for bi, t in g.calls():
            c = callee_of(t) or {}
            if g.is_cleanup(bi) or c.get("name") not in ("cmp", "partial_cmp") or len(t["a"]) != 2:
                continue
            fld, two_sides = _field_pair(g, t["a"][0], t["a"][1], (bi, g.INF))
            if fld and two_sides:
                compared.add(fld)
            else:
                mismatched.append(ir.line_of(t["sp"]["at"]))
        for s in cmp_sites(g):
            if g.is_cleanup(s["bb"]) or op_local(s["a"]) is None or op_local(s["b"]) is None:
                continue
            fld, two_sides = _field_pair(g, s["a"], s["b"], (s["bb"], g.INF))
            if fld and two_sides:
                compared.add(fld)
            elif s["op"] in ("Eq", "Ne", "Lt", "Le", "Gt", "Ge"):
                mismatched.append(ir.line_of(s["at"]))
    ok = IDENTITY <= compared
    ctx.ob("R2", "Ord-for-Assertion:compares-stride-first_step-column", ok,
           "cmp compares stride, first_step and column of the two assertions" if ok else
           "cmp does not compare %s: two assertions on different cells would compare Equal and the second would be dropped from the sorted set" % sorted(IDENTITY - compared), f)
    ctx.ob("R2", "Ord-for-Assertion:same-field-both-sides", not mismatched,
           "every comparison in cmp relates one field of self to the same field of other" if not mismatched else
           "a comparison in cmp relates different fields (or one operand to itself) at %s" % ", ".join(mismatched), f)
    # the result must depend on the last-compared field on the path where the others are equal: no constant `Equal` exit
    consts = [e for e in f.exits() if e["kind"] == "use" and op_const(e.get("detail") or ["k", {}]) is not None] if hasattr(f, "exits") else []
    eq_exit = False
    for bi, b in enumerate(f.blocks):
        if b.get("cleanup"):
            continue
        for s in b["s"]:
            if s["k"] == "assign" and s["p"] == [0] and s["rv"][0] == "agg" and s["rv"][1].get("variant") in ("Equal", "Less", "Greater") \
                    and not s["rv"][2]:
                eq_exit = True      # a constant ordering on some path: not antisymmetric (Less / Greater) or not separating (Equal)
            if s["k"] == "assign" and s["p"] == [0] and s["rv"][0] == "use" and op_const(s["rv"][1]) is not None:
                eq_exit = True
    ctx.ob("R2", "Ord-for-Assertion:no-constant-result", not eq_exit and not consts,
           "no path of cmp returns a constant ordering" if not eq_exit and not consts else
           "a path of cmp returns a constant ordering instead of a field comparison", f)


def r3_no_silent_drop(ctx):
    p = ctx.p
    f = p.fn(B + "prepare_assertions")
    from .c03 import for_loops
    loops = for_loops(f)
    ins = [(bi, t) for bi, t in f.calls() if (callee_of(t) or {}).get("name") == "insert" and not f.is_cleanup(bi) and
           "BTreeSet" in (callee_of(t) or {}).get("full", "")]
    if not ins:
        # a sorted vector keeps equal elements: nothing can be dropped
        ctx.ob("R3", "insert-behind-overlap-loop", True, "no set insertion (a sorted vector keeps elements that compare Equal)", f)
        return
    ov = [(bi, t) for bi, t in f.calls() if (callee_of(t) or {}).get("name") == "overlaps_with" and not f.is_cleanup(bi)]
    if not ov:
        done = _search_form(ctx, p, f, ins)
        if done:
            return
    if not ov:
        ctx.ob("R3", "insert-behind-overlap-loop", False,
               "prepare_assertions inserts into the sorted set without an overlaps_with test: an assertion comparing Equal to an earlier one would vanish", f, ins[0][1]["sp"]["at"])
        return
    ibi, it = ins[0]
    set_roots = f._mutref_origins(op_local(it["a"][0]), f._defs or (f.defs(0) and f._defs), set())
    new_roots = arg_slice(f, it, 1)["locals"]
    ok, how = False, "the overlaps_with test does not guard the insertion"
    for obi, ot in ov:
        inner = [L for L in loops if obi in L["own_body"] and ibi not in L["own_body"]]
        if not inner:
            how = "overlaps_with is not called in a loop over the elements accepted so far"
            continue
        L = min(inner, key=lambda x: len(x["own_body"]))
        # the loop runs over the set the insertion goes to
        hdr_calls = [f.term(L["header"])]
        over_set = False
        filt = []
        for nt in hdr_calls:
            isl = f.slice_of_operand(nt["a"][0], at=(L["header"], f.INF))
            for b in isl["calls"]:
                c = callee_of(f.term(b)) or {}
                if c.get("name") in ("iter", "range") and f.term(b)["a"] and op_local(f.term(b)["a"][0]) is not None:
                    src_roots = f.backward_slice([op_local(f.term(b)["a"][0])], at=(b, f.INF))["locals"]
                    if src_roots & set_roots:
                        over_set = True
                if c.get("name") in ("filter", "take_while", "skip_while", "take", "skip", "step_by", "rev"):
                    filt.append((b, f.term(b)))
        # both operands: one element of the loop, the new assertion
        a0, a1 = arg_slice(f, ot, 0), arg_slice(f, ot, 1)
        items = set(L["item_locals"]) | {L["item_local"]}
        pair = (a0["locals"] & items and a1["locals"] & new_roots) or (a1["locals"] & items and a0["locals"] & new_roots)
        # true => diverges: the insertion and the next iteration are unreachable from the true edge
        div = False
        for ch in f.bool_checks_of(obi):
            if ch["true_edges"] and not any(f.can_reach(e[1], [ibi, L["header"]]) for e in ch["true_edges"]) and \
                    any(f.can_reach(e[1], [ibi]) for e in ch["false_edges"]):
                div = True
        reach = f.must_cross([ibi], cut_blocks=[L["header"]])
        filt_ok, fwhy = True, ""
        for fb, ft in filt:
            nm = (callee_of(ft) or {}).get("name")
            if nm != "filter":
                filt_ok, fwhy = False, "the loop skips elements of the set (%s)" % nm
                continue
            cl = arg_slice(f, ft, 1)["closures"]
            for ck in cl:
                cf = p.funcs.get(ck)
                sites = [s for s in cmp_sites(cf)] if cf else []
                if len(sites) != 1 or sites[0]["op"] != "Eq":
                    filt_ok, fwhy = False, "the filter in front of the overlap loop is not a single equality test"
                    continue
                fa = set(slice_field_bases(cf.slice_of_operand(sites[0]["a"], at=(sites[0]["bb"], cf.INF))))
                fb_ = set(slice_field_bases(cf.slice_of_operand(sites[0]["b"], at=(sites[0]["bb"], cf.INF))))
                # one side is the element's column, the other the captured column of the new assertion
                cap = arg_slice(f, ft, 1)
                cap_fields = set(slice_field_bases(cap))
                both = ("column" in fa and "column" in fb_) or ("column" in (fa | fb_) and "column" in cap_fields)
                if not both or {x for x in (fa | fb_) if x} - {"column", "0"}:
                    filt_ok, fwhy = False, "the filter selects on %s, not on equality of the column" % sorted(x for x in (fa | fb_) if x)
        if over_set and pair and div and reach and filt_ok:
            ok, how = True, "every insertion lies behind a loop over the set's elements%s that diverges when overlaps_with(existing, new) holds" % (
                " of the same column" if filt else "")
        else:
            how = "; ".join(x for x in (
                "" if over_set else "the overlap loop does not run over the set that receives the insertion",
                "" if pair else "overlaps_with does not relate an existing element to the new assertion",
                "" if div else "a true answer of overlaps_with does not diverge",
                "" if reach else "the insertion is reachable without entering the overlap loop",
                fwhy) if x)
    ctx.ob("R3", "insert-behind-overlap-loop", ok, how, f, it["sp"]["at"])


def _search_form(ctx, p, f, ins):
    """`if let Some(a) = set.iter().find(|a| a.column == new.column && a.overlaps_with(new)) { panic!(..) }` (also
    `any` / `position`): the search runs over the set that receives the insertion, its predicate is true whenever
    the columns are equal and overlaps_with answers true, and a hit diverges before the insertion."""
    from .c25 import _bool_fn
    ibi, it = ins[0]
    set_roots = f._mutref_origins(op_local(it["a"][0]), f._defs or (f.defs(0) and f._defs), set())
    set_roots |= f.backward_slice([op_local(it["a"][0])], at=(ibi, f.INF))["locals"]
    new_roots = arg_slice(f, it, 1)["locals"]
    for bi, t in f.calls():
        c = callee_of(t) or {}
        if f.is_cleanup(bi) or c.get("name") not in ("find", "any", "position") or c.get("krate") != "core" or len(t["a"]) != 2:
            continue
        recv = arg_slice(f, t, 0)
        names = _names(f, recv)
        if not (recv["locals"] & set_roots) or names & {"take_while", "skip_while", "take", "skip", "step_by", "filter_map"}:
            continue
        # a filter in front of the search may only select on equality of the column
        filt_ok = True
        for fb in recv["calls"]:
            ft = f.term(fb)
            if (callee_of(ft) or {}).get("name") != "filter":
                continue
            for ck in arg_slice(f, ft, 1)["closures"]:
                cf0 = p.funcs.get(ck)
                sites0 = cmp_sites(cf0) if cf0 else []
                if len(sites0) != 1 or sites0[0]["op"] != "Eq":
                    filt_ok = False
                    continue
                fa0 = {x for x in slice_field_bases(cf0.slice_of_operand(sites0[0]["a"], at=(sites0[0]["bb"], cf0.INF))) if x}
                fb0 = {x for x in slice_field_bases(cf0.slice_of_operand(sites0[0]["b"], at=(sites0[0]["bb"], cf0.INF))) if x}
                capf = set(slice_field_bases(arg_slice(f, ft, 1)))
                both = ("column" in fa0 and "column" in fb0) or ("column" in (fa0 | fb0) and "column" in capf)
                if not both or (fa0 | fb0) - {"column", "0"}:
                    filt_ok = False
        if not filt_ok:
            continue
        cl = arg_slice(f, t, 1)
        cfs = [p.funcs[k] for k in cl["closures"] if k in p.funcs]
        pred_ok, col_note = False, ""
        for cf in cfs:
            ovc = [(b2, t2) for b2, t2 in cf.calls() if (callee_of(t2) or {}).get("name") == "overlaps_with" and not cf.is_cleanup(b2)]
            if len(ovc) != 1:
                continue
            b2, t2 = ovc[0]
            a0, a1 = arg_slice(cf, t2, 0), arg_slice(cf, t2, 1)
            elem_and_new = (2 in a0["args"] and any(pl[0] == 1 for pl in a1["places"])) or (2 in a1["args"] and any(pl[0] == 1 for pl in a0["places"]))
            sites = [{"bb": b2, "local": t2["dest"][0]}]
            cols = []
            for s in cmp_sites(cf):
                fa = {x for x in slice_field_bases(cf.slice_of_operand(s["a"], at=(s["bb"], cf.INF))) if x}
                fb = {x for x in slice_field_bases(cf.slice_of_operand(s["b"], at=(s["bb"], cf.INF))) if x}
                if s["op"] == "Eq" and "column" in (fa | fb) and not ((fa | fb) - {"column", "0"}):
                    cols.append(s)
                else:
                    cols = None
                    break
            if cols is None or len(cols) > 1 or not elem_and_new:
                continue
            table = _bool_fn(cf, sites + list(cols))
            want = tuple([True] * (1 + len(cols)))
            if table.get(want) is True:
                pred_ok, col_note = True, " on the same column" if cols else ""
        if not pred_ok:
            continue
        # a hit diverges before the insertion
        if c["name"] in ("find", "position"):
            hit_edges = [e for ch in f.result_checks(bi) for e in ch["pass_edges"]]
            miss_edges = [e for ch in f.result_checks(bi) for e in ch["fail_edges"]]
        else:
            hit_edges = [e for ch in f.bool_checks_of(bi) for e in ch["true_edges"]]
            miss_edges = [e for ch in f.bool_checks_of(bi) for e in ch["false_edges"]]
        div = bool(hit_edges) and not any(f.can_reach(e[1], [ibi]) or e[1] == ibi for e in hit_edges) and \
            any(f.can_reach(e[1], [ibi]) or e[1] == ibi for e in miss_edges)
        reach = f.must_cross([ibi], cut_blocks=[bi])
        if div and reach and bool(new_roots):
            ctx.ob("R3", "insert-behind-overlap-loop", True,
                   "every insertion lies behind a search (%s) over the set's elements%s for one that overlaps_with the new assertion; a hit diverges" % (c["name"], col_note),
                   f, it["sp"]["at"])
            return True
    return False


def r4_wiring(ctx):
    p = ctx.p
    new = None
    for k in sorted(p.funcs):
        if k.startswith("winter_air::air::boundary::BoundaryConstraints") and k.endswith("::new"):
            new = p.fn(k)
    if new is None:
        raise AnchorLost("BoundaryConstraints::new not found")
    gc = [(bi, t) for bi, t in new.calls() if (callee_of(t) or {}).get("name") == "group_constraints" and not new.is_cleanup(bi)]
    if len(gc) != 2:
        raise AnchorLost("BoundaryConstraints::new: two group_constraints calls expected, found %d" % len(gc))
    want = {2: "main", 3: "aux"}
    seen = {}
    for bi, t in gc:
        sl = arg_slice(new, t, 0)
        prep = [b for b in sl["calls"] if (callee_of(new.term(b)) or {}).get("name") == "prepare_assertions"]
        params = set(sl["args"]) & {2, 3}
        ok = len(prep) == 1 and len(params) == 1 and params == (set(arg_slice(new, new.term(prep[0]), 0)["args"]) & {2, 3})
        # and the vector reaches group_constraints unmodified: no other call in its slice takes it mutably
        which = want.get(next(iter(params))) if len(params) == 1 else "?"
        seen[which] = (bi, t)
        ctx.ob("R4", "group_constraints-gets-prepared-%s-assertions" % which, ok,
               "group_constraints receives prepare_assertions(%s_assertions, ..)" % which if ok else
               "group_constraints does not receive the prepared %s assertions" % which, new, t["sp"]["at"])
    # coefficients: split at the number of prepared main assertions; main gets the first part, aux the second
    sp = [(bi, t) for bi, t in new.calls() if (callee_of(t) or {}).get("name") == "split_at" and not new.is_cleanup(bi)]
    ok = False
    if len(sp) == 1 and "main" in seen and "aux" in seen:
        bi, t = sp[0]
        at = arg_slice(new, t, 1)
        from_coeffs = 4 in arg_slice(new, t, 0)["args"]
        at_main = "len" in _names(new, at) and any((callee_of(new.term(b)) or {}).get("name") == "prepare_assertions" and
                                                   2 in arg_slice(new, new.term(b), 0)["args"] for b in at["calls"])
        dest = t["dest"][0]
        def half(term):
            sl = arg_slice(new, term, 2)
            for pl in sl["places"]:
                if pl[0] in new.copy_chain(dest) | {dest} and len(pl) > 1 and str(pl[1]).startswith("."):
                    return int(str(pl[1])[1:].split(":")[0])
            for l in sl["locals"]:
                for d in new.defs(l):
                    if d["kind"] == "assign" and d["rv"][0] == "use" and op_place(d["rv"][1]) and op_place(d["rv"][1])[0] in new.copy_chain(dest) | {dest} \
                            and len(op_place(d["rv"][1])) > 1 and str(op_place(d["rv"][1])[1]).startswith("."):
                        return int(str(op_place(d["rv"][1])[1])[1:].split(":")[0])
            return None
        ok = from_coeffs and at_main and half(seen["main"][1]) == 0 and half(seen["aux"][1]) == 1
    ctx.ob("R4", "coefficients-split-at-main-count", ok,
           "composition_coefficients.split_at(main_assertions.len()): first part to the main group, second to the aux group" if ok else
           "the composition coefficients are not split at the number of prepared main assertions with the first part going to main", new)
    g = p.fn(B + "group_constraints")
    zs = [(bi, t) for bi, t in g.calls() if (callee_of(t) or {}).get("name") == "zip" and not g.is_cleanup(bi)]
    ok = False
    for bi, t in zs:
        a, b = arg_slice(g, t, 0), arg_slice(g, t, 1)
        if (1 in a["args"] and 3 in b["args"]) or (3 in a["args"] and 1 in b["args"]):
            names = _names(g, a) | _names(g, b)
            if not names & {"rev", "sort", "sort_by", "sort_unstable", "skip", "step_by"}:
                ok = True
    ctx.ob("R4", "assertions-zipped-with-coefficients-in-order", ok,
           "group_constraints pairs assertions.into_iter() with the coefficients by position" if ok else
           "group_constraints does not pair the prepared assertions with the coefficients by position", g)


def run(ctx):
    ctx.rule("R1", "prepare_assertions returns its inputs in the order of a sorted set (or sorts before returning)", 2)
    ctx.rule("R2", "Ord for Assertion compares stride, first_step and column, field against the same field, no constant result", 3)
    ctx.rule("R3", "every insertion into the sorted set lies behind a diverging overlaps_with loop over the set's elements (column filter only)", 1)
    ctx.rule("R4", "BoundaryConstraints::new: prepared vectors go to group_constraints with the coefficient halves split at the main count; zipped by position", 4)
    for rid, fn in (("R1", r1_sorted_output), ("R2", r2_total_order), ("R3", r3_no_silent_drop), ("R4", r4_wiring)):
        ctx.guard(rid, fn)
    ctx.assume("BTreeSet iterates in ascending order of Ord; overlaps_with answers true for two assertions on the same column with the same first step and stride (C21)")
    ctx.assume("vanishing of the constraints on the asserted cells and divisor degrees are numerical and not decided; the grouping key is C02.R9")
