"""C27 — the streaming ReadAdapter behaves like the in-memory SliceReader (structural clauses).

Decided: the adapter never panics (A5 inventory over its ByteReader methods, R1), the fill helper's
postcondition and its use (R2, R3), raw-memory sinks are reviewed and guarded (R4), end-of-input is
reported only where the underlying stream said so (R5).  Not decided: that the values returned equal
those of SliceReader for every chunking (a refinement between two stateful machines)."""
from .. import ir, panics
from ..ir import AnchorLost, callee_of, op_local, op_const, op_place
from ..patterns import cmp_sites
from . import c05

IMPL = "<winter_utils::serde::byte_reader::ReadAdapter<'_> as winter_utils::serde::byte_reader::ByteReader>::"
RA = "winter_utils::serde::byte_reader::ReadAdapter::<'a>::"
FILL = RA + "buffer_at_least"
EOF_VARIANT = "UnexpectedEOF"
RAW_SINKS = ("copy_nonoverlapping", "copy", "set_len", "unreachable_unchecked", "get_unchecked", "get_unchecked_mut",
             "from_raw_parts", "from_raw_parts_mut")


def entry_points(prog):
    es = sorted(k for k in prog.funcs if k.startswith(IMPL) and "{closure" not in k)
    if len(es) < 6:
        raise AnchorLost("expected the 6 ByteReader methods of ReadAdapter, found %d" % len(es))
    if RA + "new" in prog.funcs:
        es.append(RA + "new")
    return es


def make_stop(prog):
    base = c05.make_stop(prog)

    def stop(k):
        if "ReadAdapter" in k:
            return k not in prog.funcs
        return base(k)
    return stop


def scope(prog):
    """ReadAdapter's own functions (impl methods, inherent helpers, their closures)."""
    return {k: f for k, f in prog.funcs.items() if k.startswith(IMPL) or k.startswith(RA)}


def _same_amount(f, a, b):
    """do operands a and b denote the same value (same constant / const generic, or copies of one local)?"""
    ca, cb = op_const(a), op_const(b)
    if ca is not None or cb is not None:
        if ca is None or cb is None:
            return False
        if ca.get("tyconst") or cb.get("tyconst"):
            return ca.get("tyconst") == cb.get("tyconst")
        return "v" in ca and ca.get("v") == cb.get("v")
    la, lb = op_local(a), op_local(b)
    if la is None or lb is None:
        return False
    return bool(f.copy_chain(la) & f.copy_chain(lb))


# -- R2: postcondition of the fill helper ------------------------------------------------------------

def fill_post(prog):
    """buffer_at_least(count) returns Ok only past `count == 0` or `self.buffer().len() >= count`,
    where count is the parameter itself (never reassigned)."""
    g = prog.funcs.get(FILL)
    if g is None:
        return False, "ReadAdapter::buffer_at_least not found"
    if g.defs(2):
        return False, "buffer_at_least reassigns its `count` parameter (%s): the exit test no longer compares the buffered length with the requested count" % (
            ir.line_of(g.defs(2)[0]["at"]))
    oks = g.ok_exit_blocks()
    edges = []
    for cs in cmp_sites(g):
        for mine, other in ((cs["a"], cs["b"]), (cs["b"], cs["a"])):
            if op_local(mine) is None or 2 not in g.copy_chain(op_local(mine)):
                continue
            swapped = mine is cs["b"]
            oc = op_const(other)
            checks = g.bool_checks_of_local(cs["local"])
            if oc is not None and str(oc.get("v")) == "0" and cs["op"] in ("Eq", "Ne"):
                for c in checks:
                    edges += c["true_edges"] if cs["op"] == "Eq" else c["false_edges"]
            elif op_local(other) is not None:
                sl = g.slice_of_operand(other, at=(cs["bb"], g.INF))
                names = {(callee_of(g.term(b)) or {}).get("name") for b in sl["calls"]}
                if not {"len", "buffer"} <= names:
                    continue
                # relation read as  len REL count
                op = cs["op"] if swapped else {"Ge": "Le", "Le": "Ge", "Gt": "Lt", "Lt": "Gt"}.get(cs["op"], cs["op"])
                for c in checks:
                    if op == "Ge":
                        edges += c["true_edges"]
                    elif op == "Lt":
                        edges += c["false_edges"]
    if not edges:
        return False, "buffer_at_least has no exit test `buffer().len() >= count`"
    if not oks or not g.must_cross(oks, cut_edges=edges):
        return False, "buffer_at_least can return Ok without passing `count == 0 || buffer().len() >= count`"
    return True, "buffer_at_least returns Ok only past `count == 0 || buffer().len() >= count` with count never reassigned"


# -- R3: callers consume exactly what they asked for ---------------------------------------------------

def fill_callers(prog):
    out = []
    for k, f in sorted(scope(prog).items()):
        for bi, t in f.calls_to(FILL):
            if f.is_cleanup(bi):
                continue
            x = t["a"][1]
            pass_edges = [e for c in f.result_checks(bi) for e in c["pass_edges"]]
            if not pass_edges:
                out.append((f, t, False, "the result of buffer_at_least is not checked"))
                continue
            region = f.reach([tg for _, tg in pass_edges])
            amounts = []
            for b in sorted(region):
                blk = f.blocks[b]
                if blk.get("cleanup"):
                    continue
                for s in blk["s"]:
                    if s["k"] == "assign" and s["rv"][0] == "bin" and s["rv"][1].startswith("Add"):
                        for me, other in ((s["rv"][2], s["rv"][3]), (s["rv"][3], s["rv"][2])):
                            pl = op_place(me)
                            sl = f.slice_of_operand(me, at=s["_pos"]) if op_local(me) is not None else None
                            if sl and any("pos" in ir.place_fields(p) for p in sl["places"]) and \
                                    not (op_local(other) is not None and any("pos" in ir.place_fields(p) for p in f.slice_of_operand(other, at=s["_pos"])["places"])):
                                amounts.append((other, s["sp"]["at"], "pos +"))
                                break
                tt = blk["t"]
                c = callee_of(tt) if tt["k"] == "call" else None
                if c and c.get("name") in ("copy_nonoverlapping", "copy") and len(tt["a"]) == 3:
                    amounts.append((tt["a"][2], tt["sp"]["at"], c["name"]))
            bad = [(o, at, what) for o, at, what in amounts if not _same_amount(f, o, x)]
            if not amounts:
                out.append((f, t, False, "nothing is consumed after buffer_at_least"))
            elif bad:
                out.append((f, t, False, "after buffer_at_least(x)? the function consumes an amount that is not x (%s at %s)" % (bad[0][2], ir.line_of(bad[0][1]))))
            else:
                out.append((f, t, True, "the %d amounts consumed after buffer_at_least(x)? are all x" % len(amounts)))
    return out


# -- R5: end of input is reported only where the stream said so ----------------------------------------

def eof_sites(prog):
    out = []
    for k, f in sorted(scope(prog).items()):
        for bi, b in enumerate(f.blocks):
            if b.get("cleanup"):
                continue
            for s in b["s"]:
                if s["k"] == "assign" and s["rv"][0] == "agg" and s["rv"][1].get("variant") == EOF_VARIANT:
                    out.append((f, bi, s))
    return out


def eof_justified(prog, f, bi):
    # (i) closure handed to map_err: translation of the stream's own error kind
    if "{closure" in f.key:
        parent = prog.funcs.get(f.raw.get("parent", ""))
        if parent is not None:
            for pb, t in parent.calls():
                c = callee_of(t)
                if c and c.get("name") == "map_err" and f.key in parent.slice_of_operand(t["a"][1], at=(pb, parent.INF))["closures"]:
                    return True, "translates the stream's own UnexpectedEof (map_err closure)"
    # (i') a named function used only as the error mapper of `map_err` (passed as a function item, or
    # called from a closure handed to map_err)
    if "{closure" not in f.key:
        refs, ok_refs = 0, 0
        for k2, g in scope(prog).items():
            for b2, t2 in g.calls():
                c2 = callee_of(t2)
                as_item = any(op_const(a) and isinstance(op_const(a).get("fn"), dict) and op_const(a)["fn"].get("def") == f.key for a in t2["a"])
                direct = c2 and (c2.get("rdef") or c2["def"]) == f.key
                if as_item:
                    refs += 1
                    if c2 and c2.get("name") == "map_err":
                        ok_refs += 1
                elif direct:
                    refs += 1
                    if "{closure" in k2:
                        parent = prog.funcs.get(g.raw.get("parent", ""))
                        if parent is not None and any((callee_of(tp) or {}).get("name") == "map_err" and
                                                      k2 in parent.slice_of_operand(tp["a"][1], at=(pb, parent.INF))["closures"]
                                                      for pb, tp in parent.calls() if len(tp["a"]) == 2):
                            ok_refs += 1
        if refs and refs == ok_refs:
            return True, "error mapper used only by map_err on the stream's own error (%d uses)" % refs
    # (ii) the empty edge of a fill_buf result
    for cb, t in f.calls():
        c = callee_of(t)
        if c and c.get("name") == "is_empty" and not f.is_cleanup(cb):
            sl = f.slice_of_operand(t["a"][0], at=(cb, f.INF))
            names = {(callee_of(f.term(x)) or {}).get("name") for x in sl["calls"]}
            if "fill_buf" not in names:
                continue
            for chk in f.bool_checks_of(cb):
                if chk["true_edges"] and f.must_cross([bi], cut_edges=chk["true_edges"]):
                    return True, "fill_buf returned an empty buffer"
    # (iii) the adapter already saw end of input
    for sb, b in enumerate(f.blocks):
        t = b["t"]
        if t["k"] != "switch" or b.get("cleanup") or op_local(t["d"]) is None:
            continue
        sl = f.slice_of_operand(t["d"], at=(sb, f.INF))
        if not any("guaranteed_eof" in ir.place_fields(p) for p in sl["places"]):
            continue
        true_edges = [(sb, tg) for tg, lab in f.succ(sb) if lab != "0"]
        if true_edges and f.must_cross([bi], cut_edges=true_edges):
            return True, "guaranteed_eof is set"
    return False, "UnexpectedEOF is returned although the stream has not reported end of input on this path"


# -- R4: raw-memory sinks ------------------------------------------------------------------------------

def raw_sinks(prog):
    out = []
    for k, f in sorted(scope(prog).items()):
        n = {}
        for bi, t in f.calls():
            c = callee_of(t)
            if f.is_cleanup(bi) or not c or c.get("name") not in RAW_SINKS or c["krate"] not in ("core", "alloc", "std"):
                continue
            o = n.get(c["name"], 0)
            n[c["name"]] = o + 1
            out.append((f, bi, t, "%s#%d" % (c["name"], o)))
    return out


def _len_of_src(f, bi, t):
    """the local holding the slice whose as_ptr() is the copy's source."""
    sl = f.slice_of_operand(t["a"][0], at=(bi, f.INF))
    for b in sl["calls"]:
        c = callee_of(f.term(b))
        if c and c.get("name") == "as_ptr":
            return f.term(b)["a"][0]
    return None


def sink_guard(prog, f, bi, t):
    """discharge one raw sink: returns (ok, how)."""
    name = callee_of(t)["name"]
    if name == "set_len":
        a = t["a"][1]
        c = op_const(a)
        if c is not None and str(c.get("v")) == "0":
            return True, "set_len(0)"
        sl = f.slice_of_operand(a, at=(bi, f.INF))
        names = {(callee_of(f.term(b)) or {}).get("name") for b in sl["calls"]}
        if {"len", "buffer"} <= names:
            return True, "set_len(length of the unread part, which is at most the current length)"
        return False, "set_len with a length that is not 0 or the unread part's length"
    if name in ("copy_nonoverlapping", "copy"):
        amt = t["a"][2]
        src = _len_of_src(f, bi, t)
        # (A) the amount is the source slice's own length
        if op_local(amt) is not None:
            sl = f.slice_of_operand(amt, at=(bi, f.INF))
            for b in sl["calls"]:
                c = callee_of(f.term(b))
                if c and c.get("name") == "len" and src is not None and _same_slice(f, f.term(b)["a"][0], src):
                    return True, "amount is the source's own length"
        # (C) behind the Ok edge of buffer_at_least(amount)
        for fb, ft in f.calls_to(FILL):
            edges = [e for c in f.result_checks(fb) for e in c["pass_edges"]]
            if edges and f.must_cross([bi], cut_edges=edges) and _same_amount(f, ft["a"][1], amt):
                ok, how = fill_post(prog)
                return ok, "behind buffer_at_least(amount)?: " + how
        # (B) a dominating comparison `len(src) [+ other] >= amount [+ other]`
        for cs in cmp_sites(f):
            if cs["op"] not in ("Ge", "Lt", "Le", "Gt"):
                continue
            sa = f.slice_of_operand(cs["a"], at=(cs["bb"], f.INF)) if op_local(cs["a"]) is not None else None
            lens_a = _len_roots(f, sa) if sa else set()
            if src is None or not any(_same_slice(f, x, src) for x in lens_a):
                continue
            # a = len(src) (+ n), b = N ; amount = N (- n)
            for chk in f.bool_checks_of_local(cs["local"]):
                edges = chk["true_edges"] if cs["op"] == "Ge" else (chk["false_edges"] if cs["op"] == "Lt" else [])
                if not edges or not f.must_cross([bi], cut_edges=edges):
                    continue
                if _same_amount(f, cs["b"], amt) and _bin_def(f, cs["a"], "Add") is None and _bin_def(f, cs["a"], "Sub") is None \
                        and _bin_def(f, cs["a"], "Mul") is None:
                    return True, "dominated by `source.len() >= amount`"
                # amount = b - n where a = len(src) + n
                sub = _bin_def(f, amt, "Sub")
                add = _bin_def(f, cs["a"], "Add")
                if sub and add and _same_amount(f, sub[0], cs["b"]) and any(_same_amount(f, sub[1], o) for o in add):
                    return True, "dominated by `source.len() + n >= N` with amount = N - n"
        return False, "no guard shows that the source holds the copied amount"
    if name == "unreachable_unchecked":
        return False, "unreachable_unchecked needs a reviewed reason"
    return False, "unreviewed raw-memory sink %s" % name


def _origin(f, l, depth=0):
    """a symbolic origin for a slice-valued local: the accessor chain it was obtained through."""
    if depth > 8:
        return None
    if 1 <= l <= f.argc and not f.defs(l):
        return "arg%d" % l
    ds = f.defs(l)
    if len(ds) != 1:
        return f.local_name(l) or None
    d = ds[0]
    if d["kind"] == "call":
        c = callee_of(d["term"])
        nm = (c or {}).get("name")
        if nm in ("buffer", "deref", "as_ref", "borrow", "reader_buffer") and d["term"]["a"]:
            al = op_local(d["term"]["a"][0])
            inner = _origin(f, al, depth + 1) if al is not None else None
            return "%s(%s)" % (nm, inner)
        return None
    if d["kind"] == "assign":
        rv = d["rv"]
        pl = op_place(rv[1]) if rv[0] == "use" else (rv[2] if rv[0] in ("ref", "rawptr") else None)
        if pl:
            base = _origin(f, pl[0], depth + 1)
            flds = ".".join(x for x in ir.place_fields(pl) if x)
            return base + ("." + flds if flds else "") if base else (f.local_name(pl[0]) or None)
    return f.local_name(l) or None


def _same_slice(f, a, b):
    la, lb = op_local(a), op_local(b)
    if la is None or lb is None:
        return False
    if f.copy_chain(la) & f.copy_chain(lb):
        return True
    oa, ob = _origin(f, la), _origin(f, lb)
    return oa is not None and oa == ob


def _len_roots(f, sl):
    """receivers of the len() calls in a slice."""
    res = []
    for b in sl["calls"]:
        c = callee_of(f.term(b))
        if c and c.get("name") == "len":
            res.append(f.term(b)["a"][0])
    return res


def _bin_def(f, op, prefix, depth=0):
    """operands of the `prefix*` binary operation whose result `op` holds (through copies and `.0`)."""
    l = op_local(op)
    if l is None or depth > 8:
        return None
    ds = f.defs(l)
    if len(ds) != 1 or ds[0]["kind"] != "assign":
        return None
    rv = ds[0]["rv"]
    if rv[0] == "bin" and rv[1].startswith(prefix):
        return [rv[2], rv[3]]
    if rv[0] == "use":
        pl = op_place(rv[1])
        if pl and (len(pl) == 1 or (len(pl) == 2 and isinstance(pl[1], str) and pl[1].startswith(".0"))):
            return _bin_def(f, ["cp", [pl[0]]], prefix, depth + 1)
    return None


def no_ref_conflict(prog):
    """RefCell discipline: a `Ref` of the reader never escapes (only the two private helpers return
    one), and inside a function no further borrow of the reader is reachable while a Ref-typed local
    produced earlier has not been dropped or moved away."""
    helpers = {RA + "reader_buffer", RA + "non_empty_reader_buffer"}
    borrowers = ("reader_buffer", "non_empty_reader_buffer", "borrow", "borrow_mut")
    for k, f in sorted(scope(prog).items()):
        ret = f.local_ty(0) if f.locals else ""
        if "core::cell::Ref" in ret and k not in helpers and "{closure" not in k:
            return False, "%s returns a Ref of the reader (the borrow escapes the method)" % k.split("::")[-1]
        calls = [(bi, t) for bi, t in f.calls() if not f.is_cleanup(bi) and (callee_of(t) or {}).get("name") in borrowers]
        for bi, t in calls:
            if not t.get("dest") or "core::cell::Ref" not in f.local_ty(t["dest"][0]):
                continue
            holders = f.forward_locals([t["dest"][0]], through_calls=None)
            holders = {l for l in holders if "core::cell::Ref" in f.local_ty(l)}
            # blocks where a holder is dropped or moved into a call (map / drop / deref consumers take it by value)
            release = set()
            for b2, blk in enumerate(f.blocks):
                tt = blk["t"]
                if tt["k"] == "drop" and tt.get("p") and tt["p"][0] in holders:
                    release.add(b2)
                if tt["k"] == "call" and b2 != bi and any(a[0] == "mv" and a[1][0] in holders and len(a[1]) == 1 for a in tt["a"]):
                    nm = (callee_of(tt) or {}).get("name")
                    if nm in ("drop", "map", "map_err", "is_ok", "is_err", "branch", "from_residual"):
                        release.add(b2)
            for b2, t2 in calls:
                if b2 == bi or "t" not in t:
                    continue
                if b2 in f.reach([t["t"]], cut_blocks=release) and b2 not in release:
                    # a Ref carried inside a Result/Option that is being returned is not live here
                    return False, "%s: another borrow of the reader (%s) is reachable while a Ref obtained at %s may still be alive" % (
                        k.split("::")[-1], ir.line_of(t2["sp"]["at"]), ir.line_of(t["sp"]["at"]))
    return True, "no Ref of the reader escapes a method, and no second borrow is reachable while one is alive"


panics.FACTS["c27.fill_post"] = fill_post
panics.FACTS["c27.no_ref_conflict"] = no_ref_conflict


def shrink_keeps_invariant(prog):
    """struct invariant pos <= buf.len(): wherever the buffer is shrunk (set_len / clear / truncate),
    every path from there to the function's return stores 0 into `pos`."""
    out = []
    for k, f in sorted(scope(prog).items()):
        for bi, t in f.calls():
            c = callee_of(t)
            if f.is_cleanup(bi) or not c or c.get("name") not in ("set_len", "clear", "truncate") or c["krate"] not in ("core", "alloc", "std"):
                continue
            sl = f.slice_of_operand(t["a"][0], at=(bi, f.INF))
            if not any("buf" in ir.place_fields(pl) for pl in sl["places"]):
                continue
            resets = set()
            for b2, blk in enumerate(f.blocks):
                for s in blk["s"]:
                    if s["k"] == "assign" and ir.place_fields(s["p"]) == ["pos"] and s["rv"][0] == "use":
                        cc = op_const(s["rv"][1])
                        if cc is not None and str(cc.get("v")) == "0":
                            resets.add(b2)
            rets = f.return_blocks()
            ok = "t" in t and not any(r in f.reach([t["t"]], cut_blocks=resets) for r in rets) or bi in resets
            out.append((f, t, ok))
    return out


def run(ctx):
    ctx.rule("R1", "no undischarged panic / abort site reachable from the ByteReader methods of ReadAdapter (A5)", 15)
    ctx.rule("R2", "buffer_at_least(count) returns Ok only past `count == 0 || buffer().len() >= count`, count never reassigned", 1)
    ctx.rule("R3", "after buffer_at_least(x)? a caller consumes exactly x (position advance, slice end, raw copy length)", 2)
    ctx.rule("R4", "every raw-memory sink in ReadAdapter (copy, copy_nonoverlapping, set_len) is bounded by the source's own length, a dominating length comparison, or the fill postcondition", 5)
    ctx.rule("R5", "UnexpectedEOF is produced only on the empty edge of fill_buf, from the stream's own error kind, or when guaranteed_eof is set", 3)

    def r1(c):
        entries = entry_points(c.p)
        c05.run_inventory(c, "R1", entries, "ReadAdapter methods; std's BufReader / RefCell opaque", stop=make_stop(c.p))
    ctx.guard("R1", r1)

    def r2(c):
        ok, how = fill_post(c.p)
        c.ob("R2", "fill-postcondition", ok, how, c.p.fn(FILL, inline=False))
    ctx.guard("R2", r2)

    def r3(c):
        for f, t, ok, how in fill_callers(c.p):
            c.ob("R3", "consumes-what-it-asked-for", ok, "%s: %s" % (f.key.split("::")[-1], how), f, t["sp"]["at"])
    ctx.guard("R3", r3)

    def r4(c):
        for f, bi, t, sid in raw_sinks(c.p):
            ok, how = sink_guard(c.p, f, bi, t)
            c.ob("R4", "raw-sink:" + sid, ok, how, f, t["sp"]["at"])
    ctx.guard("R4", r4)

    def r5(c):
        for f, bi, s in eof_sites(c.p):
            ok, how = eof_justified(c.p, f, bi)
            c.ob("R5", "eof-only-when-stream-ended", ok, how, f, s["sp"]["at"])
    ctx.guard("R5", r5)
    ctx.rule("R6", "pos <= buf.len(): every shrink of the adapter's buffer (set_len / clear / truncate) is followed on every path to the return by pos = 0", 1)

    def r6(c):
        for f, t, ok in shrink_keeps_invariant(c.p):
            c.ob("R6", "shrink-resets-pos", ok,
                 "%s: the buffer is shrunk and pos is reset to 0 on every path to the return" % f.key.split("::")[-1] if ok else
                 "%s shrinks the buffer but can return without resetting pos: pos may exceed buf.len(), the unread part is lost and later reads skip data or report end of input" % f.key.split("::")[-1],
                 f, t["sp"]["at"])
    ctx.guard("R6", r6)
    ctx.assume("std::io::BufReader::fill_buf / consume and RefCell behave as documented")
    ctx.assume("that the values returned equal SliceReader's for every chunking is a refinement between two stateful machines and is not decided")
