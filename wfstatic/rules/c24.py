"""C24 — the public-coin seed binds the proof context (structural clauses on the to_elements chain)."""
from .. import ir, intervals, panics
from ..ir import AnchorLost, callee_of, op_place, op_local, op_const
from ..patterns import calls_to, arg_slice, slice_field_bases

CTX_TE = "<winter_air::proof::context::Context as winter_math::field::traits::ToElements<E>>::to_elements"
TI_TE = "<winter_air::air::trace_info::TraceInfo as winter_math::field::traits::ToElements<E>>::to_elements"
PO_TE = "<winter_air::options::ProofOptions as winter_math::field::traits::ToElements<E>>::to_elements"
CTX_NEW = "winter_air::proof::context::Context::new"
CTX_READ = "<winter_air::proof::context::Context as winter_utils::serde::Deserializable>::read_from"
PADDING = "winter_math::field::traits::StarkField::from_bytes_with_padding"


def ret_slice(f):
    rets = f.return_blocks()
    sl = {"locals": set(), "calls": set(), "places": [], "consts": [], "args": set(), "closures": set(), "aggs": []}
    for rb in rets:
        one = f.backward_slice([0], at=(rb, f.INF))
        for k in ("locals", "calls", "args", "closures"):
            sl[k] |= one[k]
        for k in ("places", "consts", "aggs"):
            sl[k] += one[k]
    return sl


def names_in(f, sl):
    return {(callee_of(f.term(b)) or {}).get("name") for b in sl["calls"]}


def r1_flow(ctx):
    p = ctx.p
    want = {
        TI_TE: ["main_segment_width", "aux_segment_width", "num_aux_segment_rands", "trace_length", "trace_meta"],
        PO_TE: ["field_extension", "fri_folding_factor", "fri_remainder_max_degree", "blowup_factor", "grinding_factor", "num_queries"],
        CTX_TE: ["field_modulus_bytes", "num_constraints"],
    }
    for key, fields in want.items():
        f = p.fn(key)
        sl = ret_slice(f)
        fb = slice_field_bases(sl)
        for fld in fields:
            ok = fld in fb and 1 in fb[fld] | {x for x in sl["locals"] if x == 1}
            ctx.ob("R1", "%s.%s-in-seed-elements" % (key.split(" as ")[0].split("::")[-1], fld), fld in fb,
                   "field `%s` flows into the vector returned by to_elements" % fld if fld in fb else
                   "field `%s` no longer flows into the seed elements" % fld, f)
    f = p.fn(CTX_TE)
    sl = ret_slice(f)
    callee_fulls = {(callee_of(f.term(b)) or {}).get("rfull") or (callee_of(f.term(b)) or {}).get("full") for b in sl["calls"]}
    ti = any(x and "TraceInfo as" in x and x.endswith("to_elements") for x in callee_fulls)
    po = any(x and "ProofOptions as" in x and x.endswith("to_elements") for x in callee_fulls)
    ctx.ob("R1", "Context-includes-trace-info-and-options", ti and po,
           "Context::to_elements appends trace_info.to_elements() and options.to_elements()" if ti and po else
           "Context::to_elements no longer includes the trace info / options elements", f)


def r2_packing(ctx):
    p = ctx.p
    an = intervals.Analysis(p)
    n = 0
    for key in (TI_TE, PO_TE):
        f = p.fn(key)
        for bi, b in enumerate(f.blocks):
            if b.get("cleanup"):
                continue
            for s in b["s"]:
                if s["k"] != "assign" or s["rv"][0] != "bin" or s["rv"][1] != "BitOr":
                    continue
                # one operand is Shl(x, k)
                for sh_op, other in ((s["rv"][2], s["rv"][3]), (s["rv"][3], s["rv"][2])):
                    l = op_local(sh_op)
                    if l is None:
                        continue
                    shl = None
                    for x in f.copy_chain(l):
                        for d in f.defs(x):
                            if d["kind"] == "assign" and d["rv"][0] == "bin" and d["rv"][1] in ("Shl", "ShlUnchecked"):
                                shl = d
                    if not shl:
                        continue
                    k = an.eval_op(f, shl["rv"][3], (shl["bb"], shl["si"]))
                    base = an.eval_op(f, shl["rv"][2], (shl["bb"], shl["si"]))
                    inc = an.eval_op(f, other, s["_pos"])
                    n += 1
                    ok = k is not None and k[0] == k[1] and inc is not None and inc[1] < (1 << k[0]) and \
                        base is not None and base[1] < (1 << (32 - k[0]))
                    ctx.ob("R2", "disjoint-bits#%d" % n, ok,
                           "buf << %d | x with x in %s (< 2^%d) and buf in %s (< 2^%d): no overlap, nothing shifted out of 32 bits"
                           % (k[0], panics._fmt(inc), k[0], panics._fmt(base), 32 - k[0]) if ok else
                           "bit packing may overlap or lose bits: shift %s, incoming %s, accumulated %s" % (k, inc, base), f, s["sp"]["at"])
                    break
    # `bytes.iter().fold(init, |acc, &b| (acc << k) | b as u32)`: the same packing as a fold
    for key in (TI_TE, PO_TE):
        f = p.fn(key)
        for bi, t in f.calls():
            c = callee_of(t)
            if not c or c.get("name") != "fold" or len(t["a"]) != 3 or f.is_cleanup(bi):
                continue
            sl = f.slice_of_operand(t["a"][2], at=(bi, f.INF))
            for ck in sl["closures"]:
                cf = p.funcs.get(ck)
                if not cf:
                    continue
                for b2 in cf.blocks:
                    for st in b2["s"]:
                        if st["k"] != "assign" or st["rv"][0] != "bin" or st["rv"][1] != "BitOr":
                            continue
                        shl = None
                        for o in (st["rv"][2], st["rv"][3]):
                            l = op_local(o)
                            if l is None:
                                continue
                            for x in cf.copy_chain(l):
                                for d in cf.defs(x):
                                    if d["kind"] == "assign" and d["rv"][0] == "bin" and d["rv"][1] in ("Shl", "ShlUnchecked"):
                                        shl = d
                        if not shl:
                            continue
                        k = an.eval_op(cf, shl["rv"][3], (shl["bb"], shl["si"]))
                        init = an.eval_op(f, t["a"][1], (bi, f.INF - 1))
                        # number of folded items: the iterated array's length; item type u8
                        it_sl = f.slice_of_operand(t["a"][0], at=(bi, f.INF))
                        nitems = None
                        import re as _re
                        item_max = 255
                        for l in it_sl["locals"]:
                            m = _re.match(r"^\[u8; (\d+)\]$", f.local_ty(l))
                            if m:
                                nitems = int(m.group(1))
                        if nitems is None:
                            # `[self.a as u32, self.b as u32, ..].into_iter().fold(..)`: the items are the literal's operands
                            for l in it_sl["locals"]:
                                m = _re.match(r"^\[u(?:16|32|64|size); (\d+)\]$", f.local_ty(l))
                                if not m:
                                    continue
                                for d in f.defs(l):
                                    if d["kind"] == "assign" and d["rv"][0] == "agg" and d["rv"][1].get("k") == "array" and len(d["rv"][2]) == int(m.group(1)):
                                        ivs = [an.eval_op(f, o, (d["bb"], d["si"])) for o in d["rv"][2]]
                                        if all(iv is not None and iv[0] >= 0 for iv in ivs):
                                            nitems, item_max = len(ivs), max(iv[1] for iv in ivs)
                        ok = k is not None and k[0] == k[1] and init is not None and nitems is not None
                        acc = init[1] if ok else None
                        if ok:
                            for _ in range(nitems):
                                if acc >= (1 << (32 - k[0])) or item_max >= (1 << k[0]):
                                    ok = False
                                    break
                                acc = (acc << k[0]) | item_max
                        n += (nitems or 1)
                        for step in range(1, (nitems or 1)):
                            ctx.ob("R2", "disjoint-bits#fold-step%d" % step, ok, "step %d of the fold below" % step, cf, st["sp"]["at"], nontrivial=False)
                        ctx.ob("R2", "disjoint-bits#fold", ok,
                               "fold(init in %s, |acc, b| acc << %d | b) over %d bytes: every step keeps acc < 2^%d before the shift and b < 2^%d"
                               % (panics._fmt(init), k[0], nitems, 32 - k[0], k[0]) if ok else
                               "bit packing by fold may overlap or lose bits (shift %s, init %s, items %s)" % (k, init, nitems), cf, st["sp"]["at"])
    # the branch that changes the layout is itself packed (num_aux_segments is in buf)
    f = p.fn(TI_TE)
    sws = [(bi, b["t"]) for bi, b in enumerate(f.blocks) if b["t"]["k"] == "switch" and not b.get("cleanup")]
    layout = False
    for bi, t in sws:
        sl = f.slice_of_operand(t["d"], at=(bi, f.INF))
        if "num_aux_segments" in names_in(f, sl):
            # is num_aux_segments() also ORed into buf before?
            r = ret_slice(f)
            cnt = sum(1 for b2 in r["calls"] if (callee_of(f.term(b2)) or {}).get("name") == "num_aux_segments")
            layout = cnt >= 1
    ctx.ob("R2", "layout-discriminator-packed", layout,
           "the aux-segment branch is decided by num_aux_segments(), which is itself packed into the element" if layout else
           "the layout of the first element depends on a value that is not packed into it", f)


def r3_narrowing(ctx):
    p = ctx.p
    an = intervals.Analysis(p)
    # every `as u32` (or narrower) cast feeding E::from in the three functions
    for key in (TI_TE, PO_TE, CTX_TE):
        f = p.fn(key)
        for bi, b in enumerate(f.blocks):
            if b.get("cleanup"):
                continue
            for s in b["s"]:
                if s["k"] == "assign" and s["rv"][0] == "cast" and s["rv"][1].startswith("IntToInt"):
                    src_t, dst_t = intervals.type_range(s["rv"][4]), intervals.type_range(s["rv"][3])
                    if not src_t or not dst_t or (dst_t[0] <= src_t[0] and src_t[1] <= dst_t[1]):
                        continue
                    iv = an.eval_op(f, s["rv"][2], s["_pos"])
                    names = panics._names_of(f, [s["rv"][2]])
                    ok = iv is not None and dst_t[0] <= iv[0] and iv[1] <= dst_t[1]
                    how = "`%s as %s` with value in %s" % (names, s["rv"][3], panics._fmt(iv))
                    if not ok:
                        # cross-object invariant: both Context construction paths bound the value
                        tok = "length" if "trace_length" in names or "length" in names else ("num_constraints" if "num_constraints" in names else None)
                        if tok:
                            g1 = panics.check_requires(p, f, None, {"kind": "err-guard", "func": CTX_READ, "lhs": tok, "rel": "Gt", "rhs": "4294967295"})
                            g2 = panics.check_requires(p, f, None, {"kind": "err-guard", "func": CTX_NEW, "lhs": "trace_length" if tok == "length" else tok, "rel": "Gt", "rhs": "4294967295"})
                            ok = g1[0] and g2[0]
                            how += "; bounded by u32::MAX on every construction path of Context (%s; %s)" % (g1[1], g2[1]) if ok else \
                                "; not bounded on every construction path of Context (%s; %s)" % (g1[1], g2[1])
                    ctx.ob("R3", "narrowing:%s" % names, ok, how, f, s["sp"]["at"])


def r4_lengths(ctx):
    p = ctx.p
    for key, fld in ((TI_TE, "trace_meta"), (CTX_TE, "field_modulus_bytes")):
        f = p.fn(key)
        pads = f.calls_to(PADDING)
        if not pads:
            # `.map(E::from_bytes_with_padding)`: the function item handed to an iterator adapter
            for bi, t in f.calls():
                for a in t["a"]:
                    c = op_const(a)
                    if c and isinstance(c.get("fn"), dict) and c["fn"].get("def") == PADDING:
                        pads.append((bi, t))
        if not pads:
            raise AnchorLost("%s: from_bytes_with_padding is neither called nor mapped over the chunks" % key)
        sl = ret_slice(f)
        # does len(field) flow into the result other than through the chunking itself?
        len_in = False
        for b in sl["calls"]:
            t = f.term(b)
            if (callee_of(t) or {}).get("name") == "len" and fld in slice_field_bases(arg_slice(f, t, 0)):
                # the length must reach an element (E::from / push), not only a split point / chunk size
                fw = f.forward_locals([t["dest"][0]], through_calls=None)
                for bb2, t2 in f.calls():
                    if (callee_of(t2) or {}).get("name") in ("from", "push") and any(op_local(a) in fw for a in t2["a"]):
                        if (callee_of(t2) or {}).get("name") == "from":
                            len_in = True
        ctx.ob("R4", "%s-length-absorbed" % fld, len_in,
               "the length of `%s` is absorbed together with its zero-padded chunks" % fld if len_in else
               "`%s` is absorbed through zero-padded chunks (from_bytes_with_padding) without its length: values that differ only in trailing zero bytes of a chunk give the same elements" % fld,
               f, pads[0][1]["sp"]["at"])


def run(ctx):
    ctx.rule("R1", "every parameter listed in the property is a field that flows into the vector returned by Context / TraceInfo / ProofOptions::to_elements", 14)
    ctx.rule("R2", "bit packing is injective: in every `buf << k | x`, x < 2^k and buf < 2^(32-k) by field invariants; the layout branch is decided by a packed value", 7)
    ctx.rule("R3", "narrowing casts before E::from are in range on every construction path of the owning struct", 2)
    ctx.rule("R4", "variable-length fields absorbed through zero padding also absorb their length", 2)
    ctx.guard("R1", r1_flow)
    ctx.guard("R2", r2_packing)
    ctx.guard("R3", r3_narrowing)
    ctx.guard("R4", r4_lengths)
    ctx.assume("E::from(u32) and from_bytes_with_padding are injective on values below 2^32 / chunks shorter than an element (C11)")
