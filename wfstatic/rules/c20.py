"""C20 — public-coin randomness is deterministic and well-formed (three structural clauses)."""
from .. import ir, effects
from ..ir import AnchorLost, callee_of, op_place, op_local, op_const, is_call_to
from ..patterns import (calls_to, arg_slice, cmp_sites, slice_field_bases, cmp_reject_relation, _NEG, _SWAP)
from .c03 import for_loops

COIN = "<winter_crypto::random::default::DefaultRandomCoin<H> as winter_crypto::random::RandomCoin>::"
NEXT = "winter_crypto::random::default::DefaultRandomCoin::<H>::next"
MERGE_WITH_INT = "winter_crypto::hash::Hasher::merge_with_int"
MERGE = "winter_crypto::hash::Hasher::merge"
HASH_ELEMENTS = "winter_crypto::hash::ElementHasher::hash_elements"


def names_in(f, sl):
    return {(callee_of(f.term(b)) or {}).get("name") for b in sl["calls"]}


def r1_determinism(ctx):
    p = ctx.p
    entries = [COIN + m for m in ("new", "reseed", "draw", "draw_integers", "check_leading_zeros")] + [NEXT]
    for e in entries:
        p.fn(e)
    reach = p.reachable_from(entries)
    amb = effects.ambient_calls(p, reach)
    ctx.ob("R1", "no-ambient-input", not amb,
           "none of the %d functions reachable from DefaultRandomCoin::{new,reseed,draw,draw_integers,check_leading_zeros} reads time, randomness, environment, thread identity, hash-map order or shared mutable state"
           % len(reach) if not amb else "ambient inputs reachable from the coin: %s" % amb[:5], COIN + "*")
    adt = p.adts.get("winter_crypto::random::default::DefaultRandomCoin")
    if not adt:
        raise AnchorLost("DefaultRandomCoin struct not found")
    fields = [x["name"] for x in adt["variants"][0]["fields"]]
    ctx.ob("R1", "state-is-seed-and-counter", fields == ["seed", "counter"],
           "DefaultRandomCoin state = {seed, counter}" if fields == ["seed", "counter"] else
           "DefaultRandomCoin has state beyond seed/counter: %s" % fields, "winter_crypto::random::default::DefaultRandomCoin", adt["at"])


def _is_mask_of_domain(g, op, at):
    """op = domain_size - 1 computed in g without calls (domain_size = parameter 3 of draw_integers)."""
    ys = g.slice_of_operand(op, at=at)
    subs = [dd for l in ys["locals"] for dd in g.defs(l) if dd["kind"] == "assign" and dd["rv"][0] == "bin" and dd["rv"][1].startswith("Sub")]
    return bool(subs) and 3 in ys["args"] and not ys["calls"] and all(
        (op_const(dd["rv"][3]) or {}).get("v") == "1" and op_local(dd["rv"][2]) is not None and 3 in g.copy_chain(op_local(dd["rv"][2])) for dd in subs)


def _r2_iterator_form(ctx, f):
    """`(0..1000).take(num_values).map(|_| next()-bytes & mask).collect()`: the same six obligations read off the
    iterator chain instead of the push loop."""
    p = ctx.p
    from ..patterns import upvar_origins, ok_payload_slice
    cols = [(bi, t) for bi, t in f.calls() if (callee_of(t) or {}).get("name") == "collect" and not f.is_cleanup(bi)]
    chain = None
    for bi, t in cols:
        sl = arg_slice(f, t, 0)
        nm = names_in(f, sl)
        if "map" in nm and any(is_call_to(cf.term(b), NEXT) for ck in sl["closures"] for cf in [p.fn(ck)] for b, _ in cf.calls()):
            chain = (bi, t, sl, nm)
    if chain is None:
        raise AnchorLost("draw_integers: neither a push loop nor a map(..).collect() chain drawing from next() found")
    cbi, ct, sl, nm = chain
    values = f.copy_chain(ct["dest"][0]) | {ct["dest"][0]} | f.forward_locals([ct["dest"][0]], through_calls=None)
    # (a) mask
    ok_mask = False
    for ck in sl["closures"]:
        cf = p.fn(ck)
        ret = cf.backward_slice([0])
        for l in ret["locals"] | {0}:
            for d in cf.defs(l):
                if d["kind"] != "assign" or d["rv"][0] != "bin" or d["rv"][1] != "BitAnd":
                    continue
                for x, y in ((d["rv"][2], d["rv"][3]), (d["rv"][3], d["rv"][2])):
                    xs = cf.slice_of_operand(x, at=(d["bb"], d["si"]))
                    ys = cf.slice_of_operand(y, at=(d["bb"], d["si"]))
                    from_next = "from_le_bytes" in names_in(cf, xs) and any(is_call_to(cf.term(b), NEXT) for b in xs["calls"])
                    mask = False
                    if not ys["calls"]:
                        for pf, locs in upvar_origins(p, cf, ys):
                            if pf.key == f.key:
                                mask = any(_is_mask_of_domain(f, ["cp", [m]], (cbi, 0)) for m in locs)
                    if from_next and mask:
                        ok_mask = True
    ctx.ob("R2", "values-masked-to-domain", ok_mask,
           "each collected value = u64::from_le_bytes(next().as_bytes()[..8]) & (domain_size - 1)" if ok_mask else
           "collected values are not next()-bytes masked with (domain_size - 1)", f, ct["sp"]["at"])
    pw = [(bi, t) for bi, t in f.calls() if (callee_of(t) or {}).get("name") == "is_power_of_two"]
    pw_ok = False
    if pw and 3 in arg_slice(f, pw[0][1], 0)["args"]:
        for c in f.bool_checks_of(pw[0][0]):
            if f.must_cross([cbi], cut_edges=c["true_edges"]) and all(not f.can_reach(t, [cbi]) for _, t in c["false_edges"]):
                pw_ok = True
    ctx.ob("R2", "domain-size-power-of-two-asserted", pw_ok,
           "assert!(domain_size.is_power_of_two()) dominates the draws, so the mask is exactly the range [0, domain_size)" if pw_ok else
           "no dominating power-of-two assertion on domain_size", f)
    # (b) at most num_values values: take(num_values) in front of the map, nothing else that changes the count
    tk = [f.term(b) for b in sl["calls"] if (callee_of(f.term(b)) or {}).get("name") == "take"]
    mp = [b for b in sl["calls"] if (callee_of(f.term(b)) or {}).get("name") == "map"]
    bounded = len(tk) == 1 and op_local(tk[0]["a"][1]) is not None and 2 in f.copy_chain(op_local(tk[0]["a"][1])) and \
        bool(mp) and any((callee_of(f.term(b)) or {}).get("name") == "take" for b in arg_slice(f, f.term(mp[0]), 0)["calls"]) and \
        not (nm & {"filter", "filter_map", "flat_map", "chain", "cycle", "skip", "step_by", "skip_while", "take_while"})
    ctx.ob("R2", "push-only-while-short", bounded,
           "take(num_values) in front of the map bounds the number of values drawn (for every num_values including 0)" if bounded else
           "the iterator chain does not bound the number of values by num_values", f, ct["sp"]["at"])
    # (c) short draws rejected
    def len_vs_num(s):
        def is_len(l):
            if l is None:
                return False
            for x in f.copy_chain(l):
                for d in f.defs(x):
                    if d["kind"] == "call" and (callee_of(d["term"]) or {}).get("name") == "len":
                        return bool(f.slice_of_operand(d["term"]["a"][0])["locals"] & values)
            return False
        def is_num(l):
            return l is not None and 2 in f.copy_chain(l)
        la, lb = op_local(s["a"]), op_local(s["b"])
        if is_len(la) and is_num(lb):
            return False
        if is_len(lb) and is_num(la):
            return True
        return None
    rej = False
    for s in cmp_sites(f):
        sw = len_vs_num(s)
        if sw is None:
            continue
        ok, how, rel = cmp_reject_relation(f, s)
        if ok and (_SWAP[rel] if sw else rel) in ("Lt", "Ne"):
            rej = True
    ctx.ob("R2", "short-draw-rejected", rej,
           "after the chain: values.len() < num_values -> Err(FailedToDrawIntegers) dominates the Ok exit" if rej else
           "the Ok exit is not guarded by a length check against num_values", f)
    ret = ok_payload_slice(f)
    ctx.ob("R2", "returns-the-drawn-values", bool(ret["locals"] & values), "Ok(values) returns the collected vector", f)
    mw = [(bi, t) for bi, t in f.calls_to(MERGE_WITH_INT)]
    good = False
    if mw:
        bi, t = mw[0]
        good = "seed" in slice_field_bases(arg_slice(f, t, 0)) and 4 in arg_slice(f, t, 1)["args"] and f.must_cross([cbi], cut_blocks=[bi])
    ctx.ob("R2", "nonce-absorbed-first", good, "self.seed = merge_with_int(self.seed, nonce) dominates the draws", f)


def r2_draw_integers(ctx):
    f = ctx.p.fn(COIN + "draw_integers")
    loops = for_loops(f)
    pushes = [(bi, t) for bi, t in f.calls() if (callee_of(t) or {}).get("name") == "push" and not f.is_cleanup(bi)]
    if not pushes or not loops:
        return _r2_iterator_form(ctx, f)
    pbi, pt = pushes[0]
    L = [x for x in loops if pbi in x["body"]]
    if not L:
        raise AnchorLost("draw_integers: push is not inside the loop")
    L = L[0]
    values = f._mutref_origins(op_local(pt["a"][0]), f._defs or (f.defs(0) and f._defs), set())
    # (a) pushed value = from_le_bytes(next()..) & (domain_size - 1)
    vsl = arg_slice(f, pt, 1)
    ands = [d for l in vsl["locals"] for d in f.defs(l) if d["kind"] == "assign" and d["rv"][0] == "bin" and d["rv"][1] == "BitAnd"]
    ok_mask = False
    for d in ands:
        for x, y in ((d["rv"][2], d["rv"][3]), (d["rv"][3], d["rv"][2])):
            xs = f.slice_of_operand(x, at=(d["bb"], d["si"]))
            ys = f.slice_of_operand(y, at=(d["bb"], d["si"]))
            from_next = "from_le_bytes" in names_in(f, xs) and any(is_call_to(f.term(b), NEXT) for b in xs["calls"])
            # mask = (domain_size - 1): a Sub(.., 1) of parameter 3, no calls involved
            subs = [dd for l in ys["locals"] for dd in f.defs(l) if dd["kind"] == "assign" and dd["rv"][0] == "bin" and dd["rv"][1].startswith("Sub")]
            mask = bool(subs) and 3 in ys["args"] and not ys["calls"] and all(
                (op_const(dd["rv"][3]) or {}).get("v") == "1" and op_local(dd["rv"][2]) is not None and 3 in f.copy_chain(op_local(dd["rv"][2])) for dd in subs)
            if from_next and mask:
                ok_mask = True
    ctx.ob("R2", "values-masked-to-domain", ok_mask,
           "each pushed value = u64::from_le_bytes(next().as_bytes()[..8]) & (domain_size - 1)" if ok_mask else
           "pushed values are not next()-bytes masked with (domain_size - 1)", f, pt["sp"]["at"])
    pw = [(bi, t) for bi, t in f.calls() if (callee_of(t) or {}).get("name") == "is_power_of_two"]
    pw_ok = False
    if pw and 3 in arg_slice(f, pw[0][1], 0)["args"]:
        for c in f.bool_checks_of(pw[0][0]):
            if f.must_cross([pbi], cut_edges=c["true_edges"]) and all(not f.can_reach(t, [pbi]) for _, t in c["false_edges"]):
                pw_ok = True
    ctx.ob("R2", "domain-size-power-of-two-asserted", pw_ok,
           "assert!(domain_size.is_power_of_two()) dominates the draws, so the mask is exactly the range [0, domain_size)" if pw_ok else
           "no dominating power-of-two assertion on domain_size", f)
    # (b) exactness: a value is pushed only while len != / < num_values
    def len_vs_num(s):
        la, lb = op_local(s["a"]), op_local(s["b"])
        def is_len(l):
            if l is None:
                return False
            for x in f.copy_chain(l):
                for d in f.defs(x):
                    if d["kind"] == "call" and (callee_of(d["term"]) or {}).get("name") == "len":
                        return bool(f._mutref_origins(op_local(d["term"]["a"][0]), f._defs, set()) & values) or \
                            bool(f.slice_of_operand(d["term"]["a"][0])["locals"] & values)
            return False
        def is_num(l):
            return l is not None and 2 in f.copy_chain(l)
        if is_len(la) and is_num(lb):
            return False
        if is_len(lb) and is_num(la):
            return True
        return None
    guard_ok = False
    for s in cmp_sites(f):
        sw = len_vs_num(s)
        if sw is None or s["bb"] not in L["body"] and s["bb"] != L["header"]:
            continue
        for c in f.bool_checks_of_local(s["local"]):
            for edges, rel in ((c["true_edges"], s["op"]), (c["false_edges"], _NEG[s["op"]])):
                rel = _SWAP[rel] if sw else rel
                if rel in ("Ne", "Lt"):
                    if all(not f.can_reach(st, [pbi], cut_edges=edges, cut_blocks=[L["header"]]) for st in L["some"]):
                        guard_ok = True
    ctx.ob("R2", "push-only-while-short", guard_ok,
           "inside the loop a value is pushed only on the edge where values.len() != num_values (so len never exceeds the request, for every num_values including 0)"
           if guard_ok else
           "the loop pushes a value before comparing values.len() with num_values: with num_values = 0 the equality test after the push never holds and 1000 values are returned",
           f, pt["sp"]["at"])
    # (c) Ok exit rejects len < num_values
    rej = False
    for s in cmp_sites(f):
        sw = len_vs_num(s)
        if sw is None or s["bb"] in L["body"]:
            continue
        ok, how, rel = cmp_reject_relation(f, s)
        if ok and (_SWAP[rel] if sw else rel) in ("Lt", "Ne"):
            rej = True
    ctx.ob("R2", "short-draw-rejected", rej,
           "after the loop: values.len() < num_values -> Err(FailedToDrawIntegers) dominates the Ok exit" if rej else
           "the Ok exit is not guarded by a length check against num_values", f)
    from ..patterns import ok_payload_slice
    ret = ok_payload_slice(f)
    ctx.ob("R2", "returns-the-drawn-values", bool(ret["locals"] & values),
           "Ok(values) returns the vector the loop filled", f)
    # nonce absorbed: seed := merge_with_int(seed, nonce), counter := 0 before the first draw
    mw = [(bi, t) for bi, t in f.calls_to(MERGE_WITH_INT)]
    good = False
    if mw:
        bi, t = mw[0]
        good = "seed" in slice_field_bases(arg_slice(f, t, 0)) and 4 in arg_slice(f, t, 1)["args"] and f.must_cross([L["header"]], cut_blocks=[bi])
    ctx.ob("R2", "nonce-absorbed-first", good, "self.seed = merge_with_int(self.seed, nonce) dominates the draw loop", f)


def _is_self_alias(f, l, depth=0):
    """a `&mut self` handed to a spliced private helper: the helper's receiver is a copy / reborrow of _1."""
    if l == 1:
        return True
    if depth > 6:
        return False
    ds = [d for d in f.defs(l) if d.get("p") and len(d["p"]) == 1]   # stores through the alias are not re-definitions
    if len(ds) != 1 or ds[0]["kind"] != "assign":
        return False
    rv = ds[0]["rv"]
    pl = op_place(rv[1]) if rv[0] == "use" else (rv[2] if rv[0] in ("ref", "rawptr") else None)
    return bool(pl) and all(e == "*" for e in pl[1:]) and _is_self_alias(f, pl[0], depth + 1)


def _field_writes(f, field):
    out = []
    for bi, b in enumerate(f.blocks):
        for s in b["s"]:
            if s["k"] == "assign" and ir.place_fields(s["p"]) == [field] and (s["p"][0] == 1 or _is_self_alias(f, s["p"][0])):
                out.append((bi, s))
    return out


def r3_shapes(ctx):
    p = ctx.p
    f = p.fn(COIN + "reseed")
    ws = _field_writes(f, "seed")
    good = False
    if ws:
        bi, s = ws[0]
        sl = f.slice_of_operand(s["rv"][1], at=s["_pos"])
        mg = [b for b in sl["calls"] if is_call_to(f.term(b), MERGE)]
        good = bool(mg) and "seed" in slice_field_bases(sl) and 2 in sl["args"]
    cz = [s for _, s in _field_writes(f, "counter") if (op_const(s["rv"][1]) or {}).get("v") == "0"] if _field_writes(f, "counter") else []
    ctx.ob("R3", "reseed", good and bool(cz), "reseed: seed = merge([seed, data]); counter = 0" if good and cz else
           "reseed no longer stores merge([seed, data]) and resets the counter", f)
    n = p.fn(NEXT)
    mw = calls_to(n, MERGE_WITH_INT, 1)[0]
    inc = [s for _, s in _field_writes(n, "counter")]
    pre = bool(inc) and n.must_cross([mw[0]], cut_blocks=[inc[0]["_pos"][0]]) or (bool(inc) and inc[0]["_pos"][0] == mw[0])
    wired = "seed" in slice_field_bases(arg_slice(n, mw[1], 0)) and "counter" in slice_field_bases(arg_slice(n, mw[1], 1))
    ret = n.backward_slice([0])
    ctx.ob("R3", "next", pre and wired and mw[0] in ret["calls"],
           "next: counter += 1; return merge_with_int(seed, counter)" if pre and wired else "next no longer pre-increments and hashes (seed, counter)", n)
    c = p.fn(COIN + "check_leading_zeros")
    ret = c.backward_slice([0])
    nm = names_in(c, ret)
    mwc = c.calls_to(MERGE_WITH_INT)
    good = {"trailing_zeros", "from_le_bytes", "as_bytes", "merge_with_int"} <= nm and bool(mwc) and \
        "seed" in slice_field_bases(arg_slice(c, mwc[0][1], 0)) and 2 in arg_slice(c, mwc[0][1], 1)["args"]
    rng = [s for b in c.blocks for s in b["s"] if s["k"] == "assign" and s["rv"][0] == "agg" and "RangeTo" in s["rv"][1].get("adt", "")]
    good &= bool(rng) and (op_const(rng[0]["rv"][2][0]) or {}).get("v") == "8"
    ctx.ob("R3", "check_leading_zeros", good,
           "check_leading_zeros(v) = u64::from_le_bytes(merge_with_int(seed, v).as_bytes()[..8]).trailing_zeros()" if good else
           "check_leading_zeros no longer has the documented shape", c)
    d = p.fn(COIN + "draw")
    frb = [(bi, t) for bi, t in d.calls() if (callee_of(t) or {}).get("name") == "from_random_bytes"]
    from ..patterns import ok_payload_slice
    sl = ok_payload_slice(d)
    good = bool(frb) and frb[0][0] in sl["calls"] and any(is_call_to(d.term(b), NEXT) for b in arg_slice(d, frb[0][1], 0)["calls"])
    ctx.ob("R3", "draw", good, "draw: Ok(element) only for elements produced by E::from_random_bytes(next().as_bytes()[..ELEMENT_BYTES]) (a range-checked decoder, C11.R3)"
           if good else "draw returns elements not produced by E::from_random_bytes(next()..)", d)
    nw = p.fn(COIN + "new")
    he = nw.calls_to(HASH_ELEMENTS)
    good = bool(he) and 1 in arg_slice(nw, he[0][1], 0)["args"]
    ctx.ob("R3", "new", good, "new(seed elements): seed = hash_elements(seed), counter = 0", nw)


def run(ctx):
    ctx.rule("R1", "nothing reachable from DefaultRandomCoin's methods has an ambient-input effect; state = {seed, counter}", 2)
    ctx.rule("R2", "draw_integers: values = next()-bytes & (domain_size-1) behind a power-of-two assert; a value is pushed only while len != num_values; short draws are rejected; nonce absorbed first", 6)
    ctx.rule("R3", "reseed / next / check_leading_zeros / draw / new have the documented shapes (resolved callees + provenance)", 5)
    ctx.guard("R1", r1_determinism)
    ctx.guard("R2", r2_draw_integers)
    ctx.guard("R3", r3_shapes)
    ctx.assume("statistical quality of the hash-derived stream and that different digests give different draws are hash properties, not decided")
