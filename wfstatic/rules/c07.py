"""C07 — protocol objects survive serialization round trips (schema / range clauses)."""
import re
from .. import ir, codec, intervals, panics
from ..ir import AnchorLost, callee_of, op_local, op_const, op_place, is_call_to
from ..patterns import arg_slice, slice_field_bases

SER = codec.SER
DES = codec.DES
WIDTH = {"u8": 1, "u16": 2, "u32": 4, "u64": 8, "u128": 16}
CONTAINER_RE = [
    (re.compile(r"^Vec<(.*)>$"), lambda m: m.group(1)),
    (re.compile(r"^\[(.*); \w+\]$"), lambda m: m.group(1)),
    (re.compile(r"^\[(.*)\]$"), lambda m: m.group(1)),
    (re.compile(r"^BTreeSet<(.*)>$"), lambda m: m.group(1)),
    (re.compile(r"^BTreeMap<(.*), (.*)>$"), lambda m: "(%s, %s)" % (m.group(1), m.group(2))),
]


def elem_of(t):
    for rx, fn in CONTAINER_RE:
        m = rx.match(t)
        if m:
            return fn(m)
    return t


def impl_fn(p, impl, name):
    for it in impl["items"]:
        if it["name"] == name and it["key"] in p.funcs:
            return p.fn(it["key"])      # private helpers that read / write part of the encoding are spliced in
    return None


def pairs(p, only_crates=None):
    ser = {i["self_ty"]: i for i in p.impls_of_trait(SER) if i["crate"] != "examples"}
    de = {i["self_ty"]: i for i in p.impls_of_trait(DES) if i["crate"] != "examples"}
    out = []
    for t in sorted(set(ser) & set(de)):
        if only_crates and ser[t]["crate"] not in only_crates:
            continue
        w, r = impl_fn(p, ser[t], "write_into"), impl_fn(p, de[t], "read_from")
        if w and r:
            out.append((t, w, r))
    return out


def canon(path, f, an, side):
    """normalised tokens with byte widths: list of ('fixed', nbytes) | ('bytes',) | ('nested', T) | ('many', T) | ..."""
    out = []
    for tok in codec.normalise(path):
        if tok[0] in WIDTH:
            out.append(("fixed", WIDTH[tok[0]]))
        elif tok[0] == "many":
            out.append(("many", elem_of(tok[1])))
        else:
            out.append(tok)
    return out


def merge_fixed(tokens):
    out = []
    for t in tokens:
        if t[0] == "fixed" and out and out[-1][0] == "fixed":
            out[-1] = ("fixed", out[-1][1] + t[1])
        else:
            out.append(t)
    return out


def writer_byte_lengths(f, an):
    """for each write_bytes call (in order of blocks): constant length of the argument, if provable."""
    out = {}
    for bi, t in f.calls():
        c = callee_of(t)
        if c and c.get("trait") == codec.BW and c.get("name") == "write_bytes":
            ln = an.len_of(f, t["a"][1], (bi, f.INF - 1))
            out[bi] = ln[0] if ln and ln[0] == ln[1] else None
    return out


def with_lengths(raw_path, f, an, lens):
    """replace ('bytes', ..) tokens of a *raw* path (with block ids unavailable) by fixed widths where
    the function has exactly one constant-length write_bytes call."""
    consts = [v for v in lens.values()]
    toks = []
    for tok in codec.normalise(raw_path):
        toks.append(tok)
    if len(consts) == 1 and consts[0] is not None:
        toks = [("fixed", consts[0]) if t == ("bytes",) else t for t in toks]
    out = []
    for t in toks:
        if t[0] in WIDTH:
            out.append(("fixed", WIDTH[t[0]]))
        elif t[0] == "many":
            out.append(("many", elem_of(t[1])))
        else:
            out.append(t)
    return merge_fixed(out)


def run_schema(ctx, rule, only_crates=None, cfg="default"):
    p = ctx.prog(cfg)
    an = intervals.Analysis(p)
    ps = pairs(p, only_crates)
    for ty, w, r in ps:
        short = codec.norm_ty(ty)
        wl = writer_byte_lengths(w, an)
        wp = [with_lengths(x, w, an, wl) for x in codec.paths(w)]
        rp = [with_lengths(x, r, an, {}) for x in codec.paths(r)]
        wset = {tuple(x) for x in wp}
        rset = {tuple(x) for x in rp}
        ok = wset == rset and bool(wset)
        how = "writer and reader agree: %s" % " | ".join(codec.fmt([("%s%s" % (t[0], t[1]),) if t[0] == "fixed" else t for t in x]) for x in sorted(wset))
        if not ok:
            # a reader path may skip a zero-length blob right after its length prefix
            extra = rset - wset
            missing = wset - rset
            tolerated = True
            for e in extra:
                if not any(_is_zero_len_variant(e, wpath) for wpath in wset):
                    tolerated = False
            if not missing and tolerated and extra:
                ok = True
                how += " (reader also accepts the empty-blob form)"
            else:
                how = "writer emits %s but reader consumes %s" % (
                    " | ".join(_show(x) for x in sorted(wset)), " | ".join(_show(x) for x in sorted(rset)))
        ctx.ob(rule, "schema:%s" % short, ok, how, w, w.at, cfg=cfg)
    return ps


def _show(x):
    return " ".join(("%s%d" % t) if t[0] == "fixed" else (t[0] + ("<%s>" % t[1] if len(t) > 1 else "")) for t in x) or "(nothing)"


def _is_zero_len_variant(reader_path, writer_path):
    rp, wp = list(reader_path), list(writer_path)
    if len(rp) != len(wp) - 1:
        return False
    for i in range(len(wp)):
        if wp[i] == ("bytes",) and wp[:i] + wp[i + 1:] == rp and i > 0 and wp[i - 1][0] == "fixed":
            return True
    return False


# -- R1b: length prefixes -----------------------------------------------------------------------------

def r1_prefixes(ctx):
    p = ctx.p
    for ty, w, r in pairs(p):
        short = codec.norm_ty(ty)
        # writer: an integer write immediately followed (next I/O call) by write_bytes / write_many of X
        evs = [(bi, callee_of(t), t) for bi, t in w.calls() if not w.is_cleanup(bi) and callee_of(t) and
               (callee_of(t).get("trait") in (codec.BW, SER))]
        evs.sort(key=lambda x: x[0])
        order = _io_order(w)
        for i in range(len(order) - 1):
            a, b = order[i], order[i + 1]
            ca, cb = callee_of(w.term(a)), callee_of(w.term(b))
            if ca["name"] in codec.W_PRIM and cb["name"] in ("write_bytes", "write_many"):
                cnt = arg_slice(w, w.term(a), 1)
                blob = arg_slice(w, w.term(b), 1)
                lens = [x for x in cnt["calls"] if (callee_of(w.term(x)) or {}).get("name") == "len"]
                if not lens:
                    continue
                larg = arg_slice(w, w.term(lens[0]), 0)
                fc, fb = set(slice_field_bases(larg)), set(slice_field_bases(blob))
                if fc or fb:
                    same = bool(fc & fb)
                else:
                    same = bool(larg["locals"] & blob["locals"])
                ctx.ob("R1", "prefix:%s:writer-%s" % (short, ca["name"]), same,
                       "%s(len) is the length of the blob written right after it" % ca["name"] if same else
                       "the length written by %s is not the length of the following blob" % ca["name"], w, w.term(a)["sp"]["at"])
        order = _io_order(r)
        for i in range(len(order) - 1):
            a, b = order[i], order[i + 1]
            ca, cb = callee_of(r.term(a)), callee_of(r.term(b))
            if ca["name"] in codec.R_PRIM and cb["name"] in ("read_vec", "read_slice", "read_many", "read_string"):
                used = a in arg_slice(r, r.term(b), 1)["calls"]
                ctx.ob("R1", "prefix:%s:reader-%s" % (short, ca["name"]), used,
                       "the count read by %s sizes the %s that follows" % (ca["name"], cb["name"]) if used else
                       "%s is not sized by the count read just before it" % cb["name"], r, r.term(b)["sp"]["at"])


def _io_order(f):
    """I/O call blocks in control-flow order along the main success path (first path)."""
    good, exits = codec.success_blocks(f)
    seen = set()
    order = []
    b = 0
    while b is not None and b not in seen:
        seen.add(b)
        t = f.term(b)
        if t["k"] == "call" and codec.event_of(f, b, t):
            order.append(b)
        nxt = None
        for tg, lab in f.succ(b):
            if tg in good and tg not in seen:
                nxt = tg
                break
        b = nxt
    return order


# -- enum codecs ----------------------------------------------------------------------------------------

def r1_enums(ctx):
    p = ctx.p
    for adt_key in ("winter_air::options::FieldExtension", "winter_air::options::BatchingMethod"):
        adt = p.adts.get(adt_key)
        if not adt:
            raise AnchorLost("%s not found" % adt_key)
        discr = {int(v["discr"]): v["name"] for v in adt["variants"]}
        r = p.fn("<%s as winter_utils::serde::Deserializable>::read_from" % adt_key)
        w = p.fn("<%s as winter_utils::serde::Serializable>::write_into" % adt_key)
        arms = {}
        for bi, b in enumerate(r.blocks):
            t = b["t"]
            if t["k"] == "switch" and t.get("dty") == "u8" and len(t["arms"]) >= 2:
                for v, tg in t["arms"]:
                    others = [x for _, x in t["arms"] if x != tg] + [t["else"]]
                    for rb in r.reach([tg], cut_blocks=others):
                        for s in r.stmts(rb):
                            if s["k"] == "assign" and s["rv"][0] == "agg" and s["rv"][1].get("adt") == adt_key:
                                arms[int(v)] = s["rv"][1]["variant"]
                            if s["k"] == "setdiscr":
                                arms[int(v)] = adt["variants"][s["vi"]]["name"]
                rej = not r.can_reach(t["else"], [e["bb"] for e in r.exits() if e["kind"] not in ("err", "residual")])
                ctx.ob("R1", "enum:%s:unknown-tag-rejected" % adt_key.split("::")[-1], rej,
                       "any other tag byte returns an error" if rej else "an unknown tag byte can decode successfully", r, t["sp"]["at"])
        ok = arms == discr
        ctx.ob("R1", "enum:%s:tags-match-discriminants" % adt_key.split("::")[-1], ok,
               "reader maps %s = the discriminants written by `*self as u8`" % {k: v for k, v in sorted(arms.items())} if ok else
               "reader arms %s differ from discriminants %s" % (arms, discr), r)
        casts = [s for b in w.blocks for s in b["s"] if s["k"] == "assign" and s["rv"][0] == "cast" and s["rv"][3] == "u8"]
        ctx.ob("R1", "enum:%s:writer-writes-discriminant" % adt_key.split("::")[-1], bool(casts),
               "writer emits the discriminant as u8", w)


# -- R2: constructor accepted ranges are accepted by the decoder --------------------------------------

CTOR_PAIRS = [
    ("<winter_air::air::trace_info::TraceInfo as winter_utils::serde::Deserializable>::read_from",
     "winter_air::air::trace_info::TraceInfo::new_multi_segment", ["main_segment_width", "aux_segment_width", "num_aux_segment_rands", "trace_length"]),
    ("<winter_air::options::ProofOptions as winter_utils::serde::Deserializable>::read_from",
     "winter_air::options::ProofOptions::new", ["num_queries", "blowup_factor", "grinding_factor", None, "fri_folding_factor", "fri_remainder_max_degree"]),
    ("<winter_air::options::ProofOptions as winter_utils::serde::Deserializable>::read_from",
     "winter_air::options::ProofOptions::with_partitions", [None, "num_partitions", "hash_rate"]),
]


def r2_ctor_subset_decoder(ctx):
    p = ctx.p
    an = intervals.Analysis(p)
    for dec_key, ctor_key, names in CTOR_PAIRS:
        d, c = p.fn(dec_key), p.fn(ctor_key)
        cs = d.calls_to(ctor_key)
        if not cs:
            raise AnchorLost("%s does not call %s" % (dec_key, ctor_key))
        bi, t = cs[0]
        for i, nm in enumerate(names):
            if nm is None:
                continue
            tr = intervals.type_range(c.local_ty(i + 1))
            if tr is None:
                continue
            acc = an.accepted_param_range(c, i + 1)
            if ctor_key.endswith("with_partitions"):
                pn = p.fn("winter_air::options::PartitionOptions::new")
                acc = an.accepted_param_range(pn, i)
            acc = intervals.meet(acc, tr) if acc else tr
            got = an.eval_op(d, t["a"][i], (bi, d.INF - 1))
            ok = got is not None and got[0] <= acc[0] and acc[1] <= got[1]
            ctx.ob("R2", "ctor-range-decodes:%s.%s" % (ctor_key.split("::")[-2], nm), ok,
                   "%s accepts %s in %s and the decoder lets %s through" % (ctor_key.split("::")[-1], nm, panics._fmt(acc), panics._fmt(got)) if ok else
                   "%s accepts %s in %s but the decoder only lets %s through: accepted values do not survive a round trip" % (
                       ctor_key.split("::")[-1], nm, panics._fmt(acc), panics._fmt(got)), d, t["sp"]["at"])
    # Context: struct literal in read_from vs Context::new
    d = p.fn("<winter_air::proof::context::Context as winter_utils::serde::Deserializable>::read_from")
    c = p.fn("winter_air::proof::context::Context::new")
    agg = [s for b in d.blocks if not b.get("cleanup") for s in b["s"] if s["k"] == "assign" and s["rv"][0] == "agg" and
           s["rv"][1].get("adt") == "winter_air::proof::context::Context"]
    if not agg:
        raise AnchorLost("Context::read_from: struct literal not found")
    flds = agg[0]["rv"][1]["fields"]
    got = an.eval_op(d, agg[0]["rv"][2][flds.index("num_constraints")], agg[0]["_pos"])
    pi = [i for i in range(1, c.argc + 1) if c.local_name(i) == "num_constraints"]
    acc = an.accepted_param_range(c, pi[0]) if pi else None
    ok = acc is not None and got is not None and got[0] <= acc[0] and acc[1] <= got[1]
    ctx.ob("R2", "ctor-range-decodes:Context.num_constraints", ok,
           "Context::new accepts num_constraints in %s and the decoder lets %s through" % (panics._fmt(acc), panics._fmt(got)) if ok else
           "Context::new accepts %s, decoder %s" % (panics._fmt(acc), panics._fmt(got)), d, agg[0]["sp"]["at"])


_NOISE = {"into", "from", "try_from", "try_into", "clone", "branch", "from_residual", "read_u8", "read_u16", "read_u32", "read_u64",
          "read_usize", "read_from", "read_vec", "read_many", "to_string", "len", "unwrap", "expect", "map_err", "deref", "borrow",
          "source", "self", None, ""}
DECODER_ONLY_REJECTIONS = {
    ("Context", "num_modulus_bytes"): "constructor-built contexts take the modulus bytes from B::get_modulus_le_bytes(), which is never empty",
}


def _value_features(f, op, pos, seen=None, depth=0):
    """names the value of `op` is computed from: accessor calls, named locals, fields; reader calls
    (anything taking the byte source) are leaves, so values read earlier from the same source do not
    leak in."""
    out = set()
    l = op_local(op)
    if l is None or depth > 14:
        return out
    seen = seen if seen is not None else set()
    pl = op_place(op)
    if pl:
        out |= set(ir.place_fields(pl))
    if l in seen:
        return out
    seen.add(l)
    if f.local_name(l):
        out.add(f.local_name(l))
    for d in f.reaching_defs(l, pos):
        if d["kind"] == "assign":
            for o in ir.rv_operands(d["rv"]):
                if o[0] in ("cp", "mv", "pl"):
                    oo = o if o[0] != "pl" else ["cp", o[1]]
                    out |= _value_features(f, oo, (d["bb"], d.get("si", 0)), seen, depth + 1)
        elif d["kind"] == "call":
            t = d["term"]
            c = callee_of(t)
            nm = (c or {}).get("name")
            out.add(nm)
            reader = (c or {}).get("trait") == "winter_utils::serde::byte_reader::ByteReader" or nm in ("read_from",)
            if not reader:
                for a in t["a"]:
                    out |= _value_features(f, a, (d["bb"], f.INF), seen, depth + 1)
    return out


def _cmp_features(f, cs):
    out = set()
    for o in (cs["a"], cs["b"]):
        out |= _value_features(f, o, (cs["bb"], f.INF))
    return {x for x in out if x not in _NOISE and not str(x).isdigit() and x not in ("val", "residual", "e", "err")}


def _rejecting_cmps(f, targets_ok, reject_blocks=None):
    """comparison sites one of whose outcomes cannot reach an accepting exit: [(site, features)]."""
    from ..patterns import cmp_sites
    out = []
    for cs in cmp_sites(f):
        for c in f.bool_checks_of_local(cs["local"]):
            t_ok = any(f.can_reach(t, targets_ok) for _, t in c["true_edges"])
            f_ok = any(f.can_reach(t, targets_ok) for _, t in c["false_edges"])
            if t_ok != f_ok:
                out.append((cs, _cmp_features(f, cs)))
                break
    return out


def r2c_rejection_counterparts(ctx):
    """a decoder that fills the struct itself (Context::read_from) may reject, besides errors of the
    sub-decoders, only on conditions that the public constructor also rejects: every rejecting
    comparison of the decoder must mention only quantities that some rejecting comparison (assert)
    of the constructor mentions."""
    p = ctx.p
    d = p.fn("<winter_air::proof::context::Context as winter_utils::serde::Deserializable>::read_from")
    c = p.fn("winter_air::proof::context::Context::new")
    dec = _rejecting_cmps(d, d.ok_exit_blocks())
    cto = _rejecting_cmps(c, c.return_blocks())
    if len(dec) < 3 or len(cto) < 3:
        raise AnchorLost("Context: expected >= 3 rejecting comparisons in decoder and constructor, found %d / %d" % (len(dec), len(cto)))
    for cs, feats in dec:
        key = feats - {"trace_info", "options"}
        if not key:
            continue
        exc = [n for (ty, n) in DECODER_ONLY_REJECTIONS if ty == "Context" and n in key]
        hit = any(key <= cf for _, cf in cto)
        ok = hit or bool(exc)
        ctx.ob("R2", "decoder-rejection-has-ctor-counterpart:Context:%s" % ",".join(sorted(key)), ok,
               ("Context::new rejects on the same quantities" if hit else "decoder-only by design: " + DECODER_ONLY_REJECTIONS[("Context", exc[0])]) if ok else
               "Context::read_from rejects on %s, which Context::new never checks: values the constructor accepts fail to decode" % sorted(key),
               d, cs["at"])


def r2b_relational(ctx, rule="R2", report=("ctor-accepts-decoder-rejects", "decoder-accepts-ctor-rejects")):
    """cell decomposition of the decoded integers by the constants in the guards of decoder and
    constructor; on every representative point the two verdicts must agree."""
    from .. import guardcells
    p = ctx.p
    an = intervals.Analysis(p)
    for dec_key, ctor_key, names in CTOR_PAIRS:
        d, c = p.fn(dec_key), p.fn(ctor_key)
        cs = d.calls_to(ctor_key)
        if not cs:
            raise AnchorLost("%s does not call %s" % (dec_key, ctor_key))
        bi, t = cs[0]
        offset = 0
        if ctor_key.endswith("::with_partitions"):
            # the range checks live in PartitionOptions::new(num_partitions, hash_rate), called with
            # the same two arguments
            c = p.fn("winter_air::options::PartitionOptions::new")
            offset = 1
        dv = guardcells.decoded_vars(an, d, bi)
        # only variables that flow into the integer arguments of this call
        argl = set()
        for a in t["a"][offset:]:
            if op_local(a) is not None and intervals.type_range(d.local_ty(op_local(a))) is None:
                continue
            argl |= d.slice_of_operand(a, at=(bi, d.INF))["locals"]
        dv = {l: r for l, r in dv.items() if l in argl}
        if len(dv) < 2:
            raise AnchorLost("%s: decoded integer variables feeding %s not identified (%d)" % (dec_key, ctor_key, len(dv)))
        # constants of the constructor's guards, mapped onto the decoder variables by position
        an.compute_param_env([], set())
        cconst = guardcells.guard_constants(an, c, list(range(1, c.argc + 1)))
        extra = {}
        for i, a in enumerate(t["a"][offset:]):
            sl = d.slice_of_operand(a, at=(bi, d.INF))
            for l in dv:
                if l in sl["locals"]:
                    extra.setdefault(l, set()).update(cconst.get(i + 1, ()))
        pair = guardcells.Pair(an, d, c, bi, sorted(dv), dv, arg_offset=offset)
        n = 0
        bad = {report[0]: None, report[1]: None}
        for assign, vd, vc, args in pair.sweep(extra, pair_distance=None if ctx.tier == "thorough" else 2):
            n += 1
            if vc == "accept" and vd == "reject" and bad[report[0]] is None:
                bad[report[0]] = assign
            if vd == "accept" and vc == "reject" and bad[report[1]] is None:
                bad[report[1]] = assign
        if n < 10:
            raise AnchorLost("%s vs %s: no common accepted point found to sweep from (%d points)" % (dec_key, ctor_key, n))
        short = ctor_key.split("::")[-2] + "::" + ctor_key.split("::")[-1]
        for kind, w in bad.items():
            wtxt = ", ".join("%s=%d" % (d.local_name(l), v) for l, v in sorted(w.items())) if w else ""
            ctx.ob(rule, "%s:%s" % (kind, short), w is None,
                   "decoder and %s agree on all %d representative points of the guard cells (singles and pairs around a common accepted point)" % (short, n)
                   if w is None else ("%s accepts but the decoder rejects the decoded values %s: an accepted value does not survive a round trip" % (short, wtxt)
                                      if kind == report[0] else
                                      "the decoder lets the decoded values %s through to %s, which panics on them" % (wtxt, short)),
                   d, t["sp"]["at"])


# -- R3: narrowing casts in writers ----------------------------------------------------------------------

WRITER_CAST_REASONS = {
    ("FriProof", "layers"): "number of FRI layers <= log2(domain size) <= 64",
    ("FriProof", "remainder"): "remainder bytes = (remainder_max_degree + 1 <= 256) elements * ELEMENT_BYTES <= 48",
    ("OodFrame", "trace_states"): "set_trace_states, the only writer of the field besides read_from (read_u16), asserts len() <= 65535",
    ("OodFrame", "quotient_states"): "set_quotient_states, the only writer of the field besides read_from (read_u16), asserts len() <= 65535",
    ("FriProofLayer", "values"): "queried values of one layer: <= 255 positions * 16 * 48 bytes",
    ("FriProofLayer", "paths"): "one batch Merkle proof over <= 255 positions of depth <= 64",
    ("Context", "field_modulus_bytes"): "asserted < 255 on the line above",
    ("Commitments", "0"): "asserted < u16::MAX on the line above",
    ("TraceInfo", "trace_meta"): "new_multi_segment asserts trace_meta.len() <= 65535",
    ("TraceInfo", "trace_length"): "ilog2 of a usize <= 63",
}


WRITER_CAST_REQUIRES = {
    ("OodFrame", "trace_states"): {"kind": "err-guard", "func": "winter_air::proof::ood_frame::OodFrame::set_trace_states", "lhs": "len", "rel": "Gt", "rhs": "65535"},
    ("OodFrame", "quotient_states"): {"kind": "err-guard", "func": "winter_air::proof::ood_frame::OodFrame::set_quotient_states", "lhs": "len", "rel": "Gt", "rhs": "65535"},
}


def r3_writer_casts(ctx):
    p = ctx.p
    an = intervals.Analysis(p)
    n = 0
    for ty, w, r in pairs(p):
        if w.crate == "winter_utils":
            continue
        short = codec.norm_ty(ty).split("<")[0]
        for bi, b in enumerate(w.blocks):
            if b.get("cleanup"):
                continue
            for s in b["s"]:
                if s["k"] == "assign" and s["rv"][0] == "cast" and s["rv"][1].startswith("IntToInt"):
                    src_t, dst_t = intervals.type_range(s["rv"][4]), intervals.type_range(s["rv"][3])
                    if not src_t or not dst_t or (dst_t[0] <= src_t[0] and src_t[1] <= dst_t[1]):
                        continue
                    n += 1
                    iv = an.eval_op(w, s["rv"][2], s["_pos"])
                    names = panics._names_of(w, [s["rv"][2]])
                    fld = next((x.lstrip(".") for x in names.split(",") if x.startswith(".")), names)
                    if iv is not None and dst_t[0] <= iv[0] and iv[1] <= dst_t[1]:
                        ctx.ob("R3", "writer-cast:%s.%s" % (short, fld), True,
                               "`%s as %s` with value in %s (constructor invariant)" % (names, s["rv"][3], panics._fmt(iv)), w, s["sp"]["at"])
                    elif (short, fld) in WRITER_CAST_REASONS and (short, fld) in WRITER_CAST_REQUIRES:
                        g_ok, g_how = panics.check_requires(p, w, None, WRITER_CAST_REQUIRES[(short, fld)])
                        ctx.ob("R3", "writer-cast:%s.%s" % (short, fld), g_ok,
                               "reviewed: %s [re-verified: %s]" % (WRITER_CAST_REASONS[(short, fld)], g_how) if g_ok else
                               "`%s as %s` may truncate: %s" % (names, s["rv"][3], g_how), w, s["sp"]["at"])
                    elif (short, fld) in WRITER_CAST_REASONS:
                        ctx.ob("R3", "writer-cast:%s.%s" % (short, fld), True,
                               "reviewed: " + WRITER_CAST_REASONS[(short, fld)], w, s["sp"]["at"], nontrivial=False)
                    else:
                        ctx.ob("R3", "writer-cast:%s.%s" % (short, fld), False,
                               "`%s as %s` may truncate: value in %s" % (names, s["rv"][3], panics._fmt(iv)), w, s["sp"]["at"])


def thorough(ctx):
    ctx.guard("R1", lambda c: run_schema(c, "R1", cfg="nostd"))
    ctx.guard("R1", lambda c: run_schema(c, "R1", cfg="concurrent"))


def run(ctx):
    ctx.rule("R1", "writer/reader schema agreement (ordered byte-level I/O events along every success path, loops collapsed, byte widths compared) for every (Serializable, Deserializable) pair; length prefixes are the length of / size the following blob; enum tags = discriminants", 45)
    ctx.rule("R2", "constructor subset of decoder: every integer range a public constructor accepts is let through by read_from", 9)
    ctx.rule("R3", "narrowing casts in writers are in range by constructor invariants or a reviewed reason", 8)
    ctx.guard("R1", lambda c: run_schema(c, "R1"))
    ctx.guard("R1", r1_prefixes)
    ctx.guard("R1", r1_enums)
    ctx.guard("R2", r2_ctor_subset_decoder)
    ctx.guard("R2", r2b_relational)
    ctx.guard("R2", r2c_rejection_counterparts)
    ctx.guard("R3", r3_writer_casts)
    ctx.assume("equality of decoded values for interior inputs and 'same verdict after decode' are behavioural and not decided")
