def run(ctx):
    raise NotImplementedError
