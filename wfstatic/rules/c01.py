"""C01 — honest proofs verify (structural clause): producer/consumer limits agree, prover and
verifier hash rows under the same partition rule, and the extension-field dispatch tables agree."""
from .. import ir, dispatch, intervals, panics
from ..ir import AnchorLost, callee_of, op_local, op_const, op_place, is_call_to
from ..patterns import calls_to, arg_slice, slice_field_bases, closure_calls, cmp_sites, upvar_origins

HASH_ELEMENTS = "winter_crypto::hash::ElementHasher::hash_elements"
MERGE_MANY = "winter_crypto::hash::Hasher::merge_many"
PART_SIZE = "winter_air::options::PartitionOptions::partition_size"
NUM_PARTS = "winter_air::options::PartitionOptions::num_partitions"
COMMIT = "winter_prover::matrix::row_matrix::RowMatrix::<E>::commit_to_rows"
HASH_ROW = "winter_verifier::channel::hash_row"
VCH_NEW = "winter_verifier::channel::VerifierChannel::<E, H, V>::new"
VCH = "winter_verifier::channel::VerifierChannel::<E, H, V>::"
TABLE_FROM = "winter_air::proof::table::Table::<E>::from_bytes"
BUILD_PROOF = "winter_prover::channel::ProverChannel::<'a, A, E, H, R, V>::build_proof"


def names_in(f, sl):
    return {(callee_of(f.term(b)) or {}).get("name") for b in sl["calls"]}


def all_calls(p, f):
    """calls of f and of every closure nested in it: list of (func, bb, term)."""
    out = [(f, bi, t) for bi, t in f.calls() if not f.is_cleanup(bi)]
    for c in p.closures_of(f.key):
        out += [(c, bi, t) for bi, t in c.calls() if not c.is_cleanup(bi)]
    return out


# -- R1: producer / consumer limits ---------------------------------------------------------------

def r1_limits(ctx, cfg="default"):
    p = ctx.prog(cfg)
    an = intervals.Analysis(p)
    tb = p.fn(TABLE_FROM)
    rows = an.accepted_param_range(tb, 2)
    cols = an.accepted_param_range(tb, 3)
    if rows is None or cols is None:
        raise AnchorLost("Table::from_bytes: accepted ranges of num_rows / num_cols not derivable (guards gone?)")
    bp = p.fn(BUILD_PROOF)
    prod = an.accepted_param_range(bp, 5)
    if prod is None:
        raise AnchorLost("ProverChannel::build_proof: bound on num_query_positions not found")
    nq = an.field_interval("winter_air::options::ProofOptions", "num_queries")
    ctx.ob("R1", "unique-queries:producer<=consumer", prod[1] <= rows[1] and nq[1] <= rows[1] and rows[0] <= 1,
           "prover emits up to %d unique query positions (ProofOptions.num_queries in %s, build_proof accepts <= %d); Table::from_bytes accepts %s rows"
           % (min(prod[1], nq[1]), list(nq), prod[1], list(rows)) if prod[1] <= rows[1] and nq[1] <= rows[1] else
           "prover can emit %d unique queries but Table::from_bytes accepts only %s rows" % (min(prod[1], nq[1]), list(rows)), tb, cfg=cfg)
    for fld, lo in (("main_segment_width", 1), ("aux_segment_width", 1)):
        w = an.field_interval("winter_air::air::trace_info::TraceInfo", fld)
        ok = w[1] <= cols[1] and cols[0] <= max(lo, w[0])
        ctx.ob("R1", "%s:producer<=consumer" % fld, ok,
               "TraceInfo.%s in %s fits the %s columns Table::from_bytes accepts" % (fld, list(w), list(cols)) if ok else
               "TraceInfo.%s can be %d but Table::from_bytes accepts only %s columns" % (fld, w[1], list(cols)), tb, cfg=cfg)
    # the query count the verifier passes on is the proof's own byte (u8): always within the producer's bound
    vn = p.fn(VCH_NEW)
    zero = panics.check_requires(p, vn, None, {"kind": "err-guard", "func": VCH_NEW, "lhs": "num_unique_queries", "rel": "Eq", "rhs": "0"})
    ctx.ob("R1", "zero-queries-rejected-not-asserted", zero[0], zero[1], vn, cfg=cfg)


# -- R2: partition rule siblings -------------------------------------------------------------------

def partition_shape_prover(ctx, p, cfg):
    f = p.fn(COMMIT)
    calls = all_calls(p, f)
    ps = [(g, bi, t) for g, bi, t in calls if is_call_to(t, PART_SIZE)]
    if not ps:
        raise AnchorLost("commit_to_rows: partition_size call not found")
    g, bi, t = ps[0]
    targ = callee_of(t)["args"][-1]
    width_ok = "num_cols" in names_in(f, arg_slice(f, t, 1)) and 1 + 1 in arg_slice(f, t, 0)["args"] | {2} and 2 in arg_slice(f, t, 0)["args"]
    ctx.ob("R2", "prover:partition_size::<row element>(num_cols)", targ == "E" and width_ok,
           "commit_to_rows uses partition_options.partition_size::<E>(self.num_cols()) with E the matrix element type"
           if targ == "E" and width_ok else "commit_to_rows computes the partition size with type %s / a different width" % targ, f, t["sp"]["at"], cfg=cfg)
    psz = f.forward_locals([t["dest"][0]], through_calls=())
    # branch: partition_size == num_cols
    eq = None
    for s in cmp_sites(f):
        la, lb = op_local(s["a"]), op_local(s["b"])
        if s["op"] in ("Eq", "Ne") and ((la in psz and "num_cols" in names_in(f, f.slice_of_operand(s["b"], at=(s["bb"], f.INF)))) or
                                        (lb in psz and "num_cols" in names_in(f, f.slice_of_operand(s["a"], at=(s["bb"], f.INF))))):
            eq = s
    if eq is None:
        ctx.ob("R2", "prover:branch-on-partition_size==row-width", False, "commit_to_rows no longer branches on partition_size == num_cols()", f, cfg=cfg)
        return
    chk = f.bool_checks_of_local(eq["local"])[0]
    eq_edges = chk["true_edges"] if eq["op"] == "Eq" else chk["false_edges"]
    ne_edges = chk["false_edges"] if eq["op"] == "Eq" else chk["true_edges"]

    def region_closures(edges):
        blocks = f.reach([tg for _, tg in edges], cut_blocks=[tg for _, tg in (ne_edges if edges is eq_edges else eq_edges)])
        cl = set()
        for b in blocks:
            for s in f.stmts(b):
                if s["k"] == "assign" and s["rv"][0] == "agg" and s["rv"][1].get("k") == "closure":
                    cl.add(s["rv"][1]["def"])
        # nested closures
        todo = list(cl)
        while todo:
            k = todo.pop()
            for c in p.closures_of(k):
                if c.key not in cl:
                    cl.add(c.key)
                    todo.append(c.key)
        return cl
    eqc, nec = region_closures(eq_edges), region_closures(ne_edges)

    def calls_in(cls):
        out = []
        for k in cls:
            g = p.fn(k)     # private helpers called from the closure are spliced in
            out += [(g, bi, t) for bi, t in g.calls() if not g.is_cleanup(bi)]
        return out
    eq_calls, ne_calls = calls_in(eqc), calls_in(nec)
    eq_ok = any(is_call_to(t, HASH_ELEMENTS) for _, _, t in eq_calls) and not any(is_call_to(t, MERGE_MANY) for _, _, t in eq_calls) \
        and not any((callee_of(t) or {}).get("name") == "chunks" for _, _, t in eq_calls)
    ctx.ob("R2", "prover:equal-edge-hashes-whole-row", eq_ok,
           "partition_size == num_cols: row digest = hash_elements(row)" if eq_ok else "the equal edge does not hash the whole row with hash_elements", f, eq["at"], cfg=cfg)
    chunks = [(g, bi, t) for g, bi, t in ne_calls if (callee_of(t) or {}).get("name") == "chunks"]
    he = [x for x in ne_calls if is_call_to(x[2], HASH_ELEMENTS)]
    mm = [x for x in ne_calls if is_call_to(x[2], MERGE_MANY)]
    # chunk size = the captured partition_size
    cap_ok = False
    for g, bi, t in chunks:
        sl = arg_slice(g, t, 1)
        # the chunk size is a captured variable that resolves to the partition_size computed above
        for pf, locs in upvar_origins(p, g, sl):
            if pf.key == f.key and (locs & psz):
                cap_ok = True
    ne_ok = bool(chunks) and bool(he) and bool(mm) and cap_ok
    ctx.ob("R2", "prover:other-edge-merge_many-of-chunk-hashes", ne_ok,
           "otherwise: row digest = merge_many(hash_elements(chunk) for chunk in row.chunks(partition_size))" if ne_ok else
           "the unequal edge is not merge_many over hash_elements of chunks(partition_size)", f, eq["at"], cfg=cfg)
    # buffer length = num_partitions::<E>(num_cols)
    np_ = [(g, bi, t) for g, bi, t in calls if is_call_to(t, NUM_PARTS)]
    np_ok = bool(np_) and callee_of(np_[0][2])["args"][-1] == "E" and "num_cols" in names_in(f, arg_slice(f, np_[0][2], 1))
    ctx.ob("R2", "prover:buffer-length-num_partitions::<E>(num_cols)", np_ok,
           "chunk-digest buffer has num_partitions::<E>(num_cols) = ceil(num_cols / partition_size) entries" if np_ok else
           "chunk-digest buffer length is no longer num_partitions::<E>(num_cols)", f, cfg=cfg)
    # row index = batch_offset + i with the offset handed to the closure
    row_ok = True
    for k in eqc | nec:
        g = p.funcs[k]
        for bi, t in g.calls():
            if (callee_of(t) or {}).get("name") == "row" and not g.is_cleanup(bi):
                l0 = op_local(t["a"][1])
                good = False
                for x in (g.copy_chain(l0) if l0 is not None else ()):
                    for d in g.defs(x):
                        if d["kind"] == "assign" and d["rv"][0] == "bin" and d["rv"][1].startswith("Add"):
                            a, b = d["rv"][2], d["rv"][3]
                            params = set(range(2, g.argc + 1))
                            pa, pb = g.operand_is_copy_of(a, params), g.operand_is_copy_of(b, params)
                            if pa != pb:  # exactly one side is the offset parameter, the other the loop index
                                other = b if pa else a
                                osl = g.slice_of_operand(other, at=(d["bb"], d["si"]))
                                if "enumerate" in {(callee_of(g.term(bb)) or {}).get("name") for bb in osl["calls"]} or "next" in {(callee_of(g.term(bb)) or {}).get("name") for bb in osl["calls"]}:
                                    good = True
                if not good:
                    row_ok = False
    ctx.ob("R2", "prover:row-index-uses-batch-offset", row_ok,
           "rows are read at batch_offset + i with batch_offset the closure's offset parameter" if row_ok else
           "a row is hashed at an index that ignores the batch offset", f, cfg=cfg)
    # the digest vector handed to V::new is the one the closures fill, with num_rows() entries
    vn = [(bi, t) for bi, t in f.calls() if (callee_of(t) or {}).get("name") == "new" and (callee_of(t) or {}).get("trait", "").endswith("VectorCommitment")]
    uv = [(bi, t) for bi, t in f.calls() if (callee_of(t) or {}).get("name") == "uninit_vector"]
    vec_ok = bool(vn) and bool(uv) and uv[0][0] in arg_slice(f, vn[0][1], 0)["calls"] and "num_rows" in names_in(f, arg_slice(f, uv[0][1], 0))
    ctx.ob("R2", "prover:commitment-over-filled-digests", vec_ok,
           "V::new(row_hashes) commits to the num_rows() digests the loop filled" if vec_ok else "V::new is not applied to the filled row digest vector", f, cfg=cfg)


def partition_shape_verifier(ctx, p, cfg):
    h = p.fn(HASH_ROW)
    eq = None
    for s in cmp_sites(h):
        sa, sb = h.slice_of_operand(s["a"], at=(s["bb"], h.INF)), h.slice_of_operand(s["b"], at=(s["bb"], h.INF))
        if s["op"] in ("Eq", "Ne") and ((2 in sa["args"] and 1 in sb["args"]) or (2 in sb["args"] and 1 in sa["args"])):
            eq = s
    if eq is None:
        ctx.ob("R2", "verifier:branch-on-partition_size==row-width", False, "hash_row no longer branches on partition_size == row.len()", h, cfg=cfg)
        return
    chk = h.bool_checks_of_local(eq["local"])[0]
    eq_edges = chk["true_edges"] if eq["op"] == "Eq" else chk["false_edges"]
    ne_edges = chk["false_edges"] if eq["op"] == "Eq" else chk["true_edges"]
    eq_blocks = h.reach([tg for _, tg in eq_edges], cut_blocks=[tg for _, tg in ne_edges])
    ne_blocks = h.reach([tg for _, tg in ne_edges], cut_blocks=[tg for _, tg in eq_edges])
    he_eq = [b for b in eq_blocks if is_call_to(h.term(b), HASH_ELEMENTS) and b not in ne_blocks]
    eq_ok = bool(he_eq) and all(1 in arg_slice(h, h.term(b), 0)["args"] for b in he_eq) and \
        not any(is_call_to(h.term(b), MERGE_MANY) for b in eq_blocks - ne_blocks)
    ctx.ob("R2", "verifier:equal-edge-hashes-whole-row", eq_ok, "partition_size == row.len(): hash_elements(row)" if eq_ok else
           "hash_row's equal edge does not hash the whole row", h, eq["at"], cfg=cfg)
    only_ne = ne_blocks - eq_blocks
    ch = [b for b in only_ne if (callee_of(h.term(b)) or {}).get("name") == "chunks"]
    mm = [b for b in only_ne if is_call_to(h.term(b), MERGE_MANY)]
    cl = set()
    for b in only_ne:
        for s in h.stmts(b):
            if s["k"] == "assign" and s["rv"][0] == "agg" and s["rv"][1].get("k") == "closure":
                cl.add(s["rv"][1]["def"])
    he = closure_calls(p, cl, (HASH_ELEMENTS,))
    if not he:
        # plain loop over the chunks: hash_elements(chunk) called directly on the unequal edge
        for b in only_ne:
            if is_call_to(h.term(b), HASH_ELEMENTS):
                sl = arg_slice(h, h.term(b), 0)
                if ch and ch[0] in sl["calls"]:
                    he = [b]
    size_ok = bool(ch) and 2 in arg_slice(h, h.term(ch[0]), 1)["args"] and 1 in arg_slice(h, h.term(ch[0]), 0)["args"]
    dc = [b for b in only_ne if (callee_of(h.term(b)) or {}).get("name") == "div_ceil"]
    buf_ok = bool(dc) and 1 in arg_slice(h, h.term(dc[0]), 0)["args"] and 2 in arg_slice(h, h.term(dc[0]), 1)["args"]
    ne_ok = size_ok and bool(mm) and bool(he) and buf_ok
    ctx.ob("R2", "verifier:other-edge-merge_many-of-chunk-hashes", ne_ok,
           "otherwise: merge_many(hash_elements(chunk) for chunk in row.chunks(partition_size)) over a buffer of ceil(len / partition_size) digests"
           if ne_ok else "hash_row's unequal edge changed shape", h, eq["at"], cfg=cfg)
    # VerifierChannel::new: partition sizes per table
    vn = p.fn(VCH_NEW)
    agg = [s for b in vn.blocks if not b.get("cleanup") for s in b["s"] if s["k"] == "assign" and s["rv"][0] == "agg"
           and s["rv"][1].get("adt") == "winter_verifier::channel::VerifierChannel"]
    if not agg:
        raise AnchorLost("VerifierChannel::new: struct literal not found")
    fields = agg[0]["rv"][1]["fields"]
    want = {"partition_size_main": ("<E as winter_math::field::traits::FieldElement>::BaseField", "main_trace_width"),
            "partition_size_aux": ("E", "aux_segment_width"),
            "partition_size_constraint": ("E", "num_constraint_composition_columns")}
    for fld, (ty, width) in want.items():
        op = agg[0]["rv"][2][fields.index(fld)]
        sl = vn.slice_of_operand(op, at=agg[0]["_pos"])
        pcs = [b for b in sl["calls"] if is_call_to(vn.term(b), PART_SIZE)]
        ok = len(pcs) == 1 and callee_of(vn.term(pcs[0]))["args"][-1] == ty and width in names_in(vn, arg_slice(vn, vn.term(pcs[0]), 1)) \
            and "partition_options" in names_in(vn, arg_slice(vn, vn.term(pcs[0]), 0))
        ctx.ob("R2", "verifier:%s=partition_size::<%s>(%s)" % (fld, "BaseField" if "BaseField" in ty else ty, width), ok,
               "%s = options.partition_options().partition_size::<%s>(%s)" % (fld, ty.split("::")[-1], width) if ok else
               "%s is not computed with the element type / width of its table" % fld, vn, agg[0]["sp"]["at"], cfg=cfg)
    # readers: hash_row::<H, T>(row, self.<matching partition size>)
    readers = {("read_queried_trace_states", "main_states"): ("<E as winter_math::field::traits::FieldElement>::BaseField", "partition_size_main"),
               ("read_queried_trace_states", "aux_states"): ("E", "partition_size_aux"),
               ("read_constraint_evaluations", "evaluations"): ("E", "partition_size_constraint")}
    for (fn, table), (ty, fld) in readers.items():
        f = p.fn(VCH + fn)
        hit = False
        for bix, s in [(bix, s) for bix, b in enumerate(f.blocks) if not b.get("cleanup") for s in b["s"] if s["k"] == "assign" and s["rv"][0] == "agg" and s["rv"][1].get("k") == "closure"]:
            c = p.funcs.get(s["rv"][1]["def"])
            if not c:
                continue
            hr = [t for _, t in c.calls() if is_call_to(t, HASH_ROW)]
            if not hr:
                continue
            caps = set()
            for o in s["rv"][2]:
                caps |= set(slice_field_bases(f.slice_of_operand(o, at=s["_pos"])))
            # a `&self` method captures `*self` whole and projects the field inside the closure
            hr_bb = [b_ for b_, t_ in c.calls() if is_call_to(t_, HASH_ROW)][0]
            caps |= set(slice_field_bases(c.slice_of_operand(hr[0]["a"][1], at=(hr_bb, c.INF))))
            targ = callee_of(hr[0])["args"][-1]
            # a closure that lives in a spliced generic helper: instantiate the helper's type parameters
            sub = f.blocks[bix].get("subst") or {}
            targ = sub.get(targ, targ)
            if targ == ty and fld in caps:
                # is this closure mapped over rows of `table`?
                fw = f.forward_locals([s["p"][0]], through_calls=None)
                for bi, t in f.calls():
                    if (callee_of(t) or {}).get("name") == "map" and any(op_local(a) in fw for a in t["a"]):
                        rows = arg_slice(f, t, 0)
                        if table in slice_field_bases(rows) or any(table in ir.place_fields(pl) for pl in rows["places"]) or \
                                (table == "aux_states" and "aux_states" in {f.local_name(x) for x in rows["locals"]}):
                            hit = True
        ctx.ob("R2", "verifier:%s.%s-hashed-with-%s" % (fn, table, fld), hit,
               "rows of %s are hashed with hash_row::<H, %s>(row, self.%s)" % (table, ty.split("::")[-1], fld) if hit else
               "rows of %s are not hashed with hash_row::<H, %s>(row, self.%s)" % (table, ty.split("::")[-1], fld), f, cfg=cfg)


def r2_partition(ctx, cfg="default"):
    p = ctx.prog(cfg)
    partition_shape_prover(ctx, p, cfg)
    partition_shape_verifier(ctx, p, cfg)
    # callers of commit_to_rows pass the proof options' partition options
    cg = p.callgraph()
    callers = sorted(k for k, v in cg.items() if COMMIT in v)
    if len(callers) < 2:
        raise AnchorLost("expected >= 2 callers of RowMatrix::commit_to_rows, found %s" % callers)
    for k in callers:
        f = p.funcs[k]
        for bi, t in f.calls_to(COMMIT):
            sl = arg_slice(f, t, 1)
            ok = "partition_options" in names_in(f, sl) or any(f.local_name(a) in ("partition_options", "partition_option") for a in sl["args"])
            if not ok and f.raw.get("kind") == "Closure" and 1 in sl["locals"]:
                # captured from the enclosing function
                ok = any("partition_option" in c.get("place", "") for c in f.raw.get("captures", []))
            ctx.ob("R2", "prover-caller:%s" % k.split("::")[-2 if k.endswith("::new") else -1], ok,
                   "%s commits with the proof options' partition options" % k.split("::")[-3 if k.endswith("new") else -1] if ok else
                   "%s calls commit_to_rows with partition options not derived from the proof options" % k, f, t["sp"]["at"], cfg=cfg)
    col = [k for k in p.funcs if k.startswith("winter_prover::matrix::col_matrix::ColMatrix::<E>::commit_to_rows")]
    users = sorted(k for k, v in cg.items() if any(c in v for c in col) and not k.startswith("winter_prover::matrix::col_matrix::ColMatrix::<E>::commit_to_rows")) if col else []
    ctx.ob("R2", "ColMatrix::commit_to_rows-uncalled", not users,
           "ColMatrix::commit_to_rows (no partition parameter) has no caller in the workspace" if not users else
           "ColMatrix::commit_to_rows (which ignores partition options) is called by %s" % users, "winter_prover::matrix::col_matrix", cfg=cfg)


# -- R3: extension-field dispatch --------------------------------------------------------------------

def degree_table(p):
    f = p.fn("winter_air::options::FieldExtension::degree")
    out = {}
    for bi, b in enumerate(f.blocks):
        t = b["t"]
        if t["k"] == "switch" and len(t["arms"]) >= 2:
            for v, tg in t["arms"]:
                for rb in sorted(f.reach([tg], cut_blocks=[x for _, x in t["arms"] if x != tg])):
                    for s in f.stmts(rb):
                        if s["k"] == "assign" and s["p"] == [0] and s["rv"][0] == "use" and (op_const(s["rv"][1]) or {}).get("v"):
                            out.setdefault(int(v), int(op_const(s["rv"][1])["v"]))
    return out


def ext_kind(ty):
    if "CubeExtension" in ty:
        return 3
    if "QuadExtension" in ty:
        return 2
    return 1


def r3_dispatch(ctx, cfg="default"):
    p = ctx.prog(cfg)
    deg = degree_table(p)
    adt = p.adts["winter_air::options::FieldExtension"]
    discr = {int(v["discr"]): v["name"] for v in adt["variants"]}
    ctx.ob("R3", "FieldExtension::degree-table", {d: deg.get(d) for d in discr} == {1: 1, 2: 2, 3: 3} or
           sorted(deg.values()) == [1, 2, 3] and set(deg) == set(discr),
           "FieldExtension::degree maps %s" % {discr[d]: deg.get(d) for d in sorted(discr)}, "winter_air::options::FieldExtension::degree", cfg=cfg)
    sides = {}
    for key, callee_def, idx, label in (("winter_verifier::verify", "winter_verifier::perform_verification", 1, "verifier"),
                                        ("winter_prover::Prover::prove", "winter_prover::Prover::generate_proof", 1, "prover")):
        f = p.fn(key)
        tabs = [t for t in dispatch.tables(f) if callee_def in t["callees"]]
        if not tabs:
            ctx.ob("R3", "%s-dispatch-table" % label, False, "no dispatch on field_extension() into %s" % callee_def, f, cfg=cfg)
            continue
        t = tabs[0]
        m = {v: a[idx] for v, a in t["callees"][callee_def].items()}
        sides[label] = {v: ext_kind(ty) for v, ty in m.items()}
        ok = set(m) == set(discr) and all(ext_kind(ty) == deg.get(v) for v, ty in m.items())
        sel_ok = "field_extension" in names_in(f, f.slice_of_operand(t["sel"], at=(t["bb"], f.INF)))
        ctx.ob("R3", "%s-dispatch-table" % label, ok and sel_ok,
               "%s: %s" % (label, ", ".join("%s -> %s" % (discr[v], ty.split("::")[-1].split("<")[0] if ext_kind(ty) > 1 else "BaseField") for v, ty in sorted(m.items())))
               if ok and sel_ok else "%s dispatch maps %s (degrees %s)" % (label, m, deg), f, t["at"], cfg=cfg)
        # is_supported guard on the same type, payload = degree
        for v, arm in t["arms"].items():
            if deg.get(v, 1) == 1:
                continue
            sup = [(d, lst) for d, lst in arm["calls"].items() if d.endswith("::is_supported")]
            good = False
            for d, lst in sup:
                for args, rb, tt in lst:
                    if ext_kind(d) == deg[v] or any(ext_kind(a) == deg[v] for a in args) or ext_kind(callee_of(tt)["full"]) == deg[v]:
                        for c in f.bool_checks_of(rb):
                            # false edge must not reach the generic call of this arm
                            gen_blocks = [x[1] for x in arm["calls"].get(callee_def, [])]
                            if c["false_edges"] and all(not f.can_reach(tg, gen_blocks) for _, tg in c["false_edges"]):
                                good = True
            ctx.ob("R3", "%s-%s-is_supported-guard" % (label, discr[v]), good,
                   "the %s arm is entered only if the same extension type reports is_supported()" % discr[v] if good else
                   "the %s arm is not guarded by is_supported() of its own extension type" % discr[v], f, t["at"], cfg=cfg)
    if len(sides) == 2:
        ctx.ob("R3", "prover-verifier-tables-agree", sides["prover"] == sides["verifier"],
               "prover and verifier map every FieldExtension variant to the same extension degree" if sides["prover"] == sides["verifier"] else
               "prover %s vs verifier %s" % (sides["prover"], sides["verifier"]), "winter_prover::Prover::prove", cfg=cfg)


def run(ctx):
    ctx.rule("R1", "producer <= consumer limits: unique query count and segment widths the prover can emit fit Table::from_bytes; a zero count is rejected with an error", 4)
    ctx.rule("R2", "partition-hash agreement: RowMatrix::commit_to_rows and verifier hash_row take partition_size::<row element type>(row width), branch on equality with the row width, hash the whole row on the equal edge and merge_many(chunk hashes) otherwise; every table is hashed with its own partition size", 17)
    ctx.rule("R3", "extension-field dispatch: prover and verifier map each FieldExtension variant to the extension type of the matching degree behind that type's is_supported()", 8)
    ctx.guard("R1", r1_limits)
    ctx.guard("R2", r2_partition)
    ctx.guard("R3", r3_dispatch)
    if ctx.tier == "thorough":
        ctx.guard("R2", r2_partition, cfg="concurrent")
        ctx.guard("R3", r3_dispatch, cfg="concurrent")
    ctx.assume("that the prover's numbers satisfy the verifier's equations is value-level and not decided")
