"""C04 — tampered proof bytes are rejected unless semantically identical (liveness / length clause):
no parsed proof content is dead or silently truncated on the accepting path."""
from .. import ir, intervals, panics
from ..ir import AnchorLost, callee_of, op_local, op_place, is_call_to
from ..patterns import arg_slice, slice_field_bases
from . import c24

VERIFY = "winter_verifier::verify"
STRUCTS = ["winter_air::proof::Proof", "winter_air::proof::context::Context", "winter_air::air::trace_info::TraceInfo",
           "winter_air::options::ProofOptions", "winter_air::options::PartitionOptions", "winter_fri::proof::FriProof",
           "winter_fri::proof::FriProofLayer", "winter_air::proof::queries::Queries", "winter_air::proof::ood_frame::OodFrame",
           "winter_air::proof::commitments::Commitments", "winter_crypto::merkle::proofs::BatchMerkleProof"]
SKIP_TRAITS = ("core::clone::Clone", "core::fmt::Debug", "core::cmp::PartialEq", "core::cmp::Eq", "winter_utils::serde::Serializable",
               "core::fmt::Display", "core::hash::Hash")
VCH_NEW = "winter_verifier::channel::VerifierChannel::<E, H, V>::new"


def r1_liveness(ctx):
    p = ctx.p
    an = intervals.Analysis(p)
    reach = p.reachable_from([VERIFY], stop=lambda k: k not in p.funcs or p.funcs[k].crate in ("examples", "winter_prover"))
    read = {}
    sites = {}
    ctx.c04_sites = sites
    for k in reach:
        f = p.funcs.get(k)
        if f is None or f.raw.get("impl_trait") in SKIP_TRAITS or f.crate == "examples":
            continue
        for bi, b in enumerate(f.blocks):
            if b.get("cleanup"):
                continue
            places = []
            for s in b["s"]:
                if s["k"] == "assign":
                    for src in ir.rv_operands(s["rv"]):
                        pl = op_place(src) if src[0] in ("cp", "mv") else (src[1] if src[0] == "pl" else None)
                        if pl and len(pl) > 1:
                            places.append((pl, s))
            t = b["t"]
            if t["k"] == "call":
                for a in t["a"]:
                    pl = op_place(a)
                    if pl and len(pl) > 1:
                        places.append((pl, None))
            for pl, st in places:
                # every field projection prefix
                for i, e in enumerate(pl[1:], start=1):
                    if isinstance(e, str) and e.startswith("."):
                        owner = an._owner_adt(f, pl[:i + 1])
                        name = e.split(":", 1)[1]
                        if owner and name:
                            # a move into a local that is never used again is not a read
                            if st is not None and st["rv"][0] == "use" and len(st["p"]) == 1 and i == len(pl) - 1:
                                tgt = st["p"][0]
                                if not [u for u in f.uses(tgt)] and tgt != 0:
                                    continue
                            read.setdefault((owner, name), k)
                            sites.setdefault((owner, name), []).append((k, bi))
    n = 0
    for adt_key in STRUCTS:
        adt = p.adts.get(adt_key)
        if not adt:
            raise AnchorLost("struct %s not found" % adt_key)
        for fd in adt["variants"][0]["fields"]:
            if fd["ty"].startswith("core::marker::PhantomData"):
                continue
            n += 1
            k = (adt_key, fd["name"])
            ctx.ob("R1", "field-live:%s.%s" % (adt_key.split("::")[-1], fd["name"]), k in read,
                   "read on the verification path (e.g. in %s)" % read[k].split("::")[-1] if k in read else
                   "field is parsed but never read in any function reachable from verify(): tampering with it cannot be noticed",
                   adt_key, adt["at"])
    # destructuring with `..` in the verifier: every field of Proof is bound in VerifierChannel::new
    vn = p.fn(VCH_NEW)
    moved = set()
    for b in vn.blocks:
        for s in b["s"]:
            if s["k"] == "assign" and s["rv"][0] == "use":
                pl = op_place(s["rv"][1])
                if pl and pl[0] == 2 and len(pl) == 2 and pl[1].startswith("."):
                    moved.add(pl[1].split(":", 1)[1])
    fields = {fd["name"] for fd in p.adts["winter_air::proof::Proof"]["variants"][0]["fields"]}
    ctx.ob("R1", "Proof-fully-destructured", fields <= moved | {"context"} or fields <= moved,
           "VerifierChannel::new binds every field of Proof (%d fields)" % len(fields) if fields <= moved | {"context"} else
           "VerifierChannel::new ignores Proof fields %s" % sorted(fields - moved), vn)


def r2_narrowing(ctx):
    sub = type(ctx)(ctx.prop, ctx.tier, ctx.repo)
    sub._progs = ctx._progs
    c24.r3_narrowing(sub)
    for o in sub.obligations:
        if "num_constraints" in o["instance"] or "length" in o["instance"]:
            ctx.ob("R2", o["instance"], o["verdict"] == "discharged", o["how"], o["function"], o["site"])


def _rejecting_calls(f, name):
    oks = f.ok_exit_blocks()
    n = 0
    for bi, t in f.calls_named(name):
        if f.is_cleanup(bi):
            continue
        for c in f.bool_checks_of(bi):
            if c["true_edges"] and all(not f.can_reach(tg, oks) for _, tg in c["true_edges"]):
                n += 1
                break
    return n


def r3_lengths(ctx):
    p = ctx.p
    vn = p.fn(VCH_NEW)
    g = panics.check_requires(p, vn, None, {"kind": "err-guard", "func": VCH_NEW, "lhs": "fri_layer_proofs", "rel": "Ne", "rhs": "num_fri_layers"})
    ctx.ob("R3", "fri-layer-count-checked", g[0],
           "the number of FRI layers in the proof is compared with options.num_fri_layers(lde_domain_size): " + g[1] if g[0] else
           "nothing compares the number of FRI layers carried by the proof with the number implied by the options (%s)" % g[1], vn)
    pr = p.fn("<winter_air::proof::Proof as winter_utils::serde::Deserializable>::read_from")
    rm = [(bi, t) for bi, t in pr.calls() if (callee_of(t) or {}).get("name") == "read_many"]
    ok = bool(rm) and "num_segments" in {(callee_of(pr.term(b)) or {}).get("name") for b in arg_slice(pr, rm[0][1], 1)["calls"]}
    if not ok:
        from .c03 import for_loops
        for L in for_loops(pr):
            src = pr.backward_slice([L["iter_local"]], at=(L["header"], 0))
            names = {(callee_of(pr.term(b)) or {}).get("name") for b in src["calls"]}
            body_reads = [b for b in L["body"] if (callee_of(pr.term(b)) or {}).get("name") == "read_from"
                          and "Queries" in ((callee_of(pr.term(b)) or {}).get("full") or "")]
            body_push = [b for b in L["body"] if (callee_of(pr.term(b)) or {}).get("name") == "push"]
            if "num_segments" in names and body_reads and body_push:
                ok = True
    if not ok:
        # `(0..num_segments).map(|_| Queries::read_from(source)).collect::<Result<Vec<_>, _>>()?`
        for bi, t in pr.calls():
            c = callee_of(t)
            if pr.is_cleanup(bi) or not c or c.get("name") != "map" or len(t["a"]) != 2:
                continue
            rs = pr.slice_of_operand(t["a"][0], at=(bi, pr.INF))
            names = {(callee_of(pr.term(b)) or {}).get("name") for b in rs["calls"]}
            cls = pr.slice_of_operand(t["a"][1], at=(bi, pr.INF))["closures"]
            reads = any((callee_of(t2) or {}).get("name") == "read_from" and "Queries" in ((callee_of(t2) or {}).get("full") or "")
                        for ck in cls if ck in p.funcs for _, t2 in p.funcs[ck].calls())
            if "num_segments" in names and reads:
                ok = True
    ctx.ob("R3", "trace-query-sets=num_segments", ok,
           "Proof::read_from reads exactly context.trace_info().num_segments() trace query sets" if ok else
           "the number of trace query sets is not tied to trace_info().num_segments()", pr)
    q = p.fn("winter_air::proof::queries::Queries::parse")
    g = panics.check_requires(p, q, None, {"kind": "err-guard", "func": q.key, "lhs": "values", "rel": "Ne", "rhs": "expected_bytes"})
    ctx.ob("R3", "query-bytes-exact", g[0], "Queries::parse: values.len() != num_queries * values_per_query * ELEMENT_BYTES -> Err (%s)" % g[1], q)
    exact = {
        "winter_air::proof::commitments::Commitments::parse": 1,
        "winter_air::proof::queries::Queries::parse": 1,
        "winter_air::proof::ood_frame::OodFrame::parse": 2,
        "winter_fri::proof::FriProofLayer::parse": 2,
        "winter_fri::proof::FriProof::parse_remainder": 1,
    }
    for key, want in exact.items():
        f = p.fn(key)
        n = _rejecting_calls(f, "has_more_bytes")
        ctx.ob("R3", "no-leftover:%s" % key.split("::")[-2], n >= want,
               "%d inner blob parse(s) end in has_more_bytes() -> Err(UnconsumedBytes)" % n if n >= want else
               "expected %d has_more_bytes -> Err checks, found %d" % (want, n), f)
    # the number of decoded query rows is tied to the number of drawn positions: rows are hashed
    # into the leaf list of verify_many, whose root reconstruction rejects a different leaf count
    from .c19 import leaf_count, nodes_consumed
    nc, nhow = nodes_consumed(p)
    ctx.ob("R3", "opening-nodes-all-consumed", nc, nhow, p.fn("winter_crypto::merkle::proofs::BatchMerkleProof::<H>::get_root"))
    cnt, chow = leaf_count(p, "get_root")
    ctx.ob("R3", "query-rows=positions", cnt, chow, p.fn("winter_crypto::merkle::proofs::BatchMerkleProof::<H>::get_root"))
    # domain length of every opening proof is compared with the expected domain
    for key in ("winter_air::proof::queries::Queries::parse", "winter_fri::proof::FriProof::parse_layers"):
        f = p.fn(key)
        g = panics.check_requires(p, f, None, {"kind": "err-guard", "func": key, "lhs": "get_multiproof_domain_len", "rel": "Ne", "rhs": "domain_size"})
        ctx.ob("R3", "opening-domain-checked:%s" % key.split("::")[-2], g[0], g[1], f)


def r4_conditional_liveness(ctx):
    """a proof-carried option that is not absorbed into the public-coin seed is noticed only where the
    verifier reads it: if every read sits behind a branch on another proof-carried field, then for
    the other branch outcome the field is dead and its byte can be changed freely."""
    p = ctx.p
    sites = getattr(ctx, "c04_sites", None)
    if sites is None:
        raise AnchorLost("R1 read sites not collected")
    an = intervals.Analysis(p)
    te = [k for k in p.funcs if k.startswith("<winter_air::options::ProofOptions as winter_math::field::traits::ToElements<")]
    if not te:
        raise AnchorLost("ProofOptions::to_elements not found")
    tf = p.funcs[te[0]]
    absorbed = set()
    for rb in tf.return_blocks():
        sl = tf.backward_slice([0], at=(rb, tf.INF))
        for pl in sl["places"]:
            absorbed |= set(ir.place_fields(pl))
    n = 0
    for adt_key in ("winter_air::options::ProofOptions", "winter_air::options::PartitionOptions"):
        adt = p.adts[adt_key]
        for fd in adt["variants"][0]["fields"]:
            name = fd["name"]
            if name in absorbed or fd["ty"] in STRUCTS:
                continue
            n += 1
            ss = sites.get((adt_key, name), [])
            uncond, cond_why = False, ""
            for k, bb in ss:
                f = p.funcs[k]
                blockers = []
                for si, b in enumerate(f.blocks):
                    t = b["t"]
                    if b.get("cleanup") or t["k"] != "switch" or si == bb or bb not in f.reach([si]):
                        continue
                    dsl = f.slice_of_operand(t["d"], at=(si, f.INF)) if op_local(t["d"]) is not None else None
                    if not dsl:
                        continue
                    others = {x for pl in dsl["places"] for x in ir.place_fields(pl)} - {name}
                    owners = {an._owner_adt(f, pl[:i + 1]) for pl in dsl["places"] for i, e in enumerate(pl[1:], start=1)
                              if isinstance(e, str) and e.startswith(".")}
                    if not others or not (owners & set(STRUCTS)):
                        continue
                    for tg, lab in f.succ(si):
                        if f.can_reach(tg, f.return_blocks(), cut_blocks=[bb]):
                            blockers.append("%s: branch on %s at %s skips the read" % (k.split("::")[-1], sorted(others), ir.line_of(t["sp"]["at"])))
                            break
                if not blockers:
                    uncond = True
                    break
                cond_why = blockers[0]
            ctx.ob("R4", "field-unconditionally-live:%s.%s" % (adt_key.split("::")[-1], name), uncond,
                   "not absorbed into the seed, but read unconditionally on the verification path" if uncond else
                   "not absorbed into the seed and only read conditionally (%s): for the other branch outcome the field is dead and can be tampered with" % (cond_why or "no read site"),
                   adt_key, adt["at"])
    if n < 3:
        raise AnchorLost("expected >= 3 option fields outside the seed (batching methods, partition options), found %d" % n)


def run(ctx):
    ctx.rule("R1", "every field of Proof, Context, TraceInfo, ProofOptions, PartitionOptions, FriProof, FriProofLayer, Queries, OodFrame, Commitments, BatchMerkleProof is read in a function reachable from verify (not merely moved and dropped)", 35)
    ctx.rule("R2", "no parsed integer is narrowed before its sink unless bounded on every construction path of its owner", 2)
    ctx.rule("R3", "collections consumed one by one have their length compared with the count the options imply; inner blobs are parsed to exact length; opening-proof domains are compared with the expected domain; the row count of a query table is tied to the position count by the leaf-count check of get_root; every node of an opening proof is consumed", 12)
    ctx.guard("R1", r1_liveness)
    ctx.guard("R2", r2_narrowing)
    ctx.guard("R3", r3_lengths)
    ctx.rule("R4", "every proof-carried option outside the public-coin seed has a read on the verification path that is not behind a branch on another proof-carried field", 3)
    ctx.guard("R4", r4_conditional_liveness)
    ctx.assume("that the remaining checks reject every altered *value* is behavioural (C02/C03/C09 decide that the checks are in place, not their strength)")
