"""C06 — proof bytes are independent of threading and build features (schedule clause), decided on
the MIR of the `concurrent` build."""
import hashlib, json
from .. import ir, effects
from ..ir import AnchorLost, callee_of, op_local, op_place, op_const
from ..patterns import arg_slice, slice_field_bases, upvar_origins

CFG = "concurrent"
ENTRIES = ["winter_prover::Prover::prove", "winter_prover::Prover::generate_proof",
           "winter_prover::trace::trace_table::TraceTable::<B>::fragments",
           "winter_prover::trace::trace_table::TraceTable::<B>::build_fragments"]
GRIND = "winter_prover::channel::ProverChannel::<'a, A, E, H, R, V>::grind_query_seed"

ORDER_PRESERVING = {
    "par_iter", "par_iter_mut", "into_par_iter", "par_chunks", "par_chunks_mut", "par_chunks_exact", "par_chunks_exact_mut",
    "zip", "enumerate", "map", "with_min_len", "with_max_len", "for_each", "scope", "spawn", "current_num_threads",
    "collect", "chunks", "copied", "cloned", "rev", "skip", "take", "step_by", "join", "len", "into_iter", "next", "drive",
    "drive_unindexed", "with_producer", "opt_len", "in_place_scope", "collect_into_vec", "unzip",
}
SCHEDULE_DEPENDENT = {
    "find_any", "find_map_any", "position_any", "any", "all", "try_for_each", "try_for_each_with", "try_for_each_init",
    "try_fold", "try_fold_with", "try_reduce", "try_reduce_with", "while_some", "reduce", "reduce_with", "fold", "fold_with",
    "sum", "product", "min_by", "max_by", "min_by_key", "max_by_key", "find_first", "find_last", "collect_into_hash",
    "for_each_with", "for_each_init", "map_with", "map_init", "par_bridge", "panic_fuse", "min", "max",
}
FROZEN_PARALLEL_WRITES = {
    # closure-defining function -> reason (index-disjointness argued by hand, stated as an assumption)
    "winter_math::fft::concurrent::permute": "each spawned task swaps values[i] with values[permute_index(i)] for i in its own batch only when i < j; every pair is touched by exactly one task",
    "winter_prover::matrix::segments::concurrent::permute": "same pair-swap scheme as math::fft::concurrent::permute over whole rows",
    "winter_crypto::merkle::concurrent::build_merkle_nodes": "each spawned task writes nodes[] of its own subtree index range [batch_start, batch_end)",
}


def is_rayon(c):
    return bool(c) and (c["krate"] in ("rayon", "rayon_core") or "rayon::" in c["def"] or "rayon::" in (c.get("trait") or "")
                        or "rayon::" in (c.get("rdef") or ""))


def workspace_funcs(p):
    return {k: f for k, f in p.funcs.items() if f.crate not in ("examples", "winter_rand_utils", "winter_maybe_async")}


def r1_ambient(ctx):
    p = ctx.prog(CFG)
    for e in ENTRIES:
        p.fn(e)
    reach = p.reachable_from(ENTRIES, stop=lambda k: p.funcs[k].crate in ("examples",) if k in p.funcs else True)
    amb = effects.ambient_calls(p, [k for k in reach if p.funcs[k].crate != "examples"])
    # the unsafe parallel re-borrows cast pointers, but never to integers; any pointer-to-int cast is reported
    ctx.ob("R1", "no-ambient-input", not amb,
           "none of the %d functions reachable from Prover::prove / generate_proof / TraceTable::fragments (concurrent build) reads time, randomness, environment, thread identity, hash-map order, atomics/locks or pointer addresses"
           % len(reach) if not amb else "ambient inputs reachable from the prover: %s" % amb[:6], "winter_prover::Prover::prove", cfg=CFG)


def r2_combinators(ctx):
    p = ctx.prog(CFG)
    n = 0
    bad = []
    sched = []
    for k, f in sorted(workspace_funcs(p).items()):
        for bi, t in f.calls():
            c = callee_of(t)
            if not is_rayon(c) or f.is_cleanup(bi):
                continue
            n += 1
            name = c.get("name")
            if name in SCHEDULE_DEPENDENT:
                sched.append((k, bi, t, name))
            elif name == "collect":
                dty = f.local_ty(t["dest"][0]) if t.get("dest") else ""
                if not dty.startswith("alloc::vec::Vec"):
                    bad.append("%s: collect into %s" % (k, dty))
            elif name not in ORDER_PRESERVING:
                bad.append("%s: unclassified rayon call %s" % (k, name))
    ctx.ob("R2", "only-order-preserving-combinators", not bad,
           "%d rayon calls in the workspace: all indexed / order-preserving (par_iter*, par_chunks*, zip, enumerate, map, for_each, indexed collect into Vec, scope/spawn)"
           % n if not bad else "rayon calls that are not known to be order-preserving: %s" % bad[:5], "workspace", cfg=CFG)
    ok = len(sched) == 1 and sched[0][0] == GRIND and sched[0][3] == "find_any"
    how = "the only schedule-dependent combinator is find_any in ProverChannel::grind_query_seed"
    if ok:
        k, bi, t, name = sched[0]
        f = p.funcs[k]
        # its result flows only into self.pow_nonce
        fw = f.forward_locals([t["dest"][0]], through_calls={"core::option::Option::<T>::expect", "core::option::Option::<T>::unwrap"})
        writes = [s for b in f.blocks if not b.get("cleanup") for s in b["s"] if s["k"] == "assign" and len(s["p"]) > 1 and
                  any(op_local(o) in fw for o in ir.rv_operands(s["rv"]) if o[0] in ("cp", "mv"))]
        fields = {tuple(ir.place_fields(s["p"])) for s in writes}
        other_uses = [u for l in fw for u in f.uses(l) if u["kind"] == "call" and not ir.is_call_to(
            u["term"], "core::option::Option::<T>::expect", "core::option::Option::<T>::unwrap")]
        ok = fields == {("pow_nonce",)} and not other_uses
        how += "; its result flows only into self.pow_nonce (the freedom the property grants)" if ok else \
            "; but its result flows into %s / %d other calls" % (sorted(fields), len(other_uses))
    else:
        how = "schedule-dependent rayon combinators: %s" % [(k.split("::")[-1], nm) for k, _, _, nm in sched]
    ctx.ob("R2", "schedule-dependence-confined-to-nonce-search", ok, how, GRIND, cfg=CFG)


def parallel_closures(p):
    """(defining function key, rayon callee name, closure Func) for closures handed to rayon calls."""
    out = []
    for k, f in sorted(workspace_funcs(p).items()):
        for bi, t in f.calls():
            c = callee_of(t)
            if not is_rayon(c) or f.is_cleanup(bi):
                continue
            for a in t["a"]:
                if op_local(a) is None:
                    continue
                sl = f.slice_of_operand(a, at=(bi, f.INF))
                for cl in sl["closures"]:
                    cf = p.funcs.get(cl)
                    if cf:
                        out.append((k, c.get("name"), cf))
    return out


def r3_parallel_writes(ctx):
    p = ctx.prog(CFG)
    pcs = parallel_closures(p)
    if len(pcs) < 20:
        raise AnchorLost("expected >= 20 closures handed to rayon combinators, found %d" % len(pcs))
    seen = set()
    frozen_hit = set()
    for k, name, cf in pcs:
        if cf.key in seen:
            continue
        seen.add(cf.key)
        caps = [x for x in cf.raw.get("captures", []) if "Mut" in x["kind"] or "Unique" in x["kind"] or
                x["ty"].startswith(("&mut", "*mut")) or "Cell" in x["ty"] or "Mutex" in x["ty"] or "Atomic" in x["ty"]]
        root = cf.raw.get("root", k)
        if not caps:
            ctx.ob("R3", "closure-writes-own-item-only", True,
                   "closure passed to rayon %s captures nothing mutable: it can write only through its item parameter" % name, cf, cfg=CFG)
        elif root in FROZEN_PARALLEL_WRITES:
            frozen_hit.add(root)
            ctx.ob("R3", "frozen-unsafe-reborrow", True,
                   "captures %s (unsafe re-borrow); disjointness reviewed: %s" % ([x["place"] for x in caps], FROZEN_PARALLEL_WRITES[root]),
                   cf, nontrivial=False, cfg=CFG)
            ctx.assume("parallel tasks in %s write disjoint indices (%s)" % (root.split("::")[-2] + "::" + root.split("::")[-1], FROZEN_PARALLEL_WRITES[root]))
        else:
            ctx.ob("R3", "closure-writes-own-item-only", False,
                   "closure passed to rayon %s captures shared mutable state %s" % (name, [(x["place"], x["ty"][:40]) for x in caps]), cf, cfg=CFG)
    if frozen_hit != set(FROZEN_PARALLEL_WRITES):
        ctx.note("frozen parallel re-borrows no longer present: %s" % sorted(set(FROZEN_PARALLEL_WRITES) - frozen_hit))


def r4_thread_count(ctx):
    p = ctx.prog(CFG)
    n = 0
    for k, f in sorted(workspace_funcs(p).items()):
        cs = [(bi, t) for bi, t in f.calls() if (callee_of(t) or {}).get("name") in ("par_chunks_mut", "par_chunks")
              and is_rayon(callee_of(t)) and not f.is_cleanup(bi)]
        for bi, t in cs:
            size_op = t["a"][1]
            size_chain = f.copy_chain(op_local(size_op)) if op_local(size_op) is not None else set()
            # closures consuming this iterator chain
            fw = f.forward_locals([t["dest"][0]], through_calls=None)
            consumers = [(b2, t2) for b2, t2 in f.calls() if is_rayon(callee_of(t2)) and (callee_of(t2) or {}).get("name") == "for_each"
                         and any(op_local(a) in fw for a in t2["a"])]
            for b2, t2 in consumers:
                for a in t2["a"]:
                    if op_local(a) is None:
                        continue
                    for cl in f.slice_of_operand(a, at=(b2, f.INF))["closures"]:
                        cf = p.funcs.get(cl)
                        if not cf:
                            continue
                        # multiplications index * <captured> inside the closure (and closures it calls are separate)
                        muls = [s for b in cf.blocks if not b.get("cleanup") for s in b["s"] if s["k"] == "assign" and
                                s["rv"][0] == "bin" and s["rv"][1].startswith("Mul")]
                        for s in muls:
                            for x, y in ((s["rv"][2], s["rv"][3]), (s["rv"][3], s["rv"][2])):
                                xs = cf.slice_of_operand(x, at=s["_pos"])
                                ys = cf.slice_of_operand(y, at=s["_pos"])
                                is_index = 2 in xs["args"] and any(isinstance(e, str) and e.startswith(".0") for pl in xs["places"] for e in pl[1:])
                                from_env = any(pl[0] == 1 for pl in ys["places"])
                                if is_index and from_env:
                                    n += 1
                                    origins = upvar_origins(p, cf, ys)
                                    # the multiplier is the chunk size itself, or the chunk size is computed from it
                                    size_slice = f.slice_of_operand(size_op, at=(bi, f.INF))["locals"] | size_chain
                                    mult_roots = set()
                                    for pf, locs in origins:
                                        if pf.key == f.key:
                                            for l in locs:
                                                mult_roots |= f.copy_chain(l)
                                    same = bool((mult_roots & size_slice) - {0})
                                    ctx.ob("R4", "chunk-offset-uses-chunk-size", same,
                                           "offset = chunk index * the same value that sizes %s" % callee_of(t)["name"] if same else
                                           "offset inside the parallel closure is chunk index times a value other than the chunk size passed to %s" % callee_of(t)["name"],
                                           cf, s["sp"]["at"], cfg=CFG)
    if n < 4:
        raise AnchorLost("expected >= 4 chunk-offset computations in parallel closures, found %d" % n)
    # every use of current_num_threads flows only into sizes / batch counts (never into data)
    bad = []
    m = 0
    for k, f in sorted(workspace_funcs(p).items()):
        for bi, t in f.calls():
            c = callee_of(t)
            if c and c.get("name") == "current_num_threads" and not f.is_cleanup(bi):
                m += 1
                fw = f.forward_locals([t["dest"][0]], through_calls=None)
                for l in fw:
                    for u in f.uses(l):
                        if u["kind"] == "call" and any(op_place(a) and op_place(a)[0] == l and len(op_place(a)) == 1 for a in u["term"]["a"]):
                            nm = (callee_of(u["term"]) or {}).get("name")
                            if nm in ("push", "write_u8", "write_u64", "write_usize", "from", "hash", "hash_elements", "merge", "write_into"):
                                bad.append("%s -> %s" % (k.split("::")[-1], nm))
    ctx.ob("R4", "thread-count-only-sizes-batches", not bad and m >= 5,
           "%d uses of rayon::current_num_threads: the value reaches only batch sizes / counts, never hashed, stored or serialised data" % m
           if not bad else "the thread count flows into data: %s" % bad, "workspace", cfg=CFG)


def _mir_digest(f):
    def strip(o):
        if isinstance(o, dict):
            return {k: strip(v) for k, v in o.items() if k not in ("sp", "fsp", "at", "_bb", "_pos")}
        if isinstance(o, list):
            return [strip(x) for x in o]
        return o
    return hashlib.sha256(json.dumps(strip(f.blocks), sort_keys=True).encode()).hexdigest()


def r5_cfg_dependent(ctx):
    pd, pc = ctx.prog("default"), ctx.prog(CFG)
    diff = []
    for k, f in workspace_funcs(pc).items():
        g = pd.funcs.get(k)
        if g is None:
            diff.append(k)
        elif _mir_digest(f) != _mir_digest(g):
            diff.append(k)
    roots = sorted({k.split("::{closure")[0] for k in diff})
    ctx.note("functions whose MIR differs between the default and the concurrent build (%d roots): %s" % (len(roots), roots))
    # every cfg-dependent function must itself contain a rayon call / thread-count use, a call to a
    # *::concurrent::* sibling, or be one of those siblings: i.e. be covered by R2-R4
    uncovered = []
    for r in roots:
        fs = [pc.funcs[k] for k in diff if k.split("::{closure")[0] == r and k in pc.funcs]
        covered = "::concurrent::" in r
        for f in fs:
            for bi, t in f.calls():
                c = callee_of(t)
                if is_rayon(c) or (c and "::concurrent::" in c["def"]) or (c and c.get("name") == "rayon_num_threads"):
                    covered = True
        if not covered:
            uncovered.append(r)
    ctx.ob("R5", "cfg-dependent-code-is-covered", not uncovered,
           "all %d cfg-dependent functions are parallel-combinator code covered by R2-R4 (or the concurrent sibling modules they dispatch to)" % len(roots)
           if not uncovered else "functions that differ between the builds without any rayon construct (unreviewed cfg-dependent logic): %s" % uncovered,
           "workspace", cfg=CFG)


def r6_fragments(ctx):
    p = ctx.prog(CFG)
    f = p.fn("winter_prover::trace::trace_table::TraceTable::<B>::build_fragments")
    cls = p.closures_of(f.key)
    chunk = None
    offs = None
    for cf in [f] + list(cls):
        for bi, t in cf.calls():
            if (callee_of(t) or {}).get("name") == "chunks_mut" and not cf.is_cleanup(bi):
                chunk = (cf, t)
    for cf in cls:
        for b in cf.blocks:
            for s in b["s"]:
                if s["k"] == "assign" and s["rv"][0] == "bin" and s["rv"][1].startswith("Mul") and not b.get("cleanup"):
                    offs = (cf, s)
    if not chunk or not offs:
        raise AnchorLost("build_fragments: chunks_mut / offset computation not found")
    csl = chunk[0].slice_of_operand(chunk[1]["a"][1], at=(chunk[1]["_bb"], chunk[0].INF))
    # the split may sit in a closure (captured fragment_length) or in the function body itself (a plain for loop)
    co = [(f, {2} if 2 in csl["args"] else set())] if chunk[0].key == f.key else upvar_origins(p, chunk[0], csl)
    oo = []
    for o in (offs[1]["rv"][2], offs[1]["rv"][3]):
        oo += upvar_origins(p, offs[0], offs[0].slice_of_operand(o, at=offs[1]["_pos"]))
    same = any(pf.key == f.key and 2 in locs for pf, locs in co) and any(pf.key == f.key and 2 in locs for pf, locs in oo)
    ctx.ob("R6", "fragment-offset-matches-chunk-length", same,
           "columns are split with chunks_mut(fragment_length) and fragment i gets offset i * fragment_length (same parameter)" if same else
           "fragment offsets are not index * the chunk length used to split the columns", f, cfg=CFG)
    it = p.funcs.get("<winter_prover::matrix::col_matrix::ColumnIterMut<'a, E> as core::iter::traits::iterator::Iterator>::next")
    if it is None:
        raise AnchorLost("ColumnIterMut::next not found")
    inc = [s for b in it.blocks if not b.get("cleanup") for s in b["s"] if s["k"] == "assign" and ir.place_fields(s["p"]) == ["cursor"]]
    ctx.ob("R6", "column-cursor-strictly-increases", bool(inc),
           "ColumnIterMut::next advances its cursor on every yielded column (each column's storage is handed out once; the from_raw_parts_mut lifetime extension is the one frozen unsafe on this path)"
           if inc else "ColumnIterMut::next no longer advances its cursor", it, cfg=CFG)
    ctx.assume("ColumnIterMut hands out non-overlapping column slices (cursor strictly increases)")


REVIEWED_BATCH_LOCAL_INDEX = {
    "winter_prover::constraints::evaluation_table::acc_column::{closure~6f3263}":
        "transition branch of acc_column: z = get_inv_evaluation(divisor, domain) has ce_blowup entries for the transition divisor "
        "(numerator x^trace_len - 1 over the constraint-evaluation domain), a power of two <= 128 = the minimum batch size, so it divides every "
        "power-of-two batch start (needs the aligned batch size checked below)",
}


def r7_batch_alignment(ctx):
    """a batch closure that indexes shared (captured) data with its batch-local loop index, without
    the batch offset, is position-independent only if every batch starts at a multiple of that
    data's period: the batch size must be len / (thread count rounded to a power of two)."""
    p = ctx.prog(CFG)
    n_local = 0
    for k, f in sorted(workspace_funcs(p).items()):
        cs = [(bi, t) for bi, t in f.calls() if (callee_of(t) or {}).get("name") in ("par_chunks_mut", "par_chunks")
              and is_rayon(callee_of(t)) and not f.is_cleanup(bi)]
        sized = []
        for bi, t in cs:
            sl = f.slice_of_operand(t["a"][1], at=(bi, f.INF))
            names = {(callee_of(f.term(b)) or {}).get("name") for b in sl["calls"]}
            if names & {"rayon_num_threads", "current_num_threads"}:
                sized.append((bi, t, sl, names))
        if not sized:
            continue
        local_sites = []
        for cf in p.closures_of(f.key):
            if cf.argc != 3 or cf.local_ty(3) != "usize":
                continue
            for bi, t in cf.calls():
                c = callee_of(t)
                if cf.is_cleanup(bi) or not c or c.get("name") not in ("index", "index_mut", "get", "get_mut", "get_unchecked", "get_unchecked_mut") or len(t["a"]) != 2:
                    continue
                base = cf.slice_of_operand(t["a"][0], at=(bi, cf.INF))
                idx = cf.slice_of_operand(t["a"][1], at=(bi, cf.INF))
                from_env = any(pl[0] == 1 for pl in base["places"]) and 2 not in base["args"]
                inames = {(callee_of(cf.term(b)) or {}).get("name") for b in idx["calls"]}
                if from_env and 3 not in idx["args"] and "next" in inames:
                    local_sites.append((cf, t))
        for cf, t in local_sites:
            n_local += 1
            ok = True
            why = ""
            from .. import panics as _panics
            skey = _panics.stable_key(p, cf.key)
            skey = skey.split("::{closure")[0] + "::" + skey.split("::")[-1]
            if skey not in REVIEWED_BATCH_LOCAL_INDEX:
                ctx.ob("R7", "batch-local-index-reviewed", False,
                       "captured data is indexed with the batch-local index (no batch offset) in a batch closure that is not on the reviewed list: "
                       "this is position-independent only if the data's period divides every batch start (%s)" % skey, cf, t["sp"]["at"], cfg=CFG)
                continue
            ctx.ob("R7", "batch-local-index-reviewed", True, "reviewed: " + REVIEWED_BATCH_LOCAL_INDEX[skey], cf, t["sp"]["at"], cfg=CFG)
            for bi, st, sl, names in sized:
                divs = [s for l in sl["locals"] for d in f.defs(l) if d["kind"] == "assign" for s in [d] if d["rv"][0] == "bin" and d["rv"][1].startswith("Div")]
                aligned = False
                for d in divs:
                    ds = f.slice_of_operand(d["rv"][3], at=(d["bb"], d.get("idx", 0)))
                    dn = {(callee_of(f.term(b)) or {}).get("name") for b in ds["calls"]}
                    if "next_power_of_two" in dn:
                        aligned = True
                if not aligned:
                    ok = False
                    why = "batch size at %s is not len / threads.next_power_of_two() (callees in its slice: %s)" % (st["sp"]["at"], sorted(x for x in names if x))
            ctx.ob("R7", "batch-local-index-needs-aligned-batches", ok,
                   "shared data is indexed with the batch-local index (no batch offset); batches start at multiples of a power of two: size = len / threads.next_power_of_two()"
                   if ok else "shared data is indexed with the batch-local index (no batch offset) but " + why, cf, t["sp"]["at"], cfg=CFG)
    if n_local < 1:
        raise AnchorLost("expected the batch-local periodic index in acc_column's batch closure")


def run(ctx):
    ctx.rule("R1", "no ambient-input effect reachable from the prover entry points in the concurrent build", 1)
    ctx.rule("R2", "every rayon combinator is indexed / order-preserving; the only schedule-dependent one is find_any in grind_query_seed, whose result flows only into pow_nonce", 2)
    ctx.rule("R3", "closures handed to rayon combinators capture no shared mutable state (three frozen unsafe re-borrows reviewed)", 20)
    ctx.rule("R4", "chunk offsets inside parallel closures are chunk index * the very value that sizes the chunks; the thread count reaches only sizes", 5)
    ctx.rule("R5", "functions whose MIR differs between the two builds are exactly parallel-combinator code covered by R2-R4", 1)
    ctx.rule("R7", "batch closures that index captured data with the batch-local index (no offset) get batches sized len / threads.next_power_of_two()", 1)
    ctx.rule("R6", "trace fragments: chunks_mut(len) per column and offset = i * len with the same len", 2)
    for rid, fn in (("R1", r1_ambient), ("R2", r2_combinators), ("R3", r3_parallel_writes), ("R4", r4_thread_count),
                    ("R5", r5_cfg_dependent), ("R6", r6_fragments), ("R7", r7_batch_alignment)):
        ctx.guard(rid, fn)
    ctx.assume("that the parallel algorithms compute the same values as the serial ones for every thread count is value-level (C12/C14/C18) and not decided")
    ctx.assume("the async prover variant (maybe_async coroutine MIR) is not analysed")
