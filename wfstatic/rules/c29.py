"""C29 — Trace validation agrees with an independent constraint checker (coverage clauses).

`Trace::validate` only ever *rejects*: every test of the suite feeds it valid traces, so a validation that
looks at fewer cells, fewer steps or fewer constraints passes every test.  Decided here, from the shape
of the code on every path, is that nothing the property quantifies over is skipped:
R1  every assertion returned by `get_assertions()` — and, when an auxiliary trace is supplied, by
    `get_aux_assertions(rand_elements)` — is applied over `self.length()` steps with a callback that
    compares the asserted value with the trace cell (column of that assertion, step of the callback) of
    the matching segment and diverges when they differ;
R2  the transition loop runs over `0 .. length() - num_transition_exemptions()`; on every iteration the
    main frame is read at that step, `evaluate_transition` fills the evaluations, and every evaluation is
    compared with ZERO with the unequal edge diverging; the same holds for the auxiliary chain
    (`read_aux_frame` at that step, `evaluate_aux_transition`, every evaluation against ZERO), which is
    entered exactly when the frame built under `is_multi_segment()` exists;
R3  the periodic values handed to the evaluators are recomputed on every iteration from the running
    domain point, which is multiplied by the trace-domain generator once per iteration;
R4  `read_aux_frame` reads the current row at `row_idx` and the next row at `(row_idx + 1) % num_rows`.
Not decided: that the evaluators compute the AIR's constraints (user code), the field arithmetic, and the
second sentence of the property (equality of trace tables built in different ways), which is value-level."""
from .. import ir
from ..ir import AnchorLost, callee_of, op_local, op_const, op_place
from ..patterns import arg_slice, cmp_sites, slice_field_bases
from .c03 import for_loops, every_iteration
from .c14 import sym

V = "winter_prover::trace::Trace::validate"
TRUNCATING = {"take", "skip", "step_by", "filter", "skip_while", "take_while", "filter_map", "nth", "last", "find"}


def _name(t):
    return (callee_of(t) or {}).get("name")


def _names(f, sl):
    return {_name(f.term(b)) for b in sl["calls"]}


def _calls(f, name):
    return [(bi, t) for bi, t in f.calls() if _name(t) == name and not f.is_cleanup(bi)]


def _diverges(f, bb):
    """no return is reachable from bb."""
    return not f.can_reach(bb, f.return_blocks())


def _loop_of(loops, bb):
    inner = [L for L in loops if bb in L["own_body"]]
    return min(inner, key=lambda L: len(L["own_body"])) if inner else None


def _iter_source_names(f, L):
    t = f.term(L["header"])
    return _names(f, f.slice_of_operand(t["a"][0], at=(L["header"], f.INF)))


def _eq_tests(f):
    """comparisons for equality: [(bb, a, b, equal_edges, unequal_edges)]."""
    out = []
    for bi, t in f.calls():
        if f.is_cleanup(bi) or _name(t) not in ("eq", "ne") or len(t["a"]) != 2:
            continue
        for ch in f.bool_checks_of(bi):
            eq, ne = (ch["true_edges"], ch["false_edges"]) if _name(t) == "eq" else (ch["false_edges"], ch["true_edges"])
            out.append((bi, t["a"][0], t["a"][1], eq, ne))
    for s in cmp_sites(f):
        if s["op"] in ("Eq", "Ne") and not f.is_cleanup(s["bb"]):
            for ch in f.bool_checks_of_local(s["local"]):
                eq, ne = (ch["true_edges"], ch["false_edges"]) if s["op"] == "Eq" else (ch["false_edges"], ch["true_edges"])
                out.append((s["bb"], s["a"], s["b"], eq, ne))
    return out


def r1_assertions(ctx):
    p = ctx.p
    f = p.fn(V)
    loops = for_loops(f)
    applies = _calls(f, "apply")
    if len(applies) < 2:
        raise AnchorLost("Trace::validate: expected the two Assertion::apply calls (main, aux), found %d" % len(applies))
    seen = {}
    for bi, t in applies:
        L = _loop_of(loops, bi)
        src = _iter_source_names(f, L) if L else set()
        which = "aux" if "get_aux_assertions" in src else ("main" if "get_assertions" in src else None)
        if which is None:
            ctx.ob("R1", "apply-in-loop-over-assertions", False, "an Assertion::apply call is not inside a loop over get_assertions() / get_aux_assertions()", f, t["sp"]["at"])
            continue
        seen[which] = (bi, t, L)
        items = set(L["item_locals"]) | {L["item_local"]}
        recv = arg_slice(f, t, 0)
        ok = bool(recv["locals"] & items) and every_iteration(f, L, bi) and not (src & TRUNCATING)
        ctx.ob("R1", "%s:every-assertion-applied" % which, ok, "apply() is called on every assertion of the %s list" % which if ok else
               "apply() is not called on every element of the %s assertion list" % which, f, t["sp"]["at"])
        ln = arg_slice(f, t, 1)
        ok = "length" in _names(f, ln) and 1 in ln["args"]
        ctx.ob("R1", "%s:applied-over-trace-length" % which, ok, "apply(self.length(), ..)" if ok else "apply() is not given self.length()", f, t["sp"]["at"])
        # the callback
        cl = arg_slice(f, t, 2)["closures"]
        cfs = [p.funcs[k] for k in cl if k in p.funcs]
        good, how = False, "the callback does not compare the asserted value with the trace cell (assertion's column, callback's step) and diverge when they differ"
        for cf in cfs:
            for bb, a, b, eq, ne in _eq_tests(cf):
                for val, cell in ((a, b), (b, a)):
                    vs = cf.slice_of_operand(val, at=(bb, cf.INF))
                    cs = cf.slice_of_operand(cell, at=(bb, cf.INF))
                    gets = [x for x in cs["calls"] if _name(cf.term(x)) == "get"]
                    if 3 not in vs["args"] or vs["calls"] or not gets:
                        continue
                    gt = cf.term(gets[0])
                    col = cf.slice_of_operand(gt["a"][1], at=(gets[0], cf.INF))
                    stp = cf.slice_of_operand(gt["a"][2], at=(gets[0], cf.INF)) if len(gt["a"]) > 2 else None
                    rcv = cf.slice_of_operand(gt["a"][0], at=(gets[0], cf.INF))
                    col_ok = "column" in _names(cf, col) and any(pl[0] == 1 for pl in col["places"])
                    stp_ok = stp is not None and 2 in stp["args"]
                    seg_ok = ("main_segment" in _names(cf, rcv)) if which == "main" else (any(pl[0] == 1 for pl in rcv["places"]) and "main_segment" not in _names(cf, rcv))
                    div = bool(ne) and all(_diverges(cf, e[1]) for e in ne) and any(not _diverges(cf, e[1]) for e in eq)
                    if col_ok and stp_ok and seg_ok and div:
                        good, how = True, "callback: value == %s.get(assertion.column(), step), otherwise panic" % ("main_segment()" if which == "main" else "aux_trace")
        ctx.ob("R1", "%s:callback-compares-cell" % which, good, how, f, t["sp"]["at"])
    if "main" in seen:
        L = seen["main"][2]
        ok = f.must_cross(f.return_blocks(), cut_blocks=[L["header"]])
        ctx.ob("R1", "main:loop-not-skippable", ok, "every returning path runs the loop over get_assertions()" if ok else
               "validate can return without running the loop over get_assertions()", f)
    else:
        ctx.ob("R1", "main:loop-not-skippable", False, "no loop over get_assertions() applies the assertions", f)
    if "aux" in seen:
        L = seen["aux"][2]
        # entered exactly on the Some edge of the aux-trace parameter
        ok, how = False, "the loop over get_aux_assertions() is not entered on every path on which an auxiliary trace was supplied"
        for bi, b in enumerate(f.blocks):
            t = b["t"]
            if t["k"] != "switch" or b.get("cleanup") or op_local(t["d"]) is None:
                continue
            ds = [d for d in f.defs(op_local(t["d"])) if d["kind"] == "assign" and d["rv"][0] == "discr"]
            if not ds or 3 not in f.backward_slice([ds[0]["rv"][1][0]], at=(bi, 0))["args"] | ({3} if ds[0]["rv"][1][0] == 3 else set()):
                continue
            some = [tg for tg, lab in f.succ(bi) if lab == "1"]
            if some and f.can_reach(some[0], [L["header"]]) and f.must_cross(f.return_blocks(), cut_blocks=[L["header"]], start=some[0]):
                ok, how = True, "on the Some edge of the aux-trace parameter every returning path runs the loop over get_aux_assertions()"
        ctx.ob("R1", "aux:loop-entered-whenever-aux-trace-present", ok, how, f)
    else:
        ctx.ob("R1", "aux:loop-entered-whenever-aux-trace-present", False, "no loop over get_aux_assertions() applies the auxiliary assertions", f)


def _step_loop(f, loops):
    for L in loops:
        t = f.term(L["header"])
        sl = f.slice_of_operand(t["a"][0], at=(L["header"], f.INF))
        for l in sl["locals"]:
            for d in f.defs(l):
                if d["kind"] == "assign" and d["rv"][0] == "agg" and d["rv"][1].get("adt") == "core::ops::range::Range":
                    lo, hi = sym(f, d["rv"][2][0]), sym(f, d["rv"][2][1])
                    body_calls = {_name(f.term(b)) for b in L["own_body"] if f.term(b)["k"] == "call"}
                    if "evaluate_transition" in body_calls:
                        return L, lo, hi, d
    return None, None, None, None


def _zero_check_loop(f, loops, outer, evals_roots, after_bb):
    """inner loop over the evaluation vector in which every item is compared with ZERO, unequal => diverge;
    it lies between `after_bb` and the next iteration of the outer loop."""
    from .c14 import _is_zero_const
    for L in loops:
        if L is outer or not (L["own_body"] <= outer["own_body"]) or L["header"] not in f.reach([after_bb]):
            continue
        t = f.term(L["header"])
        src = f.slice_of_operand(t["a"][0], at=(L["header"], f.INF))
        if not (src["locals"] & evals_roots) or _names(f, src) & TRUNCATING:
            continue
        items = set(L["item_locals"]) | {L["item_local"]}
        for bb, a, b, eq, ne in _eq_tests(f):
            if bb not in L["own_body"]:
                continue
            for val, z in ((a, b), (b, a)):
                if not _is_zero_const(f, z, bb):
                    continue
                vs = f.slice_of_operand(val, at=(bb, f.INF))
                if vs["locals"] & items and every_iteration(f, L, bb) and ne and all(_diverges(f, e[1]) for e in ne):
                    # not skippable: from after_bb the outer header is reached only through this loop's header
                    if not f.can_reach(after_bb, [outer["header"]], cut_blocks=[L["header"]]):
                        return L
    return None


def _zero_search(p, f, outer, evals_roots, after_bb):
    """`if let Some(i) = evals.iter().position(|&e| e != ZERO) { panic!(..) }` (also find / any): a search over the
    whole evaluation vector whose predicate is `item != ZERO`, and a hit diverges before the next step."""
    from .c14 import _is_zero_const
    for bi, t in f.calls():
        c = callee_of(t) or {}
        if f.is_cleanup(bi) or c.get("name") not in ("position", "find", "any") or c.get("krate") != "core" or len(t["a"]) != 2:
            continue
        if bi not in outer["own_body"] or bi not in f.reach([after_bb]):
            continue
        recv = arg_slice(f, t, 0)
        if not (recv["locals"] & evals_roots) or _names(f, recv) & TRUNCATING:
            continue
        pred = False
        for ck in arg_slice(f, t, 1)["closures"]:
            cf = p.funcs.get(ck)
            if cf is None:
                continue
            for bb, a, b, eq, ne in _eq_tests(cf):
                pass
            # the closure's result is `item != ZERO` (ne call / Ne comparison written to the return place)
            for b2, t2 in cf.calls():
                nm = _name(t2)
                if nm in ("ne", "eq") and len(t2["a"]) == 2 and not cf.is_cleanup(b2):
                    for val, z in ((t2["a"][0], t2["a"][1]), (t2["a"][1], t2["a"][0])):
                        if _is_zero_const(cf, z, b2) and 2 in cf.slice_of_operand(val, at=(b2, cf.INF))["args"]:
                            from .c25 import _bool_fn
                            tb = _bool_fn(cf, [{"bb": b2, "local": t2["dest"][0]}])
                            want = {(True,): True, (False,): False} if nm == "ne" else {(True,): False, (False,): True}
                            if tb == want:
                                pred = True
        if not pred:
            continue
        if c["name"] in ("position", "find"):
            hit = [e for ch in f.result_checks(bi) for e in ch["pass_edges"]]
            miss = [e for ch in f.result_checks(bi) for e in ch["fail_edges"]]
        else:
            hit = [e for ch in f.bool_checks_of(bi) for e in ch["true_edges"]]
            miss = [e for ch in f.bool_checks_of(bi) for e in ch["false_edges"]]
        if hit and all(_diverges(f, e[1]) for e in hit) and miss and not f.can_reach(after_bb, [outer["header"]], cut_blocks=[bi]):
            return bi
    return None


def r2_transitions(ctx):
    p = ctx.p
    f = p.fn(V)
    loops = for_loops(f)
    L, lo, hi, rng = _step_loop(f, loops)
    if L is None:
        raise AnchorLost("Trace::validate: loop over the steps calling evaluate_transition not found")
    want_hi = ("bin", "Sub", ("call", "length", (("arg", 1),)), ("call", "num_transition_exemptions", (("call", "context", (("arg", 2),)),)))
    ok = lo == ("k", 0) and hi == want_hi and not (_iter_source_names(f, L) & TRUNCATING)
    ctx.ob("R2", "step-range", ok, "steps 0 .. self.length() - air.context().num_transition_exemptions()" if ok else
           "the step range is %s .. %s, not 0 .. length() - num_transition_exemptions()" % (lo, hi), f, rng["at"])
    ok = f.must_cross(f.return_blocks(), cut_blocks=[L["header"]])
    ctx.ob("R2", "step-loop-not-skippable", ok, "every returning path runs the step loop" if ok else "validate can return without running the step loop", f)
    items = set(L["item_locals"]) | {L["item_local"]}
    # main chain
    rd = [(bi, t) for bi, t in _calls(f, "read_main_frame") if bi in L["own_body"]]
    ev = [(bi, t) for bi, t in _calls(f, "evaluate_transition") if bi in L["own_body"]]
    if len(rd) != 1 or len(ev) != 1:
        raise AnchorLost("Trace::validate: read_main_frame / evaluate_transition not found once in the step loop")
    (rbi, rt), (ebi, et) = rd[0], ev[0]
    frame_roots = f._mutref_origins(op_local(rt["a"][2]), f._defs or (f.defs(0) and f._defs), set())
    ok = bool(arg_slice(f, rt, 1)["locals"] & items) and every_iteration(f, L, rbi) and every_iteration(f, L, ebi) and \
        rbi in f.reach([L["header"]], cut_blocks=[ebi]) and not f.can_reach(L["some"][0], [ebi], cut_blocks=[rbi]) and \
        bool(arg_slice(f, et, 1)["locals"] & frame_roots)
    ctx.ob("R2", "main:frame-read-at-step-then-evaluated", ok,
           "every iteration: read_main_frame(step, frame) then evaluate_transition(frame, periodic_values, evaluations)" if ok else
           "the main frame is not read at the loop's step before evaluate_transition on every iteration", f, et["sp"]["at"])
    evals_roots = f._mutref_origins(op_local(et["a"][3]), f._defs or (f.defs(0) and f._defs), set())
    Z = _zero_check_loop(f, loops, L, evals_roots, et["t"])
    if Z is None:
        Z = _zero_search(p, f, L, evals_roots | f.backward_slice([op_local(et["a"][3])], at=(ebi, f.INF))["locals"], et["t"])
    ctx.ob("R2", "main:every-evaluation-compared-with-zero", Z is not None,
           "after evaluate_transition every element of the evaluation vector is compared with ZERO; unequal diverges" if Z is not None else
           "not every main transition evaluation is compared with ZERO (with the unequal edge diverging) before the next step", f, et["sp"]["at"])
    # auxiliary chain
    ra = [(bi, t) for bi, t in _calls(f, "read_aux_frame") if bi in L["own_body"]]
    ea = [(bi, t) for bi, t in _calls(f, "evaluate_aux_transition") if bi in L["own_body"]]
    if len(ra) != 1 or len(ea) != 1:
        ctx.ob("R2", "aux:frame-read-at-step-then-evaluated", False, "read_aux_frame / evaluate_aux_transition are not called once inside the step loop", f)
        return
    (abi, at_), (xbi, xt) = ra[0], ea[0]
    aframe_roots = f.backward_slice([op_local(at_["a"][2])], at=(abi, f.INF))["locals"]
    ok = bool(arg_slice(f, at_, 1)["locals"] & items) and not f.can_reach(L["some"][0], [xbi], cut_blocks=[abi]) and \
        bool(arg_slice(f, xt, 2)["locals"] & aframe_roots) and bool(arg_slice(f, xt, 1)["locals"] & frame_roots)
    ctx.ob("R2", "aux:frame-read-at-step-then-evaluated", ok,
           "read_aux_frame(aux_trace, step, aux_frame) precedes evaluate_aux_transition(main_frame, aux_frame, ..) in the iteration" if ok else
           "the auxiliary frame is not read at the loop's step before evaluate_aux_transition", f, xt["sp"]["at"])
    aev_roots = f._mutref_origins(op_local(xt["a"][-1]), f._defs or (f.defs(0) and f._defs), set())
    Za = _zero_check_loop(f, loops, L, aev_roots, xt["t"])
    if Za is None:
        Za = _zero_search(p, f, L, aev_roots | f.backward_slice([op_local(xt["a"][-1])], at=(xbi, f.INF))["locals"], xt["t"])
    ctx.ob("R2", "aux:every-evaluation-compared-with-zero", Za is not None,
           "after evaluate_aux_transition every element of the auxiliary evaluation vector is compared with ZERO; unequal diverges" if Za is not None else
           "not every auxiliary transition evaluation is compared with ZERO before the next step", f, xt["sp"]["at"])
    # entered exactly when the auxiliary frame exists, and the frame exists exactly when the trace is multi-segment
    ok, how = False, "the auxiliary chain is not entered on the Some edge of a frame built under is_multi_segment()"
    for bi in sorted(L["own_body"]):
        t = f.term(bi)
        if t["k"] != "switch" or op_local(t["d"]) is None:
            continue
        ds = [d for d in f.defs(op_local(t["d"])) if d["kind"] == "assign" and d["rv"][0] == "discr"]
        if not ds:
            continue
        fl = ds[0]["rv"][1][0]
        some = [tg for tg, lab in f.succ(bi) if lab == "1"]
        if not some or not f.can_reach(some[0], [abi]) or f.can_reach(some[0], [L["header"]], cut_blocks=[abi]):
            continue
        # the Option local: Some(..) under is_multi_segment() true, None otherwise
        vs = {}
        for x in f.copy_chain(fl) | {fl}:
            for d in f.defs(x):
                if d["kind"] == "assign" and d["rv"][0] == "agg" and d["rv"][1].get("adt") == "core::option::Option":
                    vs[d["rv"][1]["variant"]] = d["bb"]
        ms = _calls(f, "is_multi_segment")
        # `is_multi_segment().then(|| frame)`: Some exactly when the test is true
        for x in f.copy_chain(fl) | {fl}:
            for d in f.defs(x):
                if d["kind"] == "call" and _name(d["term"]) in ("then", "then_some") and (callee_of(d["term"]) or {}).get("krate") == "core" and ms:
                    recv = op_local(d["term"]["a"][0])
                    if recv is not None and ms[0][1]["dest"][0] in f.copy_chain(recv) | {recv}:
                        ok, how = True, "the auxiliary chain runs on the Some edge of is_multi_segment().then(|| frame)"
        if set(vs) == {"Some", "None"} and ms:
            for ch in f.bool_checks_of(ms[0][0]):
                t_reach_some = any(f.can_reach(e[1], [vs["Some"]]) or e[1] == vs["Some"] for e in ch["true_edges"])
                f_reach_some = any(f.can_reach(e[1], [vs["Some"]]) or e[1] == vs["Some"] for e in ch["false_edges"])
                if t_reach_some and not f_reach_some:
                    ok, how = True, "the auxiliary chain runs on the Some edge of the frame built exactly when trace_info().is_multi_segment()"
    ctx.ob("R2", "aux:entered-whenever-multi-segment", ok, how, f, xt["sp"]["at"])


def r3_periodic_and_domain_point(ctx):
    p = ctx.p
    f = p.fn(V)
    loops = for_loops(f)
    L, _, _, _ = _step_loop(f, loops)
    if L is None:
        raise AnchorLost("Trace::validate: step loop not found")
    ev = [(bi, t) for bi, t in _calls(f, "evaluate_transition") if bi in L["own_body"]]
    ebi, et = ev[0]
    # x *= g once per iteration
    ma = [(bi, t) for bi, t in f.calls() if _name(t) in ("mul_assign", "mul") and bi in L["own_body"] and not f.is_cleanup(bi) and
          "trace_domain_generator" in _names(f, arg_slice(f, t, 1))]
    ok = len(ma) == 1 and every_iteration(f, L, ma[0][0])
    xroots = set()
    if ok:
        xroots = f._mutref_origins(op_local(ma[0][1]["a"][0]), f._defs or (f.defs(0) and f._defs), set()) if _name(ma[0][1]) == "mul_assign" else set()
    ctx.ob("R3", "domain-point-advanced-every-iteration", ok, "x *= trace_domain_generator() once per iteration" if ok else
           "the running domain point is not multiplied by the trace-domain generator exactly once per iteration", f)
    # periodic values: stored from polynom::eval(p, f(x)) before evaluate_transition on every iteration
    pv_roots = f.backward_slice([op_local(et["a"][2])], at=(ebi, f.INF))["locals"]
    evs = [(bi, t) for bi, t in _calls(f, "eval") if bi in L["own_body"]]
    good, why = False, "the periodic values handed to evaluate_transition are not recomputed from the running domain point on every iteration"
    for bi, t in evs:
        xs = arg_slice(f, t, 1)
        if not (xs["locals"] & xroots):
            continue
        inner = _loop_of(loops, bi)
        if inner is None or inner is L:
            continue
        src = f.slice_of_operand(f.term(inner["header"])["a"][0], at=(inner["header"], f.INF))
        if "get_periodic_column_polys" not in _names(f, src) and not any("get_periodic_column_polys" in _names(f, f.backward_slice([l])) for l in list(src["locals"])[:6]):
            continue
        # each polynomial is evaluated at x^(trace_length / its own cycle length): the exponent depends on the
        # length of the polynomial of this very iteration (columns may have different cycle lengths)
        in_items = set(inner["item_locals"]) | {inner["item_local"]}
        own_cycle = False
        for b2 in xs["calls"]:
            t2 = f.term(b2)
            if _name(t2) in ("exp", "exp_vartime") and len(t2["a"]) == 2 and b2 in inner["own_body"]:
                es = arg_slice(f, t2, 1)
                if (es["locals"] & in_items) and {"len", "trace_length"} <= _names(f, es):
                    own_cycle = True
        if not own_cycle:
            why = "a periodic value is not evaluated at x^(trace_length / cycle length of its own column)"
            continue
        # the inner loop precedes evaluate_transition in the iteration and cannot be skipped
        if not f.can_reach(L["some"][0], [ebi], cut_blocks=[inner["header"]]) and bool(src["locals"] & pv_roots):
            good = True
    ctx.ob("R3", "periodic-values-recomputed-from-the-step's-point", good,
           "every iteration recomputes each periodic value as polynom::eval(poly, x^(n / its own cycle length)) before evaluate_transition" if good else why, f, et["sp"]["at"])
    # both evaluators get the periodic values
    ea = [(bi, t) for bi, t in _calls(f, "evaluate_aux_transition") if bi in L["own_body"]]
    ok = bool(ea) and bool(f.backward_slice([op_local(ea[0][1]["a"][3])], at=(ea[0][0], f.INF))["locals"] & pv_roots)
    ctx.ob("R3", "aux-evaluator-gets-the-same-periodic-values", ok, "evaluate_aux_transition receives the same periodic values" if ok else
           "evaluate_aux_transition does not receive the periodic values of the step", f)


def r4_read_aux_frame(ctx):
    p = ctx.p
    f = p.fn("winter_prover::trace::read_aux_frame")
    loops = for_loops(f)
    idx = []
    for bi, b in enumerate(f.blocks):
        if b.get("cleanup"):
            continue
        for s in b["s"]:
            if s["k"] == "assign" and s["rv"][0] == "use" and op_place(s["rv"][1]) and len(op_place(s["rv"][1])) >= 2 and \
                    isinstance(op_place(s["rv"][1])[-1], str) and op_place(s["rv"][1])[-1].startswith("[_"):
                idx.append((bi, s, sym(f, ["cp", [int(op_place(s["rv"][1])[-1][2:-1])]])))
    cur = [x for x in idx if x[2] == ("arg", 2)]
    nxt = [x for x in idx if x[2] == ("bin", "Rem", ("bin", "Add", ("arg", 2), ("k", 1)), ("call", "num_rows", (("arg", 1),))) or
           x[2] == ("bin", "Rem", ("bin", "Add", ("k", 1), ("arg", 2)), ("call", "num_rows", (("arg", 1),)))]
    def dest_of(x):
        """callees in the provenance of the cell the value read at x is stored into."""
        st = x[1]
        tgt = [st] if len(st["p"]) >= 2 else []
        if not tgt:
            tmp = st["p"][0]
            for b2 in f.blocks:
                for s2 in b2["s"]:
                    if s2["k"] == "assign" and len(s2["p"]) >= 2 and s2["rv"][0] == "use" and op_local(s2["rv"][1]) in f.copy_chain(tmp) | {tmp}:
                        tgt.append(s2)
        out = set()
        for s2 in tgt:
            out |= _names(f, f.backward_slice([s2["p"][0]], at=s2["_pos"]))
        return out
    ok = len(cur) == 1 and "current_mut" in dest_of(cur[0])
    ctx.ob("R4", "current-row", ok, "frame.current_mut() cells = column[row_idx]" if ok else "the current row of the auxiliary frame is not read at row_idx", f)
    ok = len(nxt) == 1 and "next_mut" in dest_of(nxt[0])
    ctx.ob("R4", "next-row-wraps", ok, "frame.next_mut() cells = column[(row_idx + 1) % num_rows]" if ok else
           "the next row of the auxiliary frame is not read at (row_idx + 1) % num_rows", f)


def run(ctx):
    ctx.rule("R1", "every main / auxiliary assertion is applied over length() steps with a callback comparing the trace cell and diverging on a difference; neither loop can be skipped", 8)
    ctx.rule("R2", "step loop 0..length() - exemptions; frame read at the step, evaluator called, every evaluation compared with ZERO (main and auxiliary chains)", 7)
    ctx.rule("R3", "domain point advanced once per iteration; periodic values recomputed from it before the evaluators", 3)
    ctx.rule("R4", "read_aux_frame: current row at row_idx, next row at (row_idx + 1) % num_rows", 2)
    for rid, fn in (("R1", r1_assertions), ("R2", r2_transitions), ("R3", r3_periodic_and_domain_point), ("R4", r4_read_aux_frame)):
        ctx.guard(rid, fn)
    ctx.assume("Air::evaluate_transition / evaluate_aux_transition / get_assertions are the user's AIR; Assertion::apply enumerates the asserted steps (C21); field arithmetic exact (C10)")
    ctx.assume("equality of trace tables built by fill / init / fragments is value-level and not decided")
