"""C23 — Transition divisors, degree bounds and periodic columns are consistent (divisor-shape clauses).

Decided: the first sentence of the property, as far as it is visible in the shape of the code — the
transition divisor is (x^n - 1) over the product of (x - g^step) for exactly the last k steps, and its
reported degree is the numerator degree minus the number of exemptions:
R1  ConstraintDivisor::from_transition(n, k) builds the numerator [(n, ONE)] and collects its exemption
    points from the range (n - k)..n, each mapped through get_trace_domain_value_at(n, step), with no
    truncating adapter in between;
R2  get_trace_domain_value_at(n, step) is get_root_of_unity(ilog2(n)).exp(step);
R3  TransitionConstraints::new builds the divisor from context.trace_len() and
    context.num_transition_exemptions() — the count Trace::validate exempts at the end of the trace
    (C29.R2), so the points the divisor does not vanish on are the steps the prover does not check;
R4  degree() returns (sum of the numerator degrees) - exemptions.len(), and evaluate_at divides the
    numerator product by evaluate_exemptions_at(x), which folds (x - e) over the exemptions.
Not decided: evaluation degrees, minimum blowup factors, the number of composition columns and the
periodic column polynomials (formulas over run-time integers and field values)."""
from .. import ir
from ..ir import AnchorLost, callee_of, op_local, op_const, op_place
from ..patterns import arg_slice, slice_field_bases
from .c14 import sym
from .c29 import TRUNCATING, _name, _names, _calls

D = "winter_air::air::divisor::"


def _fn(p, suffix):
    ks = [k for k in sorted(p.funcs) if k.startswith(D) and k.endswith(suffix)]
    if len(ks) != 1:
        raise AnchorLost("%s not found (or ambiguous: %s)" % (suffix, ks))
    return p.fn(ks[0])


def r1_from_transition(ctx):
    p = ctx.p
    f = _fn(p, "::from_transition")
    rng = [s for b in f.blocks if not b.get("cleanup") for s in b["s"] if s["k"] == "assign" and s["rv"][0] == "agg" and
           s["rv"][1].get("adt") == "core::ops::range::Range"]
    if len(rng) != 1:
        raise AnchorLost("from_transition: the step range not found")
    lo, hi = sym(f, rng[0]["rv"][2][0]), sym(f, rng[0]["rv"][2][1])
    ok = lo == ("bin", "Sub", ("arg", 1), ("arg", 2)) and hi == ("arg", 1)
    ctx.ob("R1", "exempt-steps-are-the-last-k", ok, "exemption steps = (n - k)..n" if ok else "exemption steps are %s..%s, not (n - k)..n" % (lo, hi), f, rng[0]["sp"]["at"])
    nw = [(bi, t) for bi, t in _calls(f, "new") if len(t["a"]) == 2 and "ConstraintDivisor" in (callee_of(t) or {}).get("def", "")]
    if len(nw) != 1:
        raise AnchorLost("from_transition: ConstraintDivisor::new call not found")
    bi, t = nw[0]
    ex = arg_slice(f, t, 1)
    names = _names(f, ex)
    ok = rng[0]["p"][0] in ex["locals"] and "map" in names and "collect" in names and not (names & TRUNCATING) and "rev" not in names
    cl_ok = False
    for ck in ex["closures"]:
        cf = p.funcs.get(ck)
        if cf is None:
            continue
        for b2, t2 in _calls(cf, "get_trace_domain_value_at"):
            if sym(cf, t2["a"][0]) == ("env", 0) and sym(cf, t2["a"][1]) == ("arg", 2) and \
                    cf.backward_slice([0])["calls"] and b2 in cf.backward_slice([0])["calls"]:
                cl_ok = True
        # what the closure captured is n
        for b in f.blocks:
            for s in b["s"]:
                if s["k"] == "assign" and s["rv"][0] == "agg" and s["rv"][1].get("k") == "closure" and s["rv"][1].get("def") == ck:
                    cl_ok = cl_ok and len(s["rv"][2]) == 1 and sym(f, s["rv"][2][0]) == ("arg", 1)
    if not (ok and cl_ok):
        # loop form: for step in range { exemptions.push(get_trace_domain_value_at(n, step)) }
        from .c03 import for_loops, every_iteration
        for L in for_loops(f):
            src = f.slice_of_operand(f.term(L["header"])["a"][0], at=(L["header"], f.INF))
            if rng[0]["p"][0] not in src["locals"] or (_names(f, src) & TRUNCATING) or "rev" in _names(f, src):
                continue
            items = set(L["item_locals"]) | {L["item_local"]}
            for b2, t2 in _calls(f, "push"):
                if b2 not in L["own_body"] or not every_iteration(f, L, b2):
                    continue
                vec_roots = f._mutref_origins(op_local(t2["a"][0]), f._defs or (f.defs(0) and f._defs), set())
                val = arg_slice(f, t2, 1)
                gt = [f.term(b3) for b3 in val["calls"] if _name(f.term(b3)) == "get_trace_domain_value_at"]
                if len(gt) == 1 and sym(f, gt[0]["a"][0]) == ("arg", 1) and (arg_slice(f, gt[0], 1)["locals"] & items) and \
                        sym(f, gt[0]["a"][1])[0] == "?" and (vec_roots & ex["locals"]):      # the item itself, no arithmetic on it
                    ok, cl_ok = True, True
    ctx.ob("R1", "exemption-points-are-domain-values-of-those-steps", ok and cl_ok,
           "exemptions = ((n - k)..n).map(|step| get_trace_domain_value_at(n, step)).collect()" if ok and cl_ok else
           "the exemption points are not get_trace_domain_value_at(n, step) for every step of the range", f, t["sp"]["at"])
    # numerator: exactly one pair (n, ONE)
    num = arg_slice(f, t, 0)
    tup = [s for b in f.blocks if not b.get("cleanup") for s in b["s"] if s["k"] == "assign" and s["rv"][0] == "agg" and s["rv"][1].get("k") == "tuple"
           and len(s["rv"][2]) == 2 and s["p"][0] in num["locals"]]
    arr = [s for b in f.blocks if not b.get("cleanup") for s in b["s"] if s["k"] == "assign" and s["rv"][0] == "agg" and s["rv"][1].get("k") == "array"]
    ok = len(tup) == 1 and sym(f, tup[0]["rv"][2][0]) == ("arg", 1) and \
        str((op_const(tup[0]["rv"][2][1]) or {}).get("uneval", "")).endswith("::ONE") and len(arr) == 1 and len(arr[0]["rv"][2]) == 1
    ctx.ob("R1", "numerator-is-x^n-minus-one", ok, "numerator = [(n, ONE)], i.e. x^n - 1" if ok else "the numerator is not the single term (n, ONE)", f, t["sp"]["at"])


def r2_domain_value(ctx):
    p = ctx.p
    f = _fn(p, "get_trace_domain_value_at")
    rets = [e for e in f.exits()]
    want = ("call", "exp", (("call", "get_root_of_unity", (("call", "ilog2", (("arg", 1),)),)), ("arg", 2)))
    got = None
    for bi, t in _calls(f, "exp"):
        if t.get("dest") == [0]:
            got = ("call", "exp", tuple(sym(f, a) for a in t["a"]))
    ok = got == want
    ctx.ob("R2", "domain-value-is-g^step", ok, "get_root_of_unity(ilog2(n)).exp(step)" if ok else "the domain value is %s" % (got,), f)


def r3_wiring(ctx):
    p = ctx.p
    ks = [k for k in sorted(p.funcs) if k.startswith("winter_air::air::transition::TransitionConstraints") and k.endswith("::new")]
    if len(ks) != 1:
        raise AnchorLost("TransitionConstraints::new not found")
    f = p.fn(ks[0])
    ft = _calls(f, "from_transition")
    if len(ft) != 1:
        raise AnchorLost("TransitionConstraints::new: from_transition call not found")
    bi, t = ft[0]
    a0, a1 = sym(f, t["a"][0]), sym(f, t["a"][1])
    ok = a0 == ("call", "trace_len", (("arg", 1),)) and a1 == ("call", "num_transition_exemptions", (("arg", 1),))
    ctx.ob("R3", "divisor-built-from-trace-length-and-context-exemptions", ok,
           "from_transition(context.trace_len(), context.num_transition_exemptions())" if ok else "from_transition(%s, %s)" % (a0, a1), f, t["sp"]["at"])
    dv = [s for b in f.blocks if not b.get("cleanup") for s in b["s"] if s["k"] == "assign" and s["rv"][0] == "agg" and
          "TransitionConstraints" in str(s["rv"][1].get("adt", ""))]
    ok = False
    for s in dv:
        names = s["rv"][1].get("fields") or []
        for i, o in enumerate(s["rv"][2]):
            if op_local(o) is not None and t["dest"][0] in f.copy_chain(op_local(o)) | {op_local(o)}:
                ok = True
    ctx.ob("R3", "divisor-stored", ok, "the divisor built here is the one stored in TransitionConstraints" if ok else "the divisor built by from_transition is not stored", f)


def r4_degree_and_evaluation(ctx):
    p = ctx.p
    f = _fn(p, "::degree")
    subs = [s for b in f.blocks if not b.get("cleanup") for s in b["s"] if s["k"] == "assign" and s["rv"][0] in ("bin", "cbin") and str(s["rv"][1]).startswith("Sub")]
    ok = False
    for s in subs:
        a = f.slice_of_operand(s["rv"][2], at=s["_pos"])
        b = f.slice_of_operand(s["rv"][3], at=s["_pos"])
        folded = "fold" in _names(f, a) and "numerator" in slice_field_bases(a)
        cl_ok = False
        for ck in a["closures"]:
            cf = p.funcs.get(ck)
            adds = [x for bb in (cf.blocks if cf else []) for x in bb["s"] if x["k"] == "assign" and x["rv"][0] in ("bin", "cbin") and str(x["rv"][1]).startswith("Add")]
            for x in adds:
                parts = {repr(sym(cf, x["rv"][2])), repr(sym(cf, x["rv"][3]))}
                if repr(("arg", 2)) in parts and any("field" in q and "('arg', 3)" in q and ", 0)" in q for q in parts):
                    cl_ok = True
        lens = "len" in _names(f, b) and "exemptions" in slice_field_bases(b)
        if folded and cl_ok and lens and s["p"][0] in f.backward_slice([0])["locals"] | {0}:
            ok = True
    ctx.ob("R4", "degree-is-numerator-degree-minus-exemptions", ok, "degree() = sum of numerator degrees - exemptions.len()" if ok else
           "degree() is not (sum of the numerator degrees) - exemptions.len()", f)
    g = _fn(p, "::evaluate_at")
    dv = [(bi, t) for bi, t in _calls(g, "div") if t.get("dest") == [0] or (t.get("dest") and t["dest"][0] in g.backward_slice([0])["locals"])]
    ok = False
    for bi, t in dv:
        den = arg_slice(g, t, 1)
        numr = arg_slice(g, t, 0)
        if "evaluate_exemptions_at" in _names(g, den) and 2 in den["args"] and "numerator" in slice_field_bases(numr) and "evaluate_exemptions_at" not in _names(g, numr):
            ok = True
    ctx.ob("R4", "evaluation-divides-by-the-exemptions", ok, "evaluate_at(x) = numerator(x) / evaluate_exemptions_at(x)" if ok else
           "evaluate_at does not divide the numerator product by evaluate_exemptions_at(x)", g)
    h = _fn(p, "::evaluate_exemptions_at")
    ret = h.backward_slice([0])
    ok = "fold" in _names(h, ret) and "exemptions" in slice_field_bases(ret) and not (_names(h, ret) & TRUNCATING)
    cl = False
    for ck in ret["closures"]:
        cf = p.funcs.get(ck)
        if cf is None:
            continue
        subs = [(bi, t) for bi, t in _calls(cf, "sub")]
        muls = [(bi, t) for bi, t in _calls(cf, "mul")]
        for bi, t in subs:
            if any(pl[0] == 1 for pl in arg_slice(cf, t, 0)["places"]) and 3 in arg_slice(cf, t, 1)["args"] | {3 if any(pl[0] == 3 for pl in arg_slice(cf, t, 1)["places"]) else None}:
                for b2, t2 in muls:
                    if 2 in arg_slice(cf, t2, 0)["args"] and bi in arg_slice(cf, t2, 1)["calls"] and t2.get("dest") == [0]:
                        cl = True
    ctx.ob("R4", "exemption-product-over-all-exemptions", ok and cl, "evaluate_exemptions_at(x) = fold(ONE, |r, e| r * (x - e)) over all exemptions" if ok and cl else
           "evaluate_exemptions_at is not the product of (x - e) over all exemptions", h)


def run(ctx):
    ctx.rule("R1", "from_transition(n, k): numerator [(n, ONE)]; exemptions = ((n - k)..n).map(get_trace_domain_value_at(n, step))", 3)
    ctx.rule("R2", "get_trace_domain_value_at(n, step) = get_root_of_unity(ilog2(n)).exp(step)", 1)
    ctx.rule("R3", "TransitionConstraints::new builds and stores from_transition(context.trace_len(), context.num_transition_exemptions())", 2)
    ctx.rule("R4", "degree() = numerator degree - exemptions.len(); evaluate_at = numerator / product of (x - e) over all exemptions", 3)
    for rid, fn in (("R1", r1_from_transition), ("R2", r2_domain_value), ("R3", r3_wiring), ("R4", r4_degree_and_evaluation)):
        ctx.guard(rid, fn)
    ctx.assume("get_root_of_unity returns a primitive root of order 2^log (C11.R1); field arithmetic exact (C10)")
    ctx.assume("evaluation degrees, minimum blowup, composition-column count and periodic column polynomials are numerical and not decided")
