"""C16 — Rescue hashers match a reference Rescue-Prime implementation (S-box / round-structure clauses).

Decided: the forward S-box raises every state element to alpha = the smallest integer >= 3 coprime to
p - 1 (the Rescue-Prime choice), the inverse S-box's unrolled addition chain raises to an exponent E
with alpha * E = 1 (mod p - 1) — both exponents are computed by abstract interpretation of the MIR
over monomial exponents (exponents.py) —, a round is S-box, MDS, constants(ARK1[round]), inverse
S-box, MDS, constants(ARK2[round]), the permutation applies NUM_ROUNDS rounds with the loop index,
and for the sponge variants merge writes the same capacity value that hash_elements writes for the
eight elements of two digests.  Not decided: the MDS matrix and round constants against the
published values, the Jive summation, and equality with a reference on every state."""
from math import gcd

from .. import ir, intervals, exponents
from ..ir import AnchorLost, callee_of, op_local, op_const, op_place
from .c17 import HASHER, EHASHER, method, state_stores, eval_index, names_in

VARIANTS = {
    # module prefix -> (function prefix, field type, hasher type, sponge?)
    "rp62_248": ("winter_crypto::hash::rescue::rp62_248::", "winter_math::field::f62::BaseElement",
                 "winter_crypto::hash::rescue::rp62_248::Rp62_248", True),
    "rp64_256": ("winter_crypto::hash::rescue::rp64_256::Rp64_256::", "winter_math::field::f64::BaseElement",
                 "winter_crypto::hash::rescue::rp64_256::Rp64_256", True),
    "rp64_256_jive": ("winter_crypto::hash::rescue::rp64_256_jive::RpJive64_256::", "winter_math::field::f64::BaseElement",
                      "winter_crypto::hash::rescue::rp64_256_jive::RpJive64_256", False),
}
ROUND_ORDER = ["apply_sbox", "apply_mds", "add_constants", "apply_inv_sbox", "apply_mds", "add_constants"]


def modulus(p, field_ty):
    from .c11 import trait_consts, cval, STARK
    return cval(trait_consts(p, STARK, field_ty)["MODULUS"])


def r1_sbox_exponents(ctx):
    p = ctx.p
    for name, (pre, fty, hty, sponge) in VARIANTS.items():
        M = modulus(p, fty)
        fs, fi = p.funcs.get(pre + "apply_sbox"), p.funcs.get(pre + "apply_inv_sbox")
        if fs is None or fi is None:
            raise AnchorLost("%s: apply_sbox / apply_inv_sbox not found" % name)
        try:
            a = exponents.power_of(p, fs.key)
        except exponents.Unknown as e:
            ctx.ob("R1", "sbox-exponent:%s" % name, False, "cannot evaluate the exponent of apply_sbox: %s" % e, fs)
            a = None
        if a is not None:
            want = next(k for k in range(3, 64) if gcd(k, M - 1) == 1)
            ctx.ob("R1", "sbox-exponent:%s" % name, a == want,
                   "apply_sbox raises every state element to %d = the smallest k >= 3 coprime to p - 1" % a if a == want else
                   "apply_sbox raises to %d, but the Rescue-Prime S-box exponent for this field is %d" % (a, want), fs)
        try:
            e_inv = exponents.power_of(p, fi.key)
        except exponents.Unknown as e:
            ctx.ob("R1", "inverse-sbox-exponent:%s" % name, False, "cannot evaluate the exponent of apply_inv_sbox: %s" % e, fi)
            continue
        ok = a is not None and (a * e_inv) % (M - 1) == 1
        ctx.ob("R1", "inverse-sbox-exponent:%s" % name, ok,
               "apply_inv_sbox raises to %d and %d * %d = 1 (mod p - 1): exact inverse of the S-box" % (e_inv, a, e_inv) if ok else
               "apply_inv_sbox raises to %d, which is not the inverse of the S-box exponent %s modulo p - 1" % (e_inv, a), fi)


def r2_round_structure(ctx):
    p = ctx.p
    for name, (pre, fty, hty, sponge) in VARIANTS.items():
        f = p.funcs.get(pre + "apply_round")
        if f is None:
            raise AnchorLost("%s: apply_round not found" % name)
        seq = []
        bb = 0
        seen = set()
        while bb not in seen:
            seen.add(bb)
            t = f.blocks[bb]["t"]
            if t["k"] == "call" and "t" in t:
                c = callee_of(t)
                if c and c.get("name") in set(ROUND_ORDER):
                    seq.append((c["name"], bb, t))
                bb = t["t"]
            elif t["k"] in ("goto", "assert", "drop"):
                bb = t["t"]
            else:
                break
        order = [x[0] for x in seq]
        ok = order == ROUND_ORDER
        ctx.ob("R2", "round-order:%s" % name, ok,
               "apply_round = S-box, MDS, constants, inverse S-box, MDS, constants" if ok else
               "apply_round calls %s" % order, f)
        if not ok:
            continue
        # the two constant additions use ARK1[round] then ARK2[round]
        arks = []
        prev_bb = 0
        for nm, bb, t in seq:
            if nm != "add_constants":
                prev_bb = t["t"]
                continue
            sl = f.slice_of_operand(t["a"][1], at=(bb, f.INF))
            # `&ARKn[round]` is lowered to a promoted constant; the array named in the bounds check
            # that guards the index (blocks between the previous step and this call) identifies it
            region = f.reach([prev_bb], cut_blocks=[t["t"]])
            cn = set()
            for b2 in region:
                for st in f.blocks[b2]["s"]:
                    if st["k"] == "assign" and st["rv"][0] == "use":
                        c = op_const(st["rv"][1])
                        if c and c.get("uneval_def"):
                            cn.add(str(c["uneval_def"]).split("::")[-1])
            arks.append((cn & {"ARK1", "ARK2"}, 2 in sl["args"]))
            prev_bb = t["t"]
        ok2 = len(arks) == 2 and arks[0][0] == {"ARK1"} and arks[1][0] == {"ARK2"} and arks[0][1] and arks[1][1]
        ctx.ob("R2", "round-constants:%s" % name, ok2,
               "first half adds ARK1[round], second half ARK2[round]" if ok2 else "the halves do not add ARK1[round] and ARK2[round] in this order: %s" % arks, f)
        # permutation = NUM_ROUNDS rounds with the loop index
        g = p.funcs.get(pre + "apply_permutation")
        if g is None:
            raise AnchorLost("%s: apply_permutation not found" % name)
        from .c03 import for_loops
        L = for_loops(g)
        okp, how = False, "apply_permutation does not loop over 0..NUM_ROUNDS calling apply_round(state, i)"
        for lp in L:
            rng = [s for b in g.blocks if not b.get("cleanup") for s in b["s"] if s["k"] == "assign" and s["rv"][0] == "agg" and
                   s["rv"][1].get("adt") == "core::ops::range::Range"]
            calls = [(bi, t) for bi, t in g.calls() if bi in lp["body"] and (callee_of(t) or {}).get("name") == "apply_round"]
            if not rng or not calls:
                continue
            lo, hi = op_const(rng[0]["rv"][2][0]), op_const(rng[0]["rv"][2][1])
            hi_name = str((hi or {}).get("uneval_def", "")).split("::")[-1]
            hv = None
            if hi is not None and hi.get("uneval_def") in p.consts:
                hv = (p.consts[hi["uneval_def"]].get("value") or {}).get("scalar")
            idx_ok = any(op_local(t["a"][1]) is not None and (set(lp["item_locals"]) | {lp["item_local"]}) & g.copy_chain(op_local(t["a"][1])) for _, t in calls)
            if lo is not None and str(lo.get("v")) == "0" and hi_name == "NUM_ROUNDS" and idx_ok:
                okp, how = True, "apply_permutation applies apply_round(state, i) for i in 0..NUM_ROUNDS (= %s)" % hv
        ctx.ob("R2", "rounds-loop:%s" % name, okp, how, g)


def r3_merge_is_hash_of_eight(ctx):
    p = ctx.p
    an = intervals.Analysis(p)
    for name, (pre, fty, hty, sponge) in VARIANTS.items():
        if not sponge:
            continue
        m = method(p, HASHER, hty, "merge")
        h = method(p, EHASHER, hty, "hash_elements")
        # capacity cell / value written by merge
        mcell = {}
        for bi, s in state_stores(m):
            idx = int(s["p"][1][2:-1]) if s["p"][1].startswith("[_") else None
            ci = eval_index(p, an, m, ["cp", [idx]], s["_pos"]) if idx is not None else None
            v = None
            if s["rv"][0] == "use" and op_local(s["rv"][1]) is not None:
                for d in m.defs(op_local(s["rv"][1])):
                    if d["kind"] == "call" and (callee_of(d["term"]) or {}).get("name") == "new":
                        v = eval_index(p, an, m, d["term"]["a"][0], (d["bb"], m.INF - 1))
            if ci is not None and v is not None:
                mcell[ci] = v
        # cell into which hash_elements writes the length
        hcell = None
        for bi, s in state_stores(h):
            if s["rv"][0] != "use" or op_local(s["rv"][1]) is None:
                continue
            sl = h.slice_of_operand(s["rv"][1], at=s["_pos"])
            if "len" in names_in(h, sl):
                idx = int(s["p"][1][2:-1]) if s["p"][1].startswith("[_") else None
                hcell = eval_index(p, an, h, ["cp", [idx]], s["_pos"]) if idx is not None else None
        ds = None
        for k in sorted(p.consts):
            if k.endswith("::DIGEST_SIZE") and k.startswith("winter_crypto::hash::rescue::%s::" % name) and "::" not in k[len("winter_crypto::hash::rescue::%s::" % name):-len("DIGEST_SIZE") - 2 or None]:
                ds = int((p.consts[k].get("value") or {}).get("scalar", 0)) or None
        ok = hcell is not None and hcell in mcell and ds is not None and mcell[hcell] == 2 * ds
        ctx.ob("R3", "merge-capacity-equals-length-of-two-digests:%s" % name, ok,
               "merge writes %s = 2 * DIGEST_SIZE into state cell %s, the cell hash_elements initialises with elements.len()" % (mcell.get(hcell), hcell) if ok else
               "merge writes %s into the cell(s) %s; hash_elements writes the length into cell %s; DIGEST_SIZE = %s" % (mcell, sorted(mcell), hcell, ds), m)
        # the rate is filled from the digests' elements
        fills = False
        for bi, t in m.calls():
            c = callee_of(t)
            if c and c.get("name") == "copy_from_slice" and not m.is_cleanup(bi):
                sl = m.slice_of_operand(t["a"][1], at=(bi, m.INF))
                if "digests_as_elements" in names_in(m, sl) and 1 in sl["args"]:
                    fills = True
        ctx.ob("R3", "merge-absorbs-both-digests:%s" % name, fills,
               "merge copies digests_as_elements(values) into the rate" if fills else "merge does not copy the digests' elements into the state", m)


def run(ctx):
    ctx.rule("R1", "S-box exponents by abstract interpretation over monomial exponents: forward = smallest k >= 3 coprime to p - 1, inverse chain exponent E with k * E = 1 (mod p - 1)", 6)
    ctx.rule("R2", "apply_round = S-box, MDS, +ARK1[round], inverse S-box, MDS, +ARK2[round]; apply_permutation runs rounds 0..NUM_ROUNDS", 9)
    ctx.rule("R3", "sponge variants: merge writes 2 * DIGEST_SIZE into the capacity cell that hash_elements initialises with the length, and absorbs both digests", 4)
    ctx.guard("R1", r1_sbox_exponents)
    ctx.guard("R2", r2_round_structure)
    ctx.guard("R3", r3_merge_is_hash_of_eight)
    ctx.assume("FieldElement::square and Mul compute the field square / product (C10)")
    ctx.assume("the MDS matrix, round constants and Jive summation are not compared with the published reference (no reference values in the repository)")
