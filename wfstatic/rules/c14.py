"""C14 — Batch field utilities agree with element-wise definitions (structural clauses).

Decided (each a necessary condition of the behaviour, read from the shape of the code on every path):
R1  the three re-grouping casts hand `from_raw_parts` the source's own pointer and a length that is the
    source length divided / multiplied by the const generic N (capacity too for the Vec form, whose
    source is wrapped in ManuallyDrop and never dropped); the dividing form is reachable only through
    the equal edge of a divisibility test of that same length by N;
R2  transpose_slice allocates len / N rows behind a divisibility test, writes entry j of every row for
    j in 0..N, and reads the source at an index that depends on the row, on j and on the row count;
R3  the batch closures of get_power_series / get_power_series_with_offset / batch_inversion derive the
    first power (resp. the input window) from the batch offset they are handed, and the window is as
    long as the batch;
R4  serial_batch_inversion multiplies the running product only by values that passed the zero test,
    stores ZERO for a zero input, and inverts the product between the two passes;
R5  add_in_place / mul_acc reach their zip only through the equal edge of a length comparison of the
    two operands (zip would silently truncate).
Not decided: the arithmetic results themselves (C10), equality of the parallel and serial results as
values (C06 decides the scheduling side), and element order beyond the dependence stated in R2."""
from .. import ir
from ..ir import AnchorLost, callee_of, op_local, op_const, op_place

UT = "winter_utils::"
MU = "winter_math::utils::"
TRANSPARENT = {"deref", "deref_mut", "as_slice", "as_mut_slice", "as_ref", "as_mut", "borrow", "borrow_mut", "new",
               "iter", "iter_mut", "into", "from", "clone"}


# ---------------------------------------------------------------------------------------------------
# a small symbolic reading of integer operands: references and copies are transparent

def _promoted_scalar(f, k):
    owner = f.prog.funcs.get(k.get("uneval_def")) or f
    for pr in owner.raw.get("promoted") or []:
        if str(pr["idx"]) != str(k.get("promoted")):
            continue
        vals = []
        for b in pr["mir"]["blocks"]:
            for s in b["s"]:
                if s["k"] == "assign" and s["rv"][0] == "use":
                    c = op_const(s["rv"][1])
                    if c is not None and str(c.get("v", "")).lstrip("-").isdigit():
                        vals.append(int(c["v"]))
        if len(vals) == 1:
            return vals[0]
    return None


def _whole_defs(f, l):
    return [d for d in f.defs(l) if d.get("p") and len(d["p"]) == 1 and d["kind"] in ("assign", "call")]


def sym(f, op, depth=0):
    """symbolic value: ('k', int) | ('N', const generic) | ('arg', i) | ('env', i) | ('len', x) | ('cap', x)
    | ('ptr', x) | ('bin', op, a, b) | ('call', name, args) | ('?', local)."""
    if depth > 24:
        return ("?", "deep")
    c = op_const(op)
    if c is not None:
        if c.get("tyconst"):
            return ("N", c["tyconst"])
        if "promoted" in c:
            v = _promoted_scalar(f, c)
            return ("k", v) if v is not None else ("?", "promoted")
        if str(c.get("v", "")).lstrip("-").isdigit():
            return ("k", int(c["v"]))
        return ("c", str(c.get("uneval") or c.get("uneval_def") or c.get("ty")))
    pl = op_place(op)
    if not pl:
        return ("?", "op")
    return _sym_place(f, list(pl), depth)


def _sym_place(f, pl, depth):
    l, proj = pl[0], [e for e in pl[1:] if e != "*"]      # dereferences are transparent
    # captured variable of a closure: (*_1).i
    if l == 1 and proj and f.key.split("::")[-1].startswith("{closure") and isinstance(proj[0], str) and proj[0].startswith("."):
        base = ("env", int(proj[0][1:].split(":")[0]))
        if len(proj) == 1:
            return base
        if len(proj) == 2 and isinstance(proj[1], str) and proj[1].startswith("."):
            return ("field", base, int(proj[1][1:].split(":")[0]))      # a field of a captured struct reference
        return ("?", "env-proj")
    if 1 <= l <= f.argc and not _whole_defs(f, l):
        base = ("arg", l)
        if not proj:
            return base
        if len(proj) == 1 and isinstance(proj[0], str) and proj[0].startswith("."):
            return ("field", base, int(proj[0][1:].split(":")[0]))
        return ("?", "arg-proj")
    ds = _whole_defs(f, l)
    if len(ds) != 1:
        return ("?", l)
    d = ds[0]
    if d["kind"] == "call":
        t = d["term"]
        c = callee_of(t) or {}
        nm = c.get("name")
        if proj:
            return ("?", l)
        if nm == "len" and t["a"]:
            return ("len", sym(f, t["a"][0], depth + 1))
        if nm == "capacity" and t["a"]:
            return ("cap", sym(f, t["a"][0], depth + 1))
        if nm in ("as_ptr", "as_mut_ptr") and t["a"]:
            return ("ptr", sym(f, t["a"][0], depth + 1))
        if nm in TRANSPARENT and len(t["a"]) == 1 and c.get("krate") in ("core", "alloc", "std"):
            return sym(f, t["a"][0], depth + 1)
        if nm in ("cast", "cast_mut", "cast_const") and len(t["a"]) == 1 and c.get("krate") == "core" and "ptr" in str(c.get("def", "")):
            return sym(f, t["a"][0], depth + 1)      # `p.cast::<U>()` = `p as *const U`
        return ("call", nm, tuple(sym(f, a, depth + 1) for a in t["a"]))
    rv = d["rv"]
    if rv[0] == "use":
        inner = op_place(rv[1])
        if inner is not None:
            return _sym_place(f, list(inner) + proj, depth + 1)
        return sym(f, rv[1], depth + 1) if not proj else ("?", l)
    if rv[0] in ("ref", "rawptr"):
        return _sym_place(f, list(rv[2]) + proj, depth + 1)
    if rv[0] == "cast":
        return sym(f, rv[2], depth + 1) if not proj else ("?", l)
    if rv[0] == "agg" and rv[1].get("k") == "tuple" and proj and isinstance(proj[0], str) and proj[0].startswith("."):
        i = int(proj[0][1:].split(":")[0])
        if i < len(rv[2]):
            inner = op_place(rv[2][i])
            if inner is not None:
                return _sym_place(f, list(inner) + proj[1:], depth + 1)
            return sym(f, rv[2][i], depth + 1) if len(proj) == 1 else ("?", l)
    if rv[0] in ("bin", "cbin"):
        op = str(rv[1]).replace("WithOverflow", "").replace("Unchecked", "")
        if proj and proj != [".0:"] and not (len(proj) == 1 and str(proj[0]).startswith(".0")):
            return ("?", l)
        a, b = sym(f, rv[2], depth + 1), sym(f, rv[3], depth + 1)
        if op in ("Add", "Mul", "Eq", "Ne", "BitAnd", "BitOr") and repr(a) > repr(b):
            a, b = b, a
        return ("bin", op, a, b)
    if rv[0] == "un" and rv[1] == "PtrMetadata":
        return ("len", sym(f, rv[2], depth + 1))
    return ("?", l)


def mentions(s, what):
    if s == what:
        return True
    return isinstance(s, tuple) and any(mentions(x, what) for x in s[1:] if isinstance(x, tuple))


def _equal_edge_dominates(f, target_bb, accept):
    """is target_bb reachable only through the `equal` edge of a comparison whose operand pair satisfies accept(a, b)?
    returns the line of the comparison or None."""
    from ..patterns import cmp_sites
    for site in cmp_sites(f):
        if site["op"] not in ("Eq", "Ne") or f.is_cleanup(site["bb"]):
            continue
        a, b = sym(f, site["a"]), sym(f, site["b"])
        if not (accept(a, b) or accept(b, a)):
            continue
        for c in f.bool_checks_of_local(site["local"]):
            edges = c["true_edges"] if site["op"] == "Eq" else c["false_edges"]
            if edges and f.must_cross([target_bb], cut_edges=edges) and any(f.can_reach(e[1], [target_bb]) or e[1] == target_bb for e in edges):
                return ir.line_of(site["at"])
    return None


def _divisible(length, n):
    """acceptors for `length % n == 0` and `(length / n) * n == length`."""
    def acc(a, b):
        if a == ("bin", "Rem", length, n) and b == ("k", 0):
            return True
        q = ("bin", "Div", length, n)
        prod = ("bin", "Mul", *sorted([q, n], key=repr))
        return a == prod and b == length
    return acc


def _raw_parts_calls(f):
    return [(bi, t) for bi, t in f.calls() if (callee_of(t) or {}).get("name") == "from_raw_parts" and not f.is_cleanup(bi)]


# ---------------------------------------------------------------------------------------------------

def r1_regrouping(ctx, p=None, cfg=None):
    p = p or ctx.p
    N = ("N", "N")
    LEN = ("len", ("arg", 1))
    # group_slice_elements
    f = p.fn(UT + "group_slice_elements")
    rp = _raw_parts_calls(f)
    if len(rp) != 1:
        raise AnchorLost("group_slice_elements: from_raw_parts call not found")
    bi, t = rp[0]
    ptr, ln = sym(f, t["a"][0]), sym(f, t["a"][1])
    ok = ptr == ("ptr", ("arg", 1))
    ctx.ob("R1", "group:pointer-is-source", ok, "the grouped slice starts at source.as_ptr()" if ok else "the grouped slice does not start at source.as_ptr(): %s" % (ptr,), f, t["sp"]["at"])
    ok = ln == ("bin", "Div", LEN, N)
    ctx.ob("R1", "group:length-is-len-div-N", ok, "grouped length = source.len() / N" if ok else "grouped length is %s, not source.len() / N" % (ln,), f, t["sp"]["at"])
    where = _equal_edge_dominates(f, bi, _divisible(LEN, N))
    ctx.ob("R1", "group:divisibility-checked", bool(where), "from_raw_parts is reached only when source.len() is a multiple of N (test at %s)" % where if where else
           "from_raw_parts is reachable without passing a test that source.len() is a multiple of N", f, t["sp"]["at"])
    # flatten_slice_elements
    f = p.fn(UT + "flatten_slice_elements")
    rp = _raw_parts_calls(f)
    if len(rp) != 1:
        raise AnchorLost("flatten_slice_elements: from_raw_parts call not found")
    bi, t = rp[0]
    ptr, ln = sym(f, t["a"][0]), sym(f, t["a"][1])
    want = ("bin", "Mul", *sorted([LEN, N], key=repr))
    ok = ptr == ("ptr", ("arg", 1)) and ln == want
    ctx.ob("R1", "flatten-slice:pointer-and-length", ok, "flattened slice = (source.as_ptr(), source.len() * N)" if ok else
           "flattened slice is (%s, %s), not (source.as_ptr(), source.len() * N)" % (ptr, ln), f, t["sp"]["at"])
    # flatten_vector_elements
    f = p.fn(UT + "flatten_vector_elements")
    rp = _raw_parts_calls(f)
    if len(rp) != 1 or len(rp[0][1]["a"]) != 3:
        raise AnchorLost("flatten_vector_elements: Vec::from_raw_parts call not found")
    bi, t = rp[0]
    ptr, ln, cap = (sym(f, a) for a in t["a"])
    CAP = ("cap", ("arg", 1))
    ok = ptr == ("ptr", ("arg", 1)) and ln == ("bin", "Mul", *sorted([LEN, N], key=repr)) and cap == ("bin", "Mul", *sorted([CAP, N], key=repr))
    ctx.ob("R1", "flatten-vector:pointer-length-capacity", ok, "flattened vector = (v.as_ptr(), v.len() * N, v.capacity() * N)" if ok else
           "flattened vector is (%s, %s, %s)" % (ptr, ln, cap), f, t["sp"]["at"])
    md = [(b2, t2) for b2, t2 in f.calls() if (callee_of(t2) or {}).get("name") == "new" and "ManuallyDrop" in (callee_of(t2) or {}).get("full", "")
          and sym(f, t2["a"][0]) == ("arg", 1)]
    drops = [b2 for b2, b in enumerate(f.blocks) if not b.get("cleanup") and b["t"]["k"] == "drop" and "Vec<[" in f.local_ty(b["t"]["p"][0])] if f.blocks else []
    ok = bool(md) and not drops and all(f.must_cross([bi], cut_blocks=[b2]) for b2, _ in md)
    ctx.ob("R1", "flatten-vector:source-not-dropped", ok, "the source vector is moved into ManuallyDrop before its buffer is re-owned and is never dropped" if ok else
           "the source vector is not wrapped in ManuallyDrop (or is dropped): its buffer would be freed twice", f, t["sp"]["at"])


def r2_transpose(ctx, p=None, cfg=None):
    p = p or ctx.p
    N = ("N", "N")
    LEN = ("len", ("arg", 1))
    f = p.fn(UT + "transpose_slice")
    uv = [(bi, t) for bi, t in f.calls() if (callee_of(t) or {}).get("name") in ("uninit_vector", "with_capacity", "from_elem") and not f.is_cleanup(bi)]
    if len(uv) != 1:
        raise AnchorLost("transpose_slice: allocation of the result not found")
    bi, t = uv[0]
    rows = sym(f, t["a"][-1])
    ok = rows == ("bin", "Div", LEN, N)
    ctx.ob("R2", "transpose:row-count", ok, "the result has source.len() / N rows" if ok else "the result has %s rows, not source.len() / N" % (rows,), f, t["sp"]["at"])
    where = _equal_edge_dominates(f, bi, _divisible(LEN, N))
    ctx.ob("R2", "transpose:divisibility-checked", bool(where), "rows are allocated only when source.len() is a multiple of N (test at %s)" % where if where else
           "the result is allocated without a test that source.len() is a multiple of N", f, t["sp"]["at"])
    from .c03 import for_loops
    cfs = p.closures_of(f.key)
    full, dep = False, False
    for cf in cfs:
        for L in for_loops(cf):
            rng = None
            for b in cf.blocks:
                for s in b["s"]:
                    if s["k"] == "assign" and s["rv"][0] == "agg" and s["rv"][1].get("adt") == "core::ops::range::Range":
                        rng = (sym(cf, s["rv"][2][0]), sym(cf, s["rv"][2][1]))
            items = set(L["item_locals"]) | {L["item_local"]}
            for b2 in L["body"]:
                for s in cf.blocks[b2]["s"]:
                    if s["k"] != "assign" or not isinstance(s["p"][-1], str) or not s["p"][-1].startswith("[_"):
                        continue
                    j = int(s["p"][-1][2:-1])
                    if not (cf.copy_chain(j) & items):
                        continue
                    if rng == (("k", 0), N):
                        full = True
                    # the value read: source[index]; index must depend on the row, the column j and the row count
                    sl = cf.slice_of_operand(s["rv"][1], at=s["_pos"]) if s["rv"][0] == "use" and op_local(s["rv"][1]) is not None else None
                    if sl:
                        idxs = [int(e[2:-1]) for pl in sl["places"] for e in pl[1:] if isinstance(e, str) and e.startswith("[_")]
                        for bb in sl["calls"]:
                            tt = cf.term(bb)
                            if (callee_of(tt) or {}).get("name") in ("index", "get_unchecked") and len(tt["a"]) == 2 and op_local(tt["a"][1]) is not None:
                                idxs.append(op_local(tt["a"][1]))
                        for ix in idxs:
                            isl = cf.backward_slice([ix], at=s["_pos"])
                            from_row = 2 in isl["args"]
                            from_j = bool(isl["locals"] & items)
                            from_rc = any(pl[0] == 1 for pl in isl["places"])
                            if from_row and from_j and from_rc:
                                dep = True
    if not (full and dep):
        f2, d2 = _transpose_iter_form(p, cfs)
        full, dep = full or f2, dep or d2
    if not (full and dep):
        f3, d3 = _transpose_foreach_form(p, cfs)
        full, dep = full or f3, dep or d3
    ctx.ob("R2", "transpose:every-entry-written", full, "every row gets entry j written for j in 0..N" if full else
           "the closure does not write entry j of the row for every j in 0..N (uninitialised entries)", f)
    ctx.ob("R2", "transpose:source-index-depends-on-row-column-and-row-count", dep,
           "the source index depends on the row index, on j and on the captured row count" if dep else
           "the source index does not depend on all of row index, column j and row count: not a transposition", f)


def _transpose_iter_form(p, cfs):
    """`for (j, cell) in row.iter_mut().enumerate() { *cell = source[..] }`: every entry of the row (the closure's
    element parameter) is written through the loop item; j is the enumerate index."""
    from .c03 import for_loops
    full, dep = False, False
    for cf in cfs:
        for L in for_loops(cf):
            t = cf.term(L["header"])
            src = cf.slice_of_operand(t["a"][0], at=(L["header"], cf.INF))
            names = {(callee_of(cf.term(b)) or {}).get("name") for b in src["calls"]}
            if not {"iter_mut", "enumerate"} <= names or names & {"skip", "take", "step_by", "filter", "rev", "skip_while", "take_while"}:
                continue
            if 2 not in src["args"] and not any(pl[0] == 2 for pl in src["places"]):
                continue
            items = set(L["item_locals"]) | {L["item_local"]}
            for b2 in L["own_body"]:
                for s in cf.blocks[b2]["s"]:
                    if s["k"] != "assign" or len(s["p"]) < 2 or s["p"][-1] != "*":
                        continue
                    tgt = cf.backward_slice([s["p"][0]], at=s["_pos"])
                    if not (tgt["locals"] & items) and s["p"][0] not in items:
                        continue
                    full = True
                    vs = cf.slice_of_operand(s["rv"][1], at=s["_pos"]) if s["rv"][0] == "use" and op_local(s["rv"][1]) is not None else None
                    if not vs:
                        continue
                    idxs = [int(e[2:-1]) for pl in vs["places"] for e in pl[1:] if isinstance(e, str) and e.startswith("[_")]
                    for bb in vs["calls"]:
                        tt = cf.term(bb)
                        if (callee_of(tt) or {}).get("name") in ("index", "get_unchecked") and len(tt["a"]) == 2 and op_local(tt["a"][1]) is not None:
                            idxs.append(op_local(tt["a"][1]))
                    for ix in idxs:
                        isl = cf.backward_slice([ix], at=s["_pos"])
                        # row index: the outer closure parameter; column: this loop's item; row count: captured
                        if 2 in isl["args"] and (isl["locals"] & items) and any(pl[0] == 1 for pl in isl["places"]):
                            dep = True
    return full, dep


def _transpose_foreach_form(p, cfs):
    """`row.iter_mut().enumerate().for_each(|(j, cell)| *cell = source[i + j * row_count])` inside the per-row closure."""
    from ..patterns import upvar_origins, arg_slice
    full, dep = False, False
    for co in cfs:
        for bi, t in co.calls():
            if (callee_of(t) or {}).get("name") != "for_each" or co.is_cleanup(bi) or len(t["a"]) != 2:
                continue
            recv = arg_slice(co, t, 0)
            names = {(callee_of(co.term(b)) or {}).get("name") for b in recv["calls"]}
            if not {"iter_mut", "enumerate"} <= names or names & {"skip", "take", "step_by", "filter", "rev", "skip_while", "take_while"}:
                continue
            if 2 not in recv["args"] and not any(pl[0] == 2 for pl in recv["places"]):
                continue
            for ck in arg_slice(co, t, 1)["closures"]:
                ci = p.funcs.get(ck)
                if ci is None:
                    continue
                for b in ci.blocks:
                    for s in b["s"]:
                        if b.get("cleanup") or s["k"] != "assign" or len(s["p"]) < 2 or s["p"][-1] != "*":
                            continue
                        tgt = ci.backward_slice([s["p"][0]], at=s["_pos"])
                        if 2 not in tgt["args"] and s["p"][0] != 2 and not any(pl[0] == 2 for pl in tgt["places"]):
                            continue
                        full = True
                        vs = ci.slice_of_operand(s["rv"][1], at=s["_pos"]) if s["rv"][0] == "use" and op_local(s["rv"][1]) is not None else None
                        if not vs:
                            continue
                        idxs = [int(e[2:-1]) for pl in vs["places"] for e in pl[1:] if isinstance(e, str) and e.startswith("[_")]
                        for bb in vs["calls"]:
                            tt = ci.term(bb)
                            if (callee_of(tt) or {}).get("name") in ("index", "get_unchecked") and len(tt["a"]) == 2 and op_local(tt["a"][1]) is not None:
                                idxs.append(op_local(tt["a"][1]))
                        for ix in idxs:
                            isl = ci.backward_slice([ix], at=s["_pos"])
                            from_j = 2 in isl["args"] or any(pl[0] == 2 for pl in isl["places"])
                            from_row, from_rc = False, False
                            for pf, locs in upvar_origins(p, ci, isl):
                                if pf.key == co.key:
                                    for l in locs:
                                        bs = co.backward_slice([l])
                                        if 2 in bs["args"] or l == 2:
                                            from_row = True
                                        if any(pl[0] == 1 for pl in bs["places"]) or l == 1:
                                            from_rc = True
                            if from_j and from_row and from_rc:
                                dep = True
    return full, dep


def _batch_closures(p, key):
    """the |batch, batch_offset| closure handed to batch_iter_mut!; the concurrent expansion of the macro pastes the
    closure expression twice (serial fallback and per-chunk call), so there may be two bodies: all are checked."""
    cs = [c for c in p.closures_of(key) if c.argc == 3 and c.local_ty(3) == "usize"]
    if not 1 <= len(cs) <= 2:
        raise AnchorLost("%s: batch closure |batch, batch_offset| not found (%d candidates)" % (key, len(cs)))
    return [p.fn(c.key) for c in cs]      # private helpers called by the closure are spliced


def r3_batch_offsets(ctx, p=None, cfg=None):
    p = p or ctx.p
    for nm, cf in [(nm, cf) for nm in ("get_power_series", "get_power_series_with_offset") for cf in _batch_closures(p, MU + nm)]:
        fp = [(bi, t) for bi, t in cf.calls() if (callee_of(t) or {}).get("name") == "fill_power_series" and not cf.is_cleanup(bi)]
        if len(fp) != 1:
            raise AnchorLost("%s: fill_power_series call not found" % nm)
        bi, t = fp[0]
        dst = sym(cf, t["a"][0])
        st = cf.slice_of_operand(t["a"][2], at=(bi, cf.INF))
        names = {(callee_of(cf.term(b)) or {}).get("name") for b in st["calls"]}
        ok = dst == ("arg", 2) and 3 in st["args"] and "exp" in names
        if ok:
            # the offset is the exponent of the series' base
            ok = False
            for b in st["calls"]:
                tt = cf.term(b)
                if (callee_of(tt) or {}).get("name") in ("exp", "exp_vartime") and len(tt["a"]) == 2:
                    es = cf.slice_of_operand(tt["a"][1], at=(b, cf.INF))
                    bs = cf.slice_of_operand(tt["a"][0], at=(b, cf.INF))
                    if 3 in es["args"] and 3 not in bs["args"] and any(pl[0] == 1 for pl in bs["places"]):
                        ok = True
        ctx.ob("R3", "%s:first-power-from-batch-offset" % nm, ok,
               "the batch is filled starting from base.exp(batch_offset)" if ok else
               "the first power of a batch is not derived from base.exp(batch_offset): batches after the first would repeat the series", cf, t["sp"]["at"])
    for cf in _batch_closures(p, MU + "batch_inversion"):
        _r3_inversion_window(ctx, cf)


def _r3_inversion_window(ctx, cf):
    sb = [(bi, t) for bi, t in cf.calls() if (callee_of(t) or {}).get("name") == "serial_batch_inversion" and not cf.is_cleanup(bi)]
    if len(sb) != 1:
        raise AnchorLost("batch_inversion: serial_batch_inversion call not found")
    bi, t = sb[0]
    ok, how = False, "the input window handed to serial_batch_inversion is not values[batch_offset..batch_offset + batch.len()]"
    dst = sym(cf, t["a"][1])
    sl = cf.slice_of_operand(t["a"][0], at=(bi, cf.INF))
    for b in cf.blocks:
        for s in b["s"]:
            if s["k"] == "assign" and s["rv"][0] == "agg" and s["rv"][1].get("adt") == "core::ops::range::Range" and s["p"][0] in sl["locals"]:
                lo, hi = sym(cf, s["rv"][2][0]), sym(cf, s["rv"][2][1])
                want_hi = ("bin", "Add", *sorted([("arg", 3), ("len", ("arg", 2))], key=repr))
                if lo == ("arg", 3) and hi == want_hi and dst == ("arg", 2) and any(pl[0] == 1 for pl in sl["places"]):
                    ok, how = True, "serial_batch_inversion(&values[batch_offset..batch_offset + batch.len()], batch)"
    ctx.ob("R3", "batch_inversion:window-from-batch-offset", ok, how, cf, t["sp"]["at"])


def r4_zero_skipping(ctx, p=None, cfg=None):
    p = p or ctx.p
    f = p.fn(MU + "serial_batch_inversion")      # private predicates wrapping the zero test are spliced
    # tests against ZERO
    tests = []
    for bi, t in f.calls():
        c = callee_of(t) or {}
        if f.is_cleanup(bi) or c.get("name") not in ("eq", "ne") or len(t["a"]) != 2:
            continue
        zs = [i for i in range(2) if _is_zero_const(f, t["a"][i], bi)]
        if len(zs) != 1:
            continue
        other = f.slice_of_operand(t["a"][1 - zs[0]], at=(bi, f.INF))
        if 1 in other["args"]:
            for ch in f.bool_checks_of(bi):
                nonzero_edges = ch["false_edges"] if c["name"] == "eq" else ch["true_edges"]
                zero_edges = ch["true_edges"] if c["name"] == "eq" else ch["false_edges"]
                tests.append((bi, nonzero_edges, zero_edges))
    if len(tests) < 2:
        ctx.ob("R4", "both-passes-test-for-zero", False, "serial_batch_inversion tests its inputs against ZERO in %d place(s); both passes need the test" % len(tests), f)
        return
    ctx.ob("R4", "both-passes-test-for-zero", True, "both passes compare the input value with ZERO", f)
    # every multiplication by an input value lies behind a non-zero edge
    muls = []
    for bi, t in f.calls():
        c = callee_of(t) or {}
        if f.is_cleanup(bi) or c.get("name") not in ("mul_assign", "mul") or len(t["a"]) != 2:
            continue
        rhs = f.slice_of_operand(t["a"][1], at=(bi, f.INF))
        if 1 in rhs["args"]:
            muls.append((bi, t))
    if len(muls) < 2:
        raise AnchorLost("serial_batch_inversion: multiplications by input values not found")
    bad = []
    for bi, t in muls:
        if not any(edges and f.must_cross([bi], cut_edges=edges) for _, edges, _ in tests):
            bad.append(ir.line_of(t["sp"]["at"]))
    ctx.ob("R4", "products-skip-zeros", not bad, "every multiplication by an input value lies behind the value's non-zero edge (%d sites)" % len(muls) if not bad else
           "the running product is multiplied by an input value that was not tested against ZERO (%s): one zero input would zero every result" % ", ".join(bad), f)
    # ZERO is stored for a zero input
    zstore = False
    for bi, b in enumerate(f.blocks):
        if b.get("cleanup"):
            continue
        for s in b["s"]:
            if s["k"] == "assign" and s["rv"][0] == "use" and _is_zero_const(f, s["rv"][1], bi) and len(s["p"]) >= 2:
                root = f._mutref_origins(s["p"][0], f._defs or (f.defs(0) and f._defs), set()) if s["p"][0] > f.argc else {s["p"][0]}
                if (2 in root or s["p"][0] == 2) and any(edges and f.must_cross([bi], cut_edges=edges) for _, _, edges in tests):
                    zstore = True
    ctx.ob("R4", "zero-input-gives-zero", zstore, "result[i] = ZERO is stored on the zero edge of the test" if zstore else
           "no store of ZERO into the result on the zero edge: a zero input would keep a partial product", f)
    # the product is inverted between the passes
    invs = [(bi, t) for bi, t in f.calls() if (callee_of(t) or {}).get("name") == "inv" and not f.is_cleanup(bi)]
    ok = False
    if len(invs) == 1:
        ib = invs[0][0]
        first = min(b for b, _, _ in tests)
        last = max(b for b, _, _ in tests)
        ok = first != last and f.can_reach(first, [ib]) and f.can_reach(ib, [last]) and not f.can_reach(last, [ib]) and \
            f.must_cross([last], cut_blocks=[ib])
    ctx.ob("R4", "product-inverted-once-between-passes", ok, "last = last.inv() separates the forward pass from the backward pass" if ok else
           "the running product is not inverted exactly once between the two passes", f)


def _is_zero_const(f, op, bi):
    c = op_const(op)
    if c is not None:
        return str(c.get("uneval") or c.get("uneval_def") or "").endswith("::ZERO")
    l = op_local(op)
    if l is None:
        return False
    for x in f.copy_chain(l) | {l}:
        for d in f.defs(x):
            if d["kind"] == "assign" and d.get("p") and len(d["p"]) == 1:
                rv = d["rv"]
                if rv[0] == "use" and op_const(rv[1]) is not None and str(op_const(rv[1]).get("uneval") or op_const(rv[1]).get("uneval_def") or "").endswith("::ZERO"):
                    return True
                if rv[0] == "ref" and len(rv[2]) == 1 and rv[2][0] != l and _is_zero_const(f, ["cp", rv[2]], bi):
                    return True
    return False


def r5_length_asserts(ctx, p=None, cfg=None):
    p = p or ctx.p
    for nm in ("add_in_place", "mul_acc"):
        f = p.fn(MU + nm)
        zs = [(bi, t) for bi, t in f.calls() if (callee_of(t) or {}).get("name") == "zip" and not f.is_cleanup(bi)]
        if not zs:
            raise AnchorLost("%s: zip not found" % nm)
        A, B = ("len", ("arg", 1)), ("len", ("arg", 2))
        where = None
        for bi, t in zs:
            where = _equal_edge_dominates(f, bi, lambda a, b: a == A and b == B)
        ctx.ob("R5", "%s:lengths-equal-before-zip" % nm, bool(where), "a.len() == b.len() is asserted (%s) before the operands are zipped" % where if where else
               "the operands are zipped without asserting a.len() == b.len(): a shorter operand would silently truncate the operation", f, zs[0][1]["sp"]["at"])


def r6_every_length(ctx, p=None, cfg=None):
    """`for every length` includes 0: a write at a constant position of the batch handed to fill_power_series (the
    first power) must lie behind a test that the batch holds that position."""
    p = p or ctx.p
    f = p.fn(MU + "fill_power_series", inline=False)
    n = 0
    for bi, b in enumerate(f.blocks):
        t = b["t"]
        if b.get("cleanup") or t["k"] != "assert" or t.get("ak") != "BoundsCheck" or len(t.get("ao") or []) != 2:
            continue
        iv = sym(f, t["ao"][1])
        if iv[0] != "k":
            continue
        idx = iv[1]
        n += 1
        ok = False
        # (a) `if result.is_empty() { return }` / `if !result.is_empty()`
        for b2, t2 in f.calls():
            if (callee_of(t2) or {}).get("name") == "is_empty" and not f.is_cleanup(b2) and sym(f, t2["a"][0]) == ("arg", 1) and idx == 0:
                for ch in f.bool_checks_of(b2):
                    if ch["false_edges"] and f.must_cross([bi], cut_edges=ch["false_edges"]):
                        ok = True
        # (b) a comparison of result.len() with a constant that excludes lengths <= idx
        from ..patterns import cmp_sites
        for s in cmp_sites(f):
            a, bq = sym(f, s["a"]), sym(f, s["b"])
            for ln, k, swapped in ((a, bq, False), (bq, a, True)):
                if ln != ("len", ("arg", 1)) or k[0] != "k":
                    continue
                for ch in f.bool_checks_of_local(s["local"]):
                    for edges, rel in ((ch["true_edges"], s["op"]), (ch["false_edges"], {"Eq": "Ne", "Ne": "Eq", "Lt": "Ge", "Ge": "Lt", "Le": "Gt", "Gt": "Le"}[s["op"]])):
                        if swapped:
                            rel = {"Lt": "Gt", "Gt": "Lt", "Le": "Ge", "Ge": "Le"}.get(rel, rel)
                        holds = (rel == "Gt" and k[1] >= idx) or (rel == "Ge" and k[1] >= idx + 1) or (rel == "Ne" and k[1] == 0 and idx == 0)
                        if holds and edges and f.must_cross([bi], cut_edges=edges):
                            ok = True
        ctx.ob("R6", "fill_power_series:constant-position-%d-guarded" % idx, ok,
               "the write at position %d lies behind a test that the batch is long enough (length 0 returns an empty series)" % idx if ok else
               "fill_power_series writes position %d of the batch without testing that it exists: get_power_series(b, 0) panics instead of returning an empty vector" % idx,
               f, t["sp"]["at"])
    if n == 0:
        # no constant-position write at all (e.g. an iterator form): nothing to guard
        ctx.ob("R6", "fill_power_series:constant-position-guarded", True, "no write at a constant position of the batch", f, nontrivial=False)


class _Cfg:
    """the same rules on another build configuration: obligations get the configuration's name."""
    def __init__(self, ctx, cfg):
        self._ctx, self._cfg = ctx, cfg
        self.p = ctx.prog(cfg)

    def ob(self, rid, inst, ok, how, *a, **kw):
        kw.setdefault("cfg", self._cfg)
        return self._ctx.ob(rid, "%s[%s]" % (inst, self._cfg), ok, how, *a, **kw)

    def __getattr__(self, k):
        return getattr(self._ctx, k)


def thorough(ctx):
    """the concurrent build compiles the same functions with batch_iter_mut / iter_mut expanded to rayon combinators."""
    c2 = _Cfg(ctx, "concurrent")
    for rid, fn in (("R1", r1_regrouping), ("R2", r2_transpose), ("R3", r3_batch_offsets), ("R4", r4_zero_skipping), ("R5", r5_length_asserts)):
        ctx.guard(rid, lambda _c, fn=fn: fn(c2))


def run(ctx):
    ctx.rule("R1", "re-grouping casts: source pointer, length (and capacity) scaled by the const generic N, divisibility tested before the dividing cast, source vector not dropped", 6)
    ctx.rule("R2", "transpose_slice: len / N rows behind a divisibility test; entry j written for j in 0..N; source index depends on row, column and row count", 4)
    ctx.rule("R3", "batch closures start from the batch offset: base.exp(batch_offset) for power series, values[offset..offset + batch.len()] for batch inversion", 3)
    ctx.rule("R4", "serial_batch_inversion: both passes test for ZERO, products skip zeros, ZERO stored for a zero input, one inversion between the passes", 4)
    ctx.rule("R5", "add_in_place / mul_acc: equal lengths asserted before zip", 2)
    ctx.rule("R6", "every length includes 0: the first power is written only into a batch that has a first position", 1)
    for rid, fn in (("R1", r1_regrouping), ("R2", r2_transpose), ("R3", r3_batch_offsets), ("R4", r4_zero_skipping), ("R5", r5_length_asserts), ("R6", r6_every_length)):
        ctx.guard(rid, fn)
    ctx.assume("field multiplication / inversion / exponentiation are exact (C10); rayon's par_chunks_mut hands out disjoint batches in order (C06)")
    ctx.assume("the element-wise results and the element order of transposition are value-level and decided only through the dependences above")
