"""C19 — Merkle verification rejects wrong data and never panics (structural clauses)."""
from .. import ir, panics
from ..ir import AnchorLost, callee_of, op_local
from ..patterns import (calls_to, arg_slice, check_result_guard, check_bool_guard, cmp_sites, cmp_reject_relation,
                        slice_field_bases, ok_payload_slice)
from . import c05

MT = "winter_crypto::merkle::MerkleTree::<H>::"
BMP = "winter_crypto::merkle::proofs::BatchMerkleProof::<H>::"
MAP_INDEXES = "winter_crypto::merkle::map_indexes"
MERGE = "winter_crypto::hash::Hasher::merge"

ENTRIES = [BMP + "get_root", BMP + "into_openings", MT + "verify_batch",
           "<winter_crypto::merkle::proofs::BatchMerkleProof<H> as winter_utils::serde::Deserializable>::read_from",
           "winter_crypto::merkle::proofs::get_proof", MAP_INDEXES, "winter_crypto::merkle::normalize_indexes",
           "<winter_crypto::merkle::MerkleTree<H> as winter_crypto::commitment::VectorCommitment<H>>::verify_many",
           "<winter_crypto::merkle::MerkleTree<H> as winter_crypto::commitment::VectorCommitment<H>>::get_multiproof_domain_len"]


def entry_points(prog):
    missing = [k for k in ENTRIES if k not in prog.funcs]
    if missing:
        raise AnchorLost("Merkle entry points not found: %s" % missing)
    return list(ENTRIES)


make_stop = c05.make_stop


def leaf_count(p, nm):
    """every supplied leaf takes part: a leaf list longer (or shorter) than the index list is
    rejected (surplus leaves would otherwise be ignored by the root reconstruction)."""
    h = p.fn(BMP + nm)
    idx_param, leaf_param = (2, 3) if nm == "get_root" else (3, 2)
    cnt, chow = False, "%s does not reject leaves.len() != indexes.len()" % nm
    for cs in cmp_sites(h):
        sa = h.slice_of_operand(cs["a"], at=(cs["bb"], 10**6))
        sb = h.slice_of_operand(cs["b"], at=(cs["bb"], 10**6))
        pa, pb = set(sa["args"]), set(sb["args"])
        if {frozenset(pa), frozenset(pb)} != {frozenset([idx_param]), frozenset([leaf_param])}:
            continue
        okc, howc, rel = cmp_reject_relation(h, cs)
        if okc and rel == "Ne":
            cnt, chow = True, "%s: indexes.len() != leaves.len() -> Err: %s" % (nm, howc)
    return cnt, chow


def nodes_consumed(p):
    """every supplied proof node takes part: before get_root returns Ok, the consumption pointer of
    each node vector is compared with that vector's length (surplus nodes would otherwise be ignored)."""
    from .c03 import for_loops
    h = p.fn(BMP + "get_root")
    pp = set(h.locals_named("proof_pointers"))
    oks = h.ok_exit_blocks()
    for L in for_loops(h):
        if not h.must_cross(oks, cut_blocks=[L["header"]]):
            continue
        for cs in cmp_sites(h):
            if cs["bb"] not in L["body"] or cs["op"] not in ("Ne", "Eq"):
                continue
            sa = h.slice_of_operand(cs["a"], at=(cs["bb"], 10**6))
            sb = h.slice_of_operand(cs["b"], at=(cs["bb"], 10**6))
            locs = sa["locals"] | sb["locals"]
            names = {(callee_of(h.term(b)) or {}).get("name") for b in sa["calls"] | sb["calls"]}
            fields = set(slice_field_bases(sa)) | set(slice_field_bases(sb))
            if not (pp & locs) or "len" not in names or "nodes" not in fields:
                continue
            okc, howc, rel = cmp_reject_relation(h, cs, per_iteration=L)
            if okc and rel == "Ne":
                return True, "get_root: pointer != nodes.len() -> Err for every node vector before the root is returned: " + howc
    # iterator form: proof_pointers.iter().zip(self.nodes.iter()).any(|(p, n)| *p != n.len()) -> Err
    for bi, t in h.calls():
        c = callee_of(t)
        if h.is_cleanup(bi) or not c or c.get("name") not in ("any", "all") or len(t["a"]) != 2:
            continue
        rs = h.slice_of_operand(t["a"][0], at=(bi, 10**6))
        if not (pp & rs["locals"]) or "nodes" not in set(slice_field_bases(rs)):
            continue
        rel = None
        for ck in rs["closures"] | h.slice_of_operand(t["a"][1], at=(bi, 10**6))["closures"]:
            cf = p.funcs.get(ck)
            if not cf:
                continue
            for cs in cmp_sites(cf):
                names = {(callee_of(cf.term(b)) or {}).get("name") for o in (cs["a"], cs["b"]) if op_local(o) is not None
                         for b in cf.slice_of_operand(o, at=(cs["bb"], 10**6))["calls"]}
                if "len" in names and cs["op"] in ("Ne", "Eq") and cs["local"] in cf.copy_chain(0) | {cs["local"]}:
                    rel = cs["op"]
        if rel is None:
            continue
        # any(!=) rejects when true; all(==) rejects when false
        want_reject = (c["name"] == "any" and rel == "Ne") or (c["name"] == "all" and rel == "Eq")
        if not want_reject:
            continue
        okg, howg = check_bool_guard(h, bi, reject_when=(c["name"] == "any"))
        if okg:
            return True, "get_root: %s(pointer %s nodes.len()) over every node vector guards the Ok exit: %s" % (c["name"], "!=" if rel == "Ne" else "==", howg)
    return False, "get_root does not check that every node vector of the proof was consumed (surplus proof nodes are ignored)"


def r1_rejection(ctx):
    p = ctx.p
    f = p.fn(MT + "verify")
    hit = None
    for bi, t in f.calls():
        c = callee_of(t)
        if c and c.get("name") in ("ne", "eq") and len(t["a"]) == 2:
            s0, s1 = arg_slice(f, t, 0), arg_slice(f, t, 1)
            for x, y in ((s0, s1), (s1, s0)):
                if 1 in y["args"] and any(ir.is_call_to(f.term(b), MERGE) for b in x["calls"]):
                    hit = (bi, t, c["name"], x)
    if not hit:
        ctx.ob("R1", "verify-root-comparison", False, "MerkleTree::verify does not compare the recomputed value with `root`", f)
    else:
        ok, how = check_bool_guard(f, hit[0], reject_when=(hit[2] == "ne"))
        x = hit[3]
        # leaf and proof nodes flow into the value; the index selects the merge order (control dependence)
        idx_ctl = any(b["t"]["k"] == "switch" and 2 in f.slice_of_operand(b["t"]["d"], at=(bi2, f.INF))["args"]
                      for bi2, b in enumerate(f.blocks) if not b.get("cleanup"))
        wired = {3} <= x["args"] and {4} <= x["args"] and idx_ctl
        ctx.ob("R1", "verify-root-comparison", ok and wired,
               "Ok only if merge-chain(leaf, proof nodes, index bits) == root: " + how if ok and wired else
               "root comparison does not guard the Ok exit or the recomputed value ignores leaf/proof/index", f, hit[1]["sp"]["at"])
    g = p.fn(MT + "verify_batch")
    gr = calls_to(g, BMP + "get_root", 1, "get_root")[0]
    okp, howp = check_result_guard(g, gr[0])
    hit = None
    for bi, t in g.calls():
        c = callee_of(t)
        if c and c.get("name") in ("ne", "eq") and len(t["a"]) == 2:
            s0, s1 = arg_slice(g, t, 0), arg_slice(g, t, 1)
            for x, y in ((s0, s1), (s1, s0)):
                if gr[0] in x["calls"] and 1 in y["args"]:
                    hit = (bi, t, c["name"])
    ok = False
    how = "verify_batch does not compare proof.get_root(indexes, leaves)? with the root"
    if hit:
        ok, how = check_bool_guard(g, hit[0], reject_when=(hit[2] == "ne"))
    args_ok = 2 in arg_slice(g, gr[1], 1)["args"] and 3 in arg_slice(g, gr[1], 2)["args"] and 4 in arg_slice(g, gr[1], 0)["args"]
    ctx.ob("R1", "verify_batch-root-comparison", ok and okp and args_ok,
           "Ok only if *root == proof.get_root(indexes, leaves)?: " + how if ok and okp and args_ok else how, g, gr[1]["sp"]["at"])
    for nm in ("get_root", "into_openings"):
        h = p.fn(BMP + nm)
        mi = calls_to(h, MAP_INDEXES, 1, "map_indexes")[0]
        ok, how = check_result_guard(h, mi[0])
        idx_param = 2 if nm == "get_root" else 3
        wired = idx_param in arg_slice(h, mi[1], 0)["args"] and "depth" in slice_field_bases(arg_slice(h, mi[1], 1))
        ctx.ob("R1", "%s-validates-indexes" % nm, ok and wired,
               "%s: map_indexes(indexes, self.depth)? guards every Ok exit: " % nm + how if ok and wired else
               "%s does not validate the indexes with map_indexes(indexes, self.depth)?" % nm, h, mi[1]["sp"]["at"])
        cnt, chow = leaf_count(p, nm)
        ctx.ob("R1", "%s-leaf-count" % nm, cnt, chow, h)
    nc, nhow = nodes_consumed(p)
    ctx.ob("R1", "get_root-nodes-consumed", nc, nhow, p.fn(BMP + "get_root"))
    m = p.fn(MAP_INDEXES)
    # range check and duplicate check
    rng, dup = False, False
    for s in cmp_sites(m):
        sa, sb = m.slice_of_operand(s["a"], at=(s["bb"], 10**6)), m.slice_of_operand(s["b"], at=(s["bb"], 10**6))
        names_a = {(callee_of(m.term(b)) or {}).get("name") for b in sa["calls"]}
        names_b = {(callee_of(m.term(b)) or {}).get("name") for b in sb["calls"]}
        def _pow_in_closure(sl):
            # `.and_then(|d| 2usize.checked_pow(d))`: the power is computed inside a closure of the chain
            for ck in sl["closures"]:
                cf = p.funcs.get(ck)
                if cf is not None and any((callee_of(t) or {}).get("name") in ("pow", "checked_pow") for _, t in cf.calls()):
                    return True
            return False
        for nms, sl_ in ((names_a, sa), (names_b, sb)):
            if "checked_pow" in nms or _pow_in_closure(sl_):
                nms.add("pow")
        if "pow" in names_b or "pow" in names_a:
            oks = m.ok_exit_blocks()
            NEG = {"Ge": "Lt", "Lt": "Ge", "Le": "Gt", "Gt": "Le"}
            for c in m.bool_checks_of_local(s["local"]):
                t_reach = any(m.can_reach(t, oks) for _, t in c["true_edges"])
                f_reach = any(m.can_reach(t, oks) for _, t in c["false_edges"])
                if t_reach == f_reach or s["op"] not in NEG:
                    continue
                # relation under which the function rejects, read as  a REL b
                rel = s["op"] if not t_reach else NEG[s["op"]]
                if (rel == "Ge" and "pow" in names_b) or (rel == "Le" and "pow" in names_a):
                    rng = True
        if "len" in names_a and "len" in names_b:
            ok, how, rel = cmp_reject_relation(m, s)
            if ok and rel == "Ne":
                dup = True
    ctx.ob("R1", "map_indexes-range-check", rng, "map_indexes: index >= 2^depth -> Err(LeafIndexOutOfBounds) inside the loop" if rng else
           "map_indexes no longer rejects indexes >= 2^depth", m)
    ctx.ob("R1", "map_indexes-duplicate-check", dup, "map_indexes: indexes.len() != map.len() -> Err(DuplicateLeafIndex)" if dup else
           "map_indexes no longer rejects duplicate indexes", m)
    # leaves / nodes are read only behind their length guards: counted by the A5 inventory (R2)


def r2_no_panic(ctx):
    entries = entry_points(ctx.p)
    ctx.ob("ENTRY", "entry-points", True, "%d Merkle entry points resolved" % len(entries), "entry-set", nontrivial=False)
    c05.run_inventory(ctx, "R2", entries, "hash permutation bodies excluded")


def run(ctx):
    ctx.rule("R1", "MerkleTree::verify / verify_batch accept only behind the root comparison over values derived from leaf, proof and index; get_root / into_openings validate indexes with map_indexes(..)? and reject a leaf count different from the index count; get_root checks that every proof node was consumed; map_indexes has the range and duplicate checks", 9)
    ctx.rule("R2", "no undischarged panic / abort site reachable from BatchMerkleProof::{read_from, get_root, into_openings}, verify_batch, get_proof, map_indexes, normalize_indexes (A5)", 30)
    ctx.rule("ENTRY", "entry points resolved", 1)
    ctx.guard("R1", r1_rejection)
    ctx.guard("R2", r2_no_panic)
    ctx.assume("collision resistance of the hash; that every single-element substitution changes the root (cryptographic)")
    ctx.assume("single-opening MerkleTree::verify with an empty proof slice indexes proof[0]: the no-panic clause of the property covers batch operations only")
