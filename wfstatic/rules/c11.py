"""C11 — field constants and canonical encodings.

R1: number theory on the compiler-evaluated constants of every StarkField impl.
R2: extension tables (degrees, is_supported vs. unimplemented mul).
R3: every decoder of a field element rejects values >= MODULUS before constructing the element,
    or delegates to a decoder that does; encodings are little-endian.
"""
from .. import ir, numth, intervals
from ..ir import AnchorLost, callee_of, op_place, op_local, op_const, is_call_to
from ..patterns import (calls_to, arg_slice, cmp_sites, cmp_reject_relation, slice_field_bases)

STARK = "winter_math::field::traits::StarkField"
FE = "winter_math::field::traits::FieldElement"
EXT = "winter_math::field::traits::ExtensibleField"
DESER = "winter_utils::serde::Deserializable"
RANDOMIZABLE = "winter_utils::Randomizable"
TRYFROM = "core::convert::TryFrom"


def cval(c):
    v = c.get("value")
    if not v:
        return None
    if "scalar" in v:
        return int(v["scalar"])
    if "bytes" in v and not v.get("has_ptrs"):
        return int.from_bytes(bytes.fromhex(v["bytes"]), "little")
    return None


def trait_consts(p, trait, self_ty):
    out = {}
    for k, c in p.consts.items():
        if c.get("impl_trait") == trait and c.get("self_ty") == self_ty:
            out[c["name"]] = c
    return out


def stark_fields(p):
    return sorted(i["self_ty"] for i in p.impls_of_trait(STARK))


def r1_number_theory(ctx):
    p = ctx.p
    fields = stark_fields(p)
    if len(fields) < 3:
        raise AnchorLost("expected 3 StarkField impls, found %s" % fields)
    for ty in fields:
        short = ty.split("::")[-2]
        sc = trait_consts(p, STARK, ty)
        fc = trait_consts(p, FE, ty)
        for need in ("MODULUS", "MODULUS_BITS", "TWO_ADICITY", "GENERATOR", "TWO_ADIC_ROOT_OF_UNITY"):
            if need not in sc or cval(sc[need]) is None:
                raise AnchorLost("%s::%s not evaluated" % (ty, need))
        M = cval(sc["MODULUS"])
        at = sc["MODULUS"]["at"]
        ok, cert = numth.prove_prime(M)
        ctx.ob("R1", "%s:modulus-prime" % short, ok, "MODULUS = %d is prime: %s" % (M, cert) if ok else
               "MODULUS = %d is NOT prime (%s)" % (M, cert), ty, at)
        bits = cval(sc["MODULUS_BITS"])
        ctx.ob("R1", "%s:modulus-bits" % short, bits == M.bit_length(),
               "MODULUS_BITS = %d = bit length of the modulus" % bits if bits == M.bit_length() else
               "MODULUS_BITS = %d but the modulus has %d bits" % (bits, M.bit_length()), ty, sc["MODULUS_BITS"]["at"])
        adic = cval(sc["TWO_ADICITY"])
        ctx.ob("R1", "%s:two-adicity" % short, adic == numth.v2(M - 1),
               "TWO_ADICITY = %d = v2(M-1)" % adic if adic == numth.v2(M - 1) else
               "TWO_ADICITY = %d but v2(M-1) = %d" % (adic, numth.v2(M - 1)), ty, sc["TWO_ADICITY"]["at"])
        canonical = bool(cval(fc["IS_CANONICAL"]))
        ebytes = cval(fc["ELEMENT_BYTES"])
        R = 1 if canonical else pow(2, 8 * ebytes, M)
        Rinv = pow(R, -1, M) if ok else 1

        def value_of(word):
            return word * Rinv % M
        one, zero = cval(fc["ONE"]), cval(fc["ZERO"])
        ctx.ob("R1", "%s:one-zero-words" % short, zero == 0 and value_of(one) == 1 and (not canonical or one < M),
               "ZERO word = 0, ONE word = %d represents 1 (%s)" % (one, "canonical" if canonical else "Montgomery, R = 2^%d" % (8 * ebytes)),
               ty, fc["ONE"]["at"])
        # as_int is the identity on the backing word exactly when IS_CANONICAL
        as_int = [f for f in p.impl_methods(FE, "as_int") if f.raw.get("self_ty") == ty] or \
                 [f for f in p.impl_methods(STARK, "as_int") if f.raw.get("self_ty") == ty]
        if not as_int:
            raise AnchorLost("%s::as_int not found" % ty)
        calls = [t for _, t in as_int[0].calls()]
        ident = len(calls) == 0
        ctx.ob("R1", "%s:is-canonical-matches-representation" % short, ident == canonical,
               "IS_CANONICAL = %s and as_int() %s" % (canonical, "returns the backing word unchanged" if ident else
                                                      "reduces the backing word (%s)" % ", ".join(sorted({callee_of(t)["name"] for t in calls if callee_of(t)}))),
               as_int[0], as_int[0].at)
        g = value_of(cval(sc["GENERATOR"]))
        fs = numth.factor(M - 1) if ok else {}
        gen_ok = ok and (not canonical or cval(sc["GENERATOR"]) < M) and numth.has_order(g, list(fs), M - 1, M)
        ctx.ob("R1", "%s:generator-order" % short, gen_ok,
               "GENERATOR (value %d) has order M-1: g^((M-1)/q) != 1 for q in %s" % (g, sorted(fs)) if gen_ok else
               "GENERATOR (value %d) does not generate the multiplicative group" % g, ty, sc["GENERATOR"]["at"])
        w = value_of(cval(sc["TWO_ADIC_ROOT_OF_UNITY"]))
        root_ok = ok and (not canonical or cval(sc["TWO_ADIC_ROOT_OF_UNITY"]) < M) and pow(w, 1 << adic, M) == 1 and pow(w, 1 << (adic - 1), M) != 1
        # exhaustively: root^(2^(adic-n)) has exact order 2^n for n = 1..adic
        allok = root_ok
        x = w
        for n in range(adic, 0, -1):
            if not (pow(x, 1 << n, M) == 1 and pow(x, 1 << (n - 1), M) != 1):
                allok = False
            x = x * x % M
        ctx.ob("R1", "%s:root-of-unity-orders" % short, allok,
               "TWO_ADIC_ROOT_OF_UNITY (value %d) has exact order 2^%d; its 2^(%d-n)-th power has exact order 2^n for all n=1..%d (checked exhaustively)"
               % (w, adic, adic, adic) if allok else "TWO_ADIC_ROOT_OF_UNITY (value %d) does not have exact order 2^%d" % (w, adic),
               ty, sc["TWO_ADIC_ROOT_OF_UNITY"]["at"])
        # module-level helper constants
        mod = ty.rsplit("::", 1)[0]
        helpers = {k[len(mod) + 2:]: c for k, c in p.consts.items() if k.startswith(mod + "::") and "<" not in k}
        if "M" in helpers:
            ctx.ob("R1", "%s:M-equals-MODULUS" % short, cval(helpers["M"]) == M, "const M = MODULUS", ty, helpers["M"]["at"])
        if "R2" in helpers:
            good = cval(helpers["R2"]) == pow(R, 2, M)
            ctx.ob("R1", "%s:R2" % short, good, "R2 = R^2 mod M (R = 2^%d)" % (8 * ebytes) if good else
                   "R2 = %d is not 2^%d mod M" % (cval(helpers["R2"]), 16 * ebytes), ty, helpers["R2"]["at"])
        if "R3" in helpers:
            good = cval(helpers["R3"]) == pow(R, 3, M)
            ctx.ob("R1", "%s:R3" % short, good, "R3 = R^3 mod M" if good else "R3 is not R^3 mod M", ty, helpers["R3"]["at"])
        if "U" in helpers:
            good = (M * cval(helpers["U"]) + 1) % (1 << 64) == 0
            ctx.ob("R1", "%s:U" % short, good, "U = -M^-1 mod 2^64 (M*U = -1 mod 2^64)" if good else "U is not -M^-1 mod 2^64", ty, helpers["U"]["at"])
        for k, c in helpers.items():
            if k.endswith("NPRIME"):
                good = (M * cval(c)) % (1 << 64) == 1
                ctx.ob("R1", "%s:NPRIME" % short, good, "NPRIME = M^-1 mod 2^64" if good else "NPRIME is not M^-1 mod 2^64", ty, c["at"])
        if "G" in helpers:
            gv = cval(helpers["G"])
            good = gv == w or gv == cval(sc["TWO_ADIC_ROOT_OF_UNITY"])
            ctx.ob("R1", "%s:G-is-root" % short, good, "const G is the two-adic root of unity" if good else
                   "const G differs from TWO_ADIC_ROOT_OF_UNITY", ty, helpers["G"]["at"])
        ctx.ob("R1", "%s:element-bytes" % short, ebytes * 8 >= bits and ebytes in (8, 16) and
               cval(trait_consts(p, RANDOMIZABLE, ty)["VALUE_SIZE"]) == ebytes,
               "ELEMENT_BYTES = %d = VALUE_SIZE holds a %d-bit modulus" % (ebytes, bits), ty, fc["ELEMENT_BYTES"]["at"])
    # get_root_of_unity: ROOT.exp(1 << (TWO_ADICITY - n)) behind n != 0 and n <= TWO_ADICITY
    f = p.fn(STARK + "::get_root_of_unity")
    ex = [(bi, t) for bi, t in f.calls() if (callee_of(t) or {}).get("name") == "exp"]
    if not ex:
        raise AnchorLost("get_root_of_unity: exp call not found")
    bi, t = ex[0]
    c0 = op_const(t["a"][0])
    base_ok = bool(c0) and c0.get("uneval_def") == STARK + "::TWO_ADIC_ROOT_OF_UNITY"
    sl = arg_slice(f, t, 1)
    shl = [b for b in sl["calls"] if (callee_of(f.term(b)) or {}).get("name") == "shl"]
    sub_ok = False
    if shl:
        st = f.term(shl[0])
        one = arg_slice(f, st, 0)
        amt = arg_slice(f, st, 1)
        uses_adic = any(c and c.get("uneval_def") == STARK + "::TWO_ADICITY" for c in amt["consts"])
        sub = any(d["kind"] == "assign" and d["rv"][0] == "bin" and d["rv"][1].startswith("Sub")
                  for l in amt["locals"] for d in f.defs(l))
        sub_ok = uses_adic and sub and 1 in amt["args"] and any(c and c.get("v") == "1" for c in one["consts"])
    ctx.ob("R1", "get_root_of_unity-shape", base_ok and sub_ok,
           "get_root_of_unity(n) = TWO_ADIC_ROOT_OF_UNITY.exp(1 << (TWO_ADICITY - n))" if base_ok and sub_ok else
           "get_root_of_unity no longer has the shape ROOT.exp(1 << (TWO_ADICITY - n))", f, t["sp"]["at"])
    guards = 0
    for s in cmp_sites(f):
        for c in f.bool_checks_of_local(s["local"]):
            # the failing edge must diverge (panic) and the call to exp must lie behind the other edge
            for edges, other in ((c["true_edges"], c["false_edges"]), (c["false_edges"], c["true_edges"])):
                if all(not f.can_reach(tg, [bi]) for _, tg in other) and f.must_cross([bi], cut_edges=edges):
                    guards += 1
    ctx.ob("R1", "get_root_of_unity-range-asserts", guards >= 2,
           "both range asserts (n != 0, n <= TWO_ADICITY) dominate the exponentiation" if guards >= 2 else
           "range asserts before the exponentiation are missing (found %d)" % guards, f)


def r2_extensions(ctx):
    p = ctx.p
    for ext, deg in (("winter_math::field::extensions::quadratic::QuadExtension<B>", 2),
                     ("winter_math::field::extensions::cubic::CubeExtension<B>", 3)):
        fc = trait_consts(p, FE, ext)
        if "EXTENSION_DEGREE" not in fc:
            raise AnchorLost("%s::EXTENSION_DEGREE not found" % ext)
        mir = fc["EXTENSION_DEGREE"].get("mir") or {}
        vals = [op_const(s["rv"][1]) for b in mir.get("blocks", []) for s in b["s"]
                if s["k"] == "assign" and s["p"] == [0] and s["rv"][0] == "use"]
        good = bool(vals) and vals[0] and vals[0].get("v") == str(deg)
        ctx.ob("R2", "%s:EXTENSION_DEGREE" % ext.split("::")[-1], good,
               "EXTENSION_DEGREE = %d" % deg if good else "EXTENSION_DEGREE is not %d" % deg, ext, fc["EXTENSION_DEGREE"]["at"])
        # ELEMENT_BYTES = B::ELEMENT_BYTES * degree
        mir = fc["ELEMENT_BYTES"].get("mir") or {}
        muls = [s for b in mir.get("blocks", []) for s in b["s"] if s["k"] == "assign" and s["rv"][0] == "bin" and s["rv"][1].startswith("Mul")]
        good = False
        for s in muls:
            cs = [op_const(s["rv"][2]), op_const(s["rv"][3])]
            good = any(c and c.get("uneval_def") == FE + "::ELEMENT_BYTES" for c in cs) and \
                any(c and (c.get("v") == str(deg) or c.get("uneval_def") == FE + "::EXTENSION_DEGREE") for c in cs)
        ctx.ob("R2", "%s:ELEMENT_BYTES" % ext.split("::")[-1], good,
               "ELEMENT_BYTES = B::ELEMENT_BYTES * %d" % deg if good else "ELEMENT_BYTES is not B::ELEMENT_BYTES * degree", ext, fc["ELEMENT_BYTES"]["at"])
    n = 0
    for i in p.impls_of_trait(EXT):
        names = {it["name"]: it["key"] for it in i["items"]}
        if "mul" not in names:
            continue
        mul = p.funcs.get(names["mul"])
        sup = p.funcs.get(names.get("is_supported", ""))
        if mul is None:
            continue
        diverges = not mul.return_blocks() or not mul.can_reach(0, mul.return_blocks())
        if sup is None:
            supported = True  # trait default returns true
        else:
            vals = [op_const(s["rv"][1]) for b in sup.blocks for s in b["s"]
                    if s["k"] == "assign" and s["p"] == [0] and s["rv"][0] == "use"]
            supported = not (vals and vals[0] and vals[0].get("v") == "0")
        n += 1
        ctx.ob("R2", "is_supported-iff-mul-implemented:%s" % i["trait_full"], supported != diverges,
               "%s: is_supported() = %s and mul %s" % (i["trait_full"], supported, "diverges (unimplemented)" if diverges else "returns"),
               mul, mul.at)
    if n < 6:
        raise AnchorLost("expected >= 6 ExtensibleField impls with mul, found %d" % n)


ELEMENT_TYPES = ("winter_math::field::f62::BaseElement", "winter_math::field::f64::BaseElement",
                 "winter_math::field::f128::BaseElement",
                 "winter_math::field::extensions::quadratic::QuadExtension<B>",
                 "winter_math::field::extensions::cubic::CubeExtension<B>")


def decoder_set(p):
    D = {}
    for i in p.impls:
        if i.get("self_ty") not in ELEMENT_TYPES:
            continue
        tr = i.get("trait")
        want = {DESER: "read_from", RANDOMIZABLE: "from_random_bytes", TRYFROM: "try_from"}.get(tr)
        if not want:
            continue
        for it in i["items"]:
            if it["name"] == want and it["key"] in p.funcs:
                D[it["key"]] = (i["self_ty"], i.get("trait_full"))
    return D


def resolve_decoder_call(p, D, f, t):
    """if this call enters a decoder in D (directly, through TryInto or a generic B::..), return key(s)."""
    c = callee_of(t)
    if not c:
        return None
    for k in (c.get("rdef"), c["def"]):
        if k in D:
            return [k]
    d = c["def"]
    if d == "core::convert::TryInto::try_into" and len(c["args"]) >= 2:
        src, dst = c["args"][0], c["args"][1]
        for k, (sty, tf) in D.items():
            if sty == dst and tf and tf.endswith("TryFrom<%s>>" % src):
                return [k]
        if dst in ("B", "Self"):
            return ["<generic base field decoder>"]
    # calls on the generic base field `B` of an extension: any base decoder may be entered
    if c.get("trait") in (DESER, TRYFROM, RANDOMIZABLE) and c.get("name") in ("read_from", "try_from", "from_random_bytes") \
            and not c.get("rdef") and c["args"] and c["args"][0] in ("B", "Self"):
        return ["<generic base field decoder>"]
    return None


def r3_decoders(ctx):
    p = ctx.p
    D = decoder_set(p)
    if len(D) < 20:
        raise AnchorLost("expected >= 20 element decoders (Deserializable/TryFrom/Randomizable impls), found %d" % len(D))
    moduli = {}
    for ty in stark_fields(p):
        moduli[ty] = cval(trait_consts(p, STARK, ty)["MODULUS"])
    for key in sorted(D):
        f = p.fn(key)
        sty = D[key][0]
        raw_sites = []
        deleg = []
        for bi, t in f.calls():
            if f.is_cleanup(bi):
                continue
            c = callee_of(t)
            if not c:
                continue
            if c["def"] in (sty + "::new", sty + "::from_mont") or (c.get("name") in ("new", "from_mont") and c["def"].startswith(sty.split("<")[0])):
                raw_sites.append((bi, t))
            r = resolve_decoder_call(p, D, f, t)
            if r:
                deleg.append((bi, t, r))
        aggs = [(bi, s) for bi, b in enumerate(f.blocks) if not b.get("cleanup") for s in b["s"]
                if s["k"] == "assign" and s["rv"][0] == "agg" and s["rv"][1].get("adt") == sty.split("<")[0]]
        oks = [e["bb"] for e in f.exits() if e["kind"] in ("ok", "some")] + \
              [e["bb"] for e in f.exits() if e["kind"].startswith("call:")]
        good, how = True, []
        if sty in moduli:
            M = moduli[sty]
            for bi, t in raw_sites:
                v = op_local(t["a"][0])
                g_ok, g_how = _modulus_guard(f, v, M, bi)
                good &= g_ok
                how.append(g_how)
            for bi, s in aggs:
                v = op_local(s["rv"][2][0]) if s["rv"][2] else None
                g_ok, g_how = _modulus_guard(f, v, M, bi)
                good &= g_ok
                how.append(g_how)
            if not raw_sites and not aggs and not deleg:
                good, how = False, ["decoder neither constructs an element behind a modulus check nor delegates to a checked decoder"]
        else:
            # extension types: every coordinate must come from a checked decoder
            for bi, s in aggs:
                for o in s["rv"][2]:
                    sl = f.slice_of_operand(o, at=(bi, s["_pos"][1]))
                    from_dec = any(b in sl["calls"] for b, _, _ in deleg)
                    zero = op_const(o) is not None or any(c and "uneval" in c and c["uneval_def"].endswith("::ZERO") for c in sl["consts"])
                    if not (from_dec or zero):
                        good = False
                        how.append("coordinate at %s does not come from a checked base-field decoder" % ir.line_of(s["sp"]["at"]))
            if not aggs and not deleg:
                good, how = False, ["extension decoder neither builds from checked coordinates nor delegates"]
        if deleg:
            how.append("delegates to %s" % sorted({r for _, _, rs in deleg for r in rs}))
            # the value handed to the delegate is the input itself: a narrowing integer cast on the
            # way drops high bits before the delegate's modulus check sees them
            for bi, t, _ in deleg:
                if not t["a"]:
                    continue
                sl = f.slice_of_operand(t["a"][0], at=(bi, f.INF))
                for l in sl["locals"]:
                    for d in f.defs(l):
                        if d["kind"] == "assign" and d["rv"][0] == "cast" and d["rv"][1].startswith("IntToInt"):
                            dst, src = intervals.type_range(d["rv"][3]), intervals.type_range(d["rv"][4])
                            if dst and src and not (dst[0] <= src[0] and src[1] <= dst[1]):
                                good = False
                                how.append("the value is truncated (%s as %s at %s) before the delegate's range check" % (
                                    d["rv"][4], d["rv"][3], ir.line_of(d["at"])))
        # Ok payload must come from one of these sources
        ctx.ob("R3", "decoder-rejects-noncanonical", good, "; ".join(how)[:400], f)
    # endianness: no *_be_bytes / *_ne_bytes in math/crypto/utils
    bad = []
    n = 0
    for key, f in sorted(p.funcs.items()):
        if f.crate not in ("winter_math", "winter_crypto", "winter_utils"):
            continue
        for bi, t in f.calls():
            c = callee_of(t)
            if c and c.get("name"):
                nm = c["name"]
                if nm.endswith("_le_bytes"):
                    n += 1
                if nm.endswith("_be_bytes") or nm.endswith("_ne_bytes"):
                    bad.append("%s in %s" % (nm, key))
    ctx.ob("R3", "little-endian-only", not bad and n >= 10,
           "%d uses of *_le_bytes and no *_be_bytes / *_ne_bytes in winter_math, winter_crypto, winter_utils" % n if not bad else
           "non-little-endian byte conversions: %s" % bad, "winter_math+winter_crypto+winter_utils")
    # informational: Rescue digests decode elements with the reducing constructor
    for key, f in sorted(p.funcs.items()):
        if key.endswith("ElementDigest as winter_utils::serde::Deserializable>::read_from"):
            if any((callee_of(t) or {}).get("name") == "new" for _, t in f.calls()):
                ctx.note("informational: %s builds elements with the reducing BaseElement::new(read_u64()) and no range check (several encodings per digest)" % key)


def _int_copy_chain(f, l):
    """copy chain that also looks through integer casts."""
    out = set()
    todo = [l]
    while todo:
        x = todo.pop()
        if x in out or x is None:
            continue
        out.add(x)
        for y in f.copy_chain(x):
            if y not in out:
                todo.append(y)
            ds = f.defs(y)
            if len(ds) == 1 and ds[0]["kind"] == "assign" and ds[0]["rv"][0] == "cast":
                todo.append(op_local(ds[0]["rv"][2]))
    return out


def _is_modulus(f, op, M):
    c = op_const(op)
    if c is not None:
        return c.get("v") == str(M)
    l = op_local(op)
    if l is None:
        return False
    for x in _int_copy_chain(f, l):
        for d in f.defs(x):
            if d["kind"] == "call" and (callee_of(d["term"]) or {}).get("name") in ("into", "from"):
                cc = op_const(d["term"]["a"][0])
                if cc is not None and cc.get("v") == str(M):
                    return True
            if d["kind"] == "assign" and d["rv"][0] in ("use", "cast"):
                cc = op_const(d["rv"][1] if d["rv"][0] == "use" else d["rv"][2])
                if cc is not None and cc.get("v") == str(M):
                    return True
    return False


def _modulus_guard(f, v, M, site_bb):
    if v is None:
        return False, "constructed from a constant"
    vs = _int_copy_chain(f, v)
    for s in cmp_sites(f):
        la, lb = op_local(s["a"]), op_local(s["b"])
        a_v = la is not None and bool(_int_copy_chain(f, la) & vs)
        b_v = lb is not None and bool(_int_copy_chain(f, lb) & vs)
        if a_v and _is_modulus(f, s["b"], M):
            want = "Ge"
        elif b_v and _is_modulus(f, s["a"], M):
            want = "Le"
        else:
            continue
        ok, how, rel = cmp_reject_relation(f, s, targets=[site_bb])
        if ok and rel == want:
            return True, "element constructed at bb%d only behind `value >= MODULUS => reject` (%s)" % (site_bb, ir.line_of(s["at"]))
        return False, "comparison with the modulus at %s does not reject exactly the values >= MODULUS before construction (%s)" % (ir.line_of(s["at"]), how)
    return False, "element constructed from a decoded integer without comparing it with MODULUS"


def run(ctx):
    ctx.rule("R1", "for every StarkField impl: MODULUS prime (certificate), MODULUS_BITS, TWO_ADICITY, GENERATOR order M-1, root of unity exact orders (all n), Montgomery words/helpers, IS_CANONICAL vs as_int, get_root_of_unity shape", 30)
    ctx.rule("R2", "extension EXTENSION_DEGREE / ELEMENT_BYTES tables; is_supported() false exactly where mul is unimplemented", 10)
    ctx.rule("R3", "every element decoder (Deserializable, TryFrom<ints/bytes>, Randomizable) constructs an element only behind `value >= MODULUS => reject` or delegates to such a decoder; little-endian conversions only", 21)
    ctx.guard("R1", r1_number_theory)
    ctx.guard("R2", r2_extensions)
    ctx.guard("R3", r3_decoders)
    ctx.assume("irreducibility of the extension polynomials and Frobenius constants live in arithmetic code and are not decided (needs symbolic evaluation of mul)")
    ctx.assume("rustc's constant evaluator computes the constants' values correctly")
