"""C28 — row commitments equal the vector commitment of per-row digests under the partition rule the
verifier applies (partition-rule clause only), in the serial and the concurrent build."""
from . import c01


def run(ctx):
    ctx.rule("R2", "sibling agreement RowMatrix::commit_to_rows (prover) vs hash_row / VerifierChannel::new (verifier): same partition_size::<row element type>(row width), same equal/unequal branch, hash_elements per chunk, merge_many over chunk digests, buffer length = number of chunks; digest vector handed to V::new is the filled one with num_rows() entries; decided on the default and the concurrent build", 34)
    ctx.guard("R2", c01.r2_partition, cfg="default")
    ctx.guard("R2", c01.r2_partition, cfg="concurrent")
    ctx.assume("that matrix rows equal polynomial values and that interpolation inverts evaluation is numerical and not decided")
