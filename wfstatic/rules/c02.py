"""C02 — proofs of unsatisfied statements are rejected (structural clause): the checks soundness
rests on lie on every accepting path of verify -> perform_verification, in the right order, wired
to the right data, for all three extension-field arms."""
from .. import ir
from ..ir import AnchorLost, callee_of, op_place, op_local, op_const, is_call_to
from ..patterns import (HASH_ELEMENTS, RESEED, DRAW, DRAW_INTEGERS, CHECK_LEADING_ZEROS, calls_to,
                        arg_slice, slice_field_bases, slice_const_ints, check_result_guard,
                        check_bool_guard, cmp_sites, cmp_reject_relation, closure_calls, call_before)
from .c03 import for_loops, VCH, FRIV, PERFORM

VERIFY = "winter_verifier::verify"
VALIDATE = "winter_verifier::AcceptableOptions::validate"
COIN_NEW = "winter_crypto::random::RandomCoin::new"
CTX_TO_ELEMENTS = "<winter_air::proof::context::Context as winter_math::field::traits::ToElements<E>>::to_elements"
TO_ELEMENTS = "winter_math::field::traits::ToElements::to_elements"
AIR = "winter_air::air::Air::"
EVALUATE = "winter_verifier::evaluator::evaluate_constraints"
MERGE_OOD = "winter_air::proof::ood_frame::merge_ood_evaluations"
COMPOSE = "winter_verifier::composer::DeepComposer::<E>::compose_columns"
COMPOSER_NEW = "winter_verifier::composer::DeepComposer::<E>::new"


def names_in(f, sl):
    return {(callee_of(f.term(b)) or {}).get("name") for b in sl["calls"]}


def r1_validate_first(ctx):
    f = ctx.p.fn(VERIFY)
    v = calls_to(f, VALIDATE, 1, "AcceptableOptions::validate")[0]
    ok, how = check_result_guard(f, v[0])
    ctx.ob("R1", "acceptable-options-validated", ok, how, f, v[1]["sp"]["at"])
    # it is applied to the proof parameter and dominates every other call that consumes the proof
    arg_ok = 1 in arg_slice(f, v[1], 1)["args"]
    # every protocol step (seed construction, AIR construction, coin, channel, verification proper)
    # is dominated by the validation; cheap consistency checks on the proof may precede it
    steps = [(bi, t) for bi, t in f.calls() if not f.is_cleanup(bi) and is_call_to(
        t, TO_ELEMENTS, AIR + "new", COIN_NEW, VCH + "new", PERFORM)]
    first = len(steps) >= 9 and all(call_before(f, v[0], bi) for bi, t in steps)
    ctx.ob("R1", "validate-dominates-protocol-steps", arg_ok and first,
           "validate(&proof) dominates all %d protocol steps of verify() (seed elements, Air::new, RandCoin::new, VerifierChannel::new, perform_verification)" % len(steps)
           if arg_ok and first else "a protocol step of verify() is reachable without passing acceptable_options.validate(&proof)?", f, v[1]["sp"]["at"])


def r2_seed_and_air(ctx):
    f = ctx.p.fn(VERIFY)
    news = calls_to(f, COIN_NEW, 3, "RandomCoin::new")
    for bi, t in news:
        sl = arg_slice(f, t, 0)
        callee_defs = set()
        for b in sl["calls"]:
            c = callee_of(f.term(b))
            if c:
                callee_defs.add((c["def"], c.get("rfull") or c["full"]))
        ctx_ok = any("winter_air::proof::context::Context as" in full and d == TO_ELEMENTS for d, full in callee_defs)
        pub_ok = any("PublicInputs as" in full and d == TO_ELEMENTS for d, full in callee_defs)
        pub_from_param = False
        for b in sl["calls"]:
            c = callee_of(f.term(b))
            if c and c["def"] == TO_ELEMENTS and "PublicInputs as" in c["full"]:
                pub_from_param = 2 in arg_slice(f, f.term(b), 0)["args"]
        ctx_from_proof = False
        for b in sl["calls"]:
            c = callee_of(f.term(b))
            if c and c["def"] == TO_ELEMENTS and "context::Context as" in c["full"]:
                s2 = arg_slice(f, f.term(b), 0)
                ctx_from_proof = 1 in s2["args"] and "context" in slice_field_bases(s2)
        ctx.ob("R2", "coin-seed-binds-context-and-public-inputs", ctx_ok and pub_ok and pub_from_param and ctx_from_proof,
               "RandCoin::new(seed): seed = proof.context.to_elements() ++ pub_inputs.to_elements()"
               if ctx_ok and pub_ok and pub_from_param and ctx_from_proof else
               "the coin seed does not derive from both proof.context.to_elements() and pub_inputs.to_elements()",
               f, t["sp"]["at"])
    a = calls_to(f, AIR + "new", 1, "Air::new")[0]
    s0, s1, s2 = (arg_slice(f, a[1], i) for i in range(3))
    ok = "trace_info" in names_in(f, s0) and 1 in s0["args"] and 2 in s1["args"] and "options" in names_in(f, s2) and 1 in s2["args"]
    ctx.ob("R2", "air-built-from-proof-and-same-public-inputs", ok,
           "AIR::new(proof.trace_info().clone(), pub_inputs, proof.options().clone())" if ok else
           "AIR::new arguments do not derive from proof.trace_info(), the pub_inputs parameter and proof.options()",
           f, a[1]["sp"]["at"])
    # each perform_verification call receives air, a channel built from (air, proof) and the coin
    pvs = calls_to(f, PERFORM, 3, "perform_verification")
    for bi, t in pvs:
        ch = arg_slice(f, t, 1)
        chn = [b for b in ch["calls"] if is_call_to(f.term(b), VCH + "new")]
        ch_ok = False
        if chn:
            ct = f.term(chn[0])
            ch_ok = 1 in arg_slice(f, ct, 1)["args"]
            okc, _ = check_result_guard(f, chn[0], targets=[bi])
            ch_ok = ch_ok and okc
        coin = arg_slice(f, t, 2)
        coin_ok = any(is_call_to(f.term(b), COIN_NEW) for b in coin["calls"])
        air_ok = a[0] in arg_slice(f, t, 0)["calls"]
        ext = callee_of(t)["args"][1]
        ctx.ob("R2", "perform_verification-inputs[%s]" % ext.split("::")[-1].split("<")[0], ch_ok and coin_ok and air_ok,
               "perform_verification(air, VerifierChannel::new(&air, proof)?, RandCoin::new(seed))", f, t["sp"]["at"])


def _events(ctx, f):
    coin = 3  # third parameter
    ev = {}

    def coin_arg_ok(t):
        return coin in arg_slice(f, t, 0)["args"]

    reseeds = calls_to(f, RESEED, 4, "reseed")
    for bi, t in reseeds:
        if not coin_arg_ok(t):
            continue
        sl = arg_slice(f, t, 1)
        nm = names_in(f, sl)
        ints = slice_const_ints(sl)
        if "read_trace_commitments" in nm and ints == {0}:
            ev["reseed_main"] = (bi, t)
        elif "read_trace_commitments" in nm and ints == {1}:
            ev["reseed_aux"] = (bi, t)
        elif "read_constraint_commitment" in nm:
            ev["reseed_constraint"] = (bi, t)
        elif "hash_elements" in nm and "merge_ood_evaluations" in nm:
            ev["reseed_ood"] = (bi, t)
    for nm_, key in (("aux_rand", AIR + "get_aux_rand_elements"),
                     ("coeffs", AIR + "get_constraint_composition_coefficients"),
                     ("deep_coeffs", AIR + "get_deep_composition_coefficients"),
                     ("draw_z", DRAW), ("evaluate", EVALUATE), ("fri_new", FRIV + "new"),
                     ("pow", CHECK_LEADING_ZEROS), ("draw_integers", DRAW_INTEGERS),
                     ("read_trace", VCH + "read_queried_trace_states"),
                     ("read_constraints", VCH + "read_constraint_evaluations"),
                     ("composer_new", COMPOSER_NEW), ("compose", COMPOSE), ("fri_verify", FRIV + "verify"),
                     ("read_ood_trace", VCH + "read_ood_trace_frame"),
                     ("read_ood_constraints", VCH + "read_ood_constraint_frame"),
                     ("read_pow_nonce", VCH + "read_pow_nonce")):
        cs = f.calls_to(key)
        if cs:
            ev[nm_] = cs[0]
    return ev


def r3_challenge_order(ctx):
    f = ctx.p.fn(PERFORM)
    ev = _events(ctx, f)
    need = ["reseed_main", "reseed_aux", "reseed_constraint", "reseed_ood", "aux_rand", "coeffs", "deep_coeffs",
            "draw_z", "evaluate", "fri_new", "pow", "draw_integers"]
    missing = [n for n in need if n not in ev]
    if missing:
        raise AnchorLost("perform_verification: protocol events not found: %s" % missing)
    chain = [("reseed_main", "aux_rand"), ("reseed_main", "coeffs"), ("aux_rand", "reseed_aux"),
             ("coeffs", "reseed_constraint"), ("reseed_constraint", "draw_z"), ("draw_z", "evaluate"),
             ("draw_z", "reseed_ood"), ("evaluate", "reseed_ood"),
             ("reseed_ood", "deep_coeffs"), ("deep_coeffs", "fri_new"), ("fri_new", "pow"),
             ("pow", "draw_integers")]
    for a, b in chain:
        ok = call_before(f, ev[a][0], ev[b][0])
        ctx.ob("R3", "%s<%s" % (a, b), ok,
               "%s (%s) dominates %s (%s)" % (a, ir.line_of(ev[a][1]["sp"]["at"]), b, ir.line_of(ev[b][1]["sp"]["at"]))
               if ok else "%s does not dominate %s: a challenge can be drawn before the coin absorbed what it must bind" % (a, b),
               f, ev[b][1]["sp"]["at"])
    # multi-segment edge: aux commitment absorbed before the composition coefficients
    ms = [(bi, t) for bi, t in f.calls() if (callee_of(t) or {}).get("name") == "is_multi_segment"]
    if not ms:
        raise AnchorLost("perform_verification: is_multi_segment test not found")
    chk = f.bool_checks_of(ms[0][0])
    ok = bool(chk)
    for c in chk:
        for (_, tgt) in c["true_edges"]:
            if f.can_reach(tgt, [ev["coeffs"][0]], cut_blocks=[ev["reseed_aux"][0]]):
                ok = False
            if f.can_reach(tgt, [ev["coeffs"][0]], cut_blocks=[ev["aux_rand"][0]]):
                ok = False
    ctx.ob("R3", "multi-segment:aux_rand<reseed_aux<coeffs", ok,
           "on the is_multi_segment() edge every path to the coefficient draw passes get_aux_rand_elements and reseed(trace_commitments[1])"
           if ok else "on the multi-segment edge the coefficient draw is reachable without absorbing the aux trace commitment", f,
           ev["reseed_aux"][1]["sp"]["at"])
    # challenge draws are not discarded
    for nm in ("coeffs", "draw_z", "deep_coeffs", "draw_integers", "fri_new"):
        okg, how = check_result_guard(f, ev[nm][0])
        ctx.ob("R3", "%s-result-propagated" % nm, okg, how, f, ev[nm][1]["sp"]["at"])
    # all draws/reseeds use the one coin parameter
    bad = []
    for bi, t in f.calls():
        c = callee_of(t)
        if c and c.get("trait") == "winter_crypto::random::RandomCoin" and t["a"]:
            if 3 not in arg_slice(f, t, 0)["args"]:
                bad.append(ir.line_of(t["sp"]["at"]))
    for nm in ("aux_rand", "coeffs", "deep_coeffs", "fri_new"):
        t = ev[nm][1]
        if 3 not in arg_slice(f, t, 1)["args"]:
            bad.append(ir.line_of(t["sp"]["at"]))
    ctx.ob("R3", "single-coin", not bad,
           "every coin operation and every coefficient draw uses the `public_coin` parameter" if not bad else
           "coin operations on a different coin at %s" % bad, f)


def r4_ood_consistency(ctx):
    f = ctx.p.fn(PERFORM)
    ev = _events(ctx, f)
    e = ev["evaluate"]
    t = e[1]
    # arguments of evaluate_constraints
    a_coeffs = arg_slice(f, t, 1)
    a_main = arg_slice(f, t, 2)
    a_aux = arg_slice(f, t, 3)
    a_rand = arg_slice(f, t, 4)
    a_z = arg_slice(f, t, 5)
    checks = {
        "coefficients-from-coin": ev["coeffs"][0] in a_coeffs["calls"],
        "main-frame-from-proof": ev["read_ood_trace"][0] in a_main["calls"] and "main_frame" in names_in(f, a_main),
        "aux-frame-from-proof": ev["read_ood_trace"][0] in a_aux["calls"] and "aux_frame" in names_in(f, a_aux),
        "aux-rands-from-coin": ev["aux_rand"][0] in a_rand["calls"],
        "z-from-coin": f.operand_is_value_of_call(t["a"][5], ev["draw_z"][0]),
        "air-is-parameter": 1 in arg_slice(f, t, 0)["args"],
    }
    for k, v in checks.items():
        ctx.ob("R4", "evaluate_constraints-arg:" + k, v,
               "argument wired as the protocol requires (%s)" % k if v else "evaluate_constraints argument not wired: " + k,
               f, t["sp"]["at"])
    lhs = f.forward_locals([t["dest"][0]], through_calls=())
    hit = None
    for bi, ct in f.calls():
        c = callee_of(ct)
        if c and c.get("name") in ("ne", "eq") and len(ct["a"]) == 2 and c.get("trait", "").startswith("core::cmp::PartialEq"):
            s0, s1 = arg_slice(f, ct, 0), arg_slice(f, ct, 1)
            for x, y in ((s0, s1), (s1, s0)):
                if x["locals"] & lhs and ev["read_ood_constraints"][0] in y["calls"]:
                    hit = (bi, ct, c["name"], y)
    if not hit:
        ctx.ob("R4", "ood-consistency-check", False,
               "no comparison between evaluate_constraints(..) and the folded out-of-domain constraint frame", f)
        return
    ok, how = check_bool_guard(f, hit[0], reject_when=(hit[2] == "ne"))
    ctx.ob("R4", "ood-consistency-check", ok,
           "evaluate_constraints(..) != fold(read_ood_constraint_frame(), z) -> Err(InconsistentOodConstraintEvaluations): " + how
           if ok else how, f, hit[1]["sp"]["at"])
    y = hit[3]
    folds = closure_calls(ctx.p, y["closures"], ("winter_math::field::traits::FieldElement::exp_vartime",))
    # loop form (possibly in a spliced private helper): exp_vartime called directly in the slice
    direct = [b for b in y["calls"] if (callee_of(f.term(b)) or {}).get("def") == "winter_math::field::traits::FieldElement::exp_vartime"]
    z_in_fold = ev["draw_z"][0] in y["calls"] and (bool(folds) or bool(direct)) and "current_row" in names_in(f, y)
    ctx.ob("R4", "rhs-is-H(z)-from-proof-frame", z_in_fold,
           "rhs = ood_constraint_frame.current_row().fold(|acc,(i,v)| acc + z^(i*trace_len) * v) with the same z"
           if z_in_fold else "the right-hand side is not the z-power combination of the proof's constraint frame row", f, hit[1]["sp"]["at"])
    # the reseed with OOD evaluations covers both frames
    rt = ev["reseed_ood"][1]
    sl = arg_slice(f, rt, 1)
    both = ev["read_ood_trace"][0] in sl["calls"] and ev["read_ood_constraints"][0] in sl["calls"]
    ctx.ob("R4", "ood-frames-absorbed", both,
           "coin.reseed(hash_elements(merge_ood_evaluations(trace frame, constraint frame))) absorbs both OOD frames"
           if both else "the OOD reseed does not cover both the trace frame and the constraint frame", f, rt["sp"]["at"])


def r5_proof_of_work(ctx):
    f = ctx.p.fn(PERFORM)
    ev = _events(ctx, f)
    pw = ev["pow"]
    lz = f.forward_locals([pw[1]["dest"][0]], through_calls=())
    done = False
    for s in cmp_sites(f):
        la, lb = op_local(s["a"]), op_local(s["b"])
        a_lz = la is not None and bool(f.copy_chain(la) & lz)
        b_lz = lb is not None and bool(f.copy_chain(lb) & lz)
        if not (a_lz or b_lz):
            continue
        other = s["b"] if a_lz else s["a"]
        osl = f.slice_of_operand(other)
        gf = "grinding_factor" in names_in(f, osl) and not (names_in(f, osl) - {"grinding_factor", "options", None})
        ok, how, rel = cmp_reject_relation(f, s)
        good = ok and gf and ((a_lz and rel == "Lt") or (b_lz and rel == "Gt"))
        ctx.ob("R5", "pow-threshold", good,
               "check_leading_zeros(nonce) < air.options().grinding_factor() -> Err: " + how if good else
               "proof-of-work comparison is not `leading_zeros < grinding_factor => reject`: %s" % how, f, s["at"])
        done = True
    if not done:
        ctx.ob("R5", "pow-threshold", False, "result of check_leading_zeros is never compared", f)
    n1 = arg_slice(f, pw[1], 1)
    n2 = arg_slice(f, ev["draw_integers"][1], 3)
    same = ev["read_pow_nonce"][0] in n1["calls"] and ev["read_pow_nonce"][0] in n2["calls"]
    ctx.ob("R5", "same-nonce", same,
           "the nonce checked is the nonce that seeds draw_integers (both = channel.read_pow_nonce())" if same else
           "check_leading_zeros and draw_integers do not receive the same nonce", f, pw[1]["sp"]["at"])
    di = ev["draw_integers"][1]
    nq = names_in(f, arg_slice(f, di, 1))
    ds = names_in(f, arg_slice(f, di, 2))
    ctx.ob("R5", "query-count-and-domain", "num_queries" in nq and "lde_domain_size" in ds,
           "draw_integers(options.num_queries(), air.lde_domain_size(), nonce)", f, di["sp"]["at"])


def r6_results_and_deep(ctx):
    f = ctx.p.fn(PERFORM)
    ev = _events(ctx, f)
    for nm in ("read_trace", "read_constraints"):
        ok, how = check_result_guard(f, ev[nm][0])
        ctx.ob("R6", nm + "-result-propagated", ok, how, f, ev[nm][1]["sp"]["at"])
    fv = ev["fri_verify"]
    # the function's accepting exit is the (carried) result of fri_verifier.verify
    exits = [e for e in f.exits() if e["kind"] not in ("err", "residual")]
    carried = f.forward_locals([fv[1]["dest"][0]], through_calls=ir.CARRIERS)
    ok = bool(exits)
    for e in exits:
        if e["kind"].startswith("call:"):
            t = f.term(e["bb"])
            if not (is_call_to(t, *ir.CARRIERS) and any(op_local(a) in carried for a in t["a"])) and e["bb"] != fv[0]:
                ok = False
        else:
            ok = False
    ctx.ob("R6", "acceptance-is-fri-verdict", ok,
           "the only non-error exit of perform_verification returns fri_verifier.verify(..).map_err(..)" if ok else
           "perform_verification has an accepting exit that is not the FRI verifier's verdict", f, fv[1]["sp"]["at"])
    # deep evaluations derive from checked tables, OOD frames, z; positions are the drawn ones
    ev_arg = arg_slice(f, fv[1], 2)
    comp = ev["compose"]
    ok2 = comp[0] in ev_arg["calls"]
    csl = f.backward_slice([op_local(a) for a in comp[1]["a"] if op_local(a) is not None])
    need = {"read_trace": ev["read_trace"][0], "read_constraints": ev["read_constraints"][0],
            "read_ood_trace": ev["read_ood_trace"][0], "read_ood_constraints": ev["read_ood_constraints"][0],
            "composer_new": ev["composer_new"][0]}
    miss = [k for k, b in need.items() if b not in csl["calls"]]
    cn = ev["composer_new"][1]
    cnsl = f.backward_slice([op_local(a) for a in cn["a"] if op_local(a) is not None])
    for k, b in (("draw_z", ev["draw_z"][0]), ("deep_coeffs", ev["deep_coeffs"][0]), ("draw_integers", ev["draw_integers"][0])):
        if b not in cnsl["calls"]:
            miss.append("composer:" + k)
    ctx.ob("R6", "deep-evaluations-provenance", ok2 and not miss,
           "FRI checks compose_columns(checked trace rows, checked constraint rows, OOD frames) built with z, the DEEP coefficients and the drawn positions"
           if ok2 and not miss else "deep evaluations passed to FRI miss inputs: %s" % miss, f, comp[1]["sp"]["at"])
    # generic: no Result-returning workspace call in the verifier crates is dropped
    dropped = []
    n = 0
    for key, g in sorted(ctx.p.funcs.items()):
        if g.crate not in ("winter_verifier",) and not key.startswith("winter_fri::verifier"):
            continue
        for bi, t in g.calls():
            if g.is_cleanup(bi):
                continue
            c = callee_of(t)
            if not c or not t.get("dest"):
                continue
            ty = g.local_ty(t["dest"][0])
            if not ty.startswith("core::result::Result<"):
                continue
            if c["krate"] in ("core", "alloc", "std") and c.get("name") in ("map_err", "map", "branch", "from_residual", "fmt", "write_fmt", "write_str"):
                continue
            n += 1
            dl = t["dest"][0]
            if dl == 0:
                continue
            if not g.uses(dl):
                dropped.append("%s at %s" % (c["def"], ir.line_of(t["sp"]["at"])))
    ctx.ob("R6", "no-discarded-result", not dropped,
           "none of the %d Result-returning calls in winter_verifier / winter_fri::verifier is left unused" % n if not dropped else
           "Result values never used: %s" % dropped, "winter_verifier+winter_fri::verifier")


def r7_evaluate_constraints(ctx):
    f = ctx.p.fn(EVALUATE)
    rets = f.backward_slice([0])
    nm = names_in(f, rets)
    loops = for_loops(f)
    ea = [(bi, t) for bi, t in f.calls() if (callee_of(t) or {}).get("name") == "evaluate_at"]
    ctx.ob("R7", "transition-combination-in-result", "combine_evaluations" in nm,
           "the returned value derives from t_constraints.combine_evaluations(..)" if "combine_evaluations" in nm else
           "combine_evaluations does not flow into the result", f)
    ce = [(bi, t) for bi, t in f.calls() if (callee_of(t) or {}).get("name") == "combine_evaluations"]
    if ce:
        sl = f.backward_slice([op_local(a) for a in ce[0][1]["a"] if op_local(a) is not None])
        n2 = names_in(f, sl)
        ok = "evaluate_transition" in n2 and "evaluate_aux_transition" in n2 and 6 in sl["args"]
        ctx.ob("R7", "transition-evaluations-wired", ok,
               "combine_evaluations(main evaluations from evaluate_transition, aux evaluations from evaluate_aux_transition, x)"
               if ok else "combine_evaluations does not receive both evaluation buffers and x", f, ce[0][1]["sp"]["at"])
    kinds = {}
    for bi, t in ea:
        L = [x for x in loops if bi in x["body"]]
        src = names_in(f, f.backward_slice([L[0]["iter_local"]])) if L else set()
        which = "main" if "main_constraints" in src else ("aux" if "aux_constraints" in src else "?")
        in_result = bi in rets["calls"]
        x_ok = 6 in arg_slice(f, t, 2)["args"]
        kinds[which] = in_result and x_ok and bool(L)
    # fold form: `groups.iter().fold(acc0, |acc, group| acc + group.evaluate_at(state, x))`
    from ..patterns import upvar_origins
    for bi, t in f.calls():
        c = callee_of(t) or {}
        if c.get("name") != "fold" or c.get("krate") != "core" or f.is_cleanup(bi) or len(t["a"]) != 3:
            continue
        recv = arg_slice(f, t, 0)
        src = names_in(f, recv)
        which = "main" if "main_constraints" in src else ("aux" if "aux_constraints" in src else None)
        if which is None or kinds.get(which) or src & {"skip", "take", "step_by", "filter", "skip_while", "take_while", "rev"} - {"rev"}:
            continue
        good = False
        for ck in arg_slice(f, t, 2)["closures"]:
            cf = ctx.p.fn(ck)
            cret = cf.backward_slice([0])
            for b2, t2 in cf.calls():
                if (callee_of(t2) or {}).get("name") != "evaluate_at" or cf.is_cleanup(b2) or b2 not in cret["calls"] or 2 not in cret["args"]:
                    continue
                recv_item = 3 in arg_slice(cf, t2, 0)["args"] or any(pl[0] == 3 for pl in arg_slice(cf, t2, 0)["places"])
                x_ok = any(pf.key == f.key and any(6 in f.backward_slice([l])["args"] or l == 6 for l in locs)
                           for pf, locs in upvar_origins(ctx.p, cf, arg_slice(cf, t2, 2)))
                if recv_item and x_ok:
                    good = True
        kinds[which] = good and bi in rets["calls"]
    for w in ("main", "aux"):
        ctx.ob("R7", "%s-boundary-groups-in-result" % w, kinds.get(w, False),
               "result += group.evaluate_at(frame.current(), x) for every %s boundary constraint group" % w if kinds.get(w) else
               "%s boundary constraint groups do not all flow into the result" % w, f)
    gb = [(bi, t) for bi, t in f.calls() if (callee_of(t) or {}).get("name") == "get_boundary_constraints"]
    gt = [(bi, t) for bi, t in f.calls() if (callee_of(t) or {}).get("name") == "get_transition_constraints"]
    if gb and gt:
        b_ok = "boundary" in slice_field_bases(arg_slice(f, gb[0][1], 2)) and 2 in arg_slice(f, gb[0][1], 2)["args"]
        t_ok = "transition" in slice_field_bases(arg_slice(f, gt[0][1], 1)) and 2 in arg_slice(f, gt[0][1], 1)["args"]
        ctx.ob("R7", "coefficients-wired", b_ok and t_ok,
               "transition constraints use composition_coefficients.transition, boundary constraints use .boundary", f)
    else:
        raise AnchorLost("evaluate_constraints: get_boundary_constraints/get_transition_constraints calls not found")


TC_NEW = "winter_air::air::transition::TransitionConstraints::<E>::new"
TC_COMBINE = "winter_air::air::transition::TransitionConstraints::<E>::combine_evaluations"
BC_NEW = "winter_air::air::boundary::BoundaryConstraints::<E>::new"


def _split_site(f):
    cs = [(bi, t) for bi, t in f.calls() if (callee_of(t) or {}).get("name") == "split_at" and not f.is_cleanup(bi)]
    if not cs:
        raise AnchorLost("%s: split_at of the composition coefficients not found" % f.key)
    return cs[0]


def r8_coefficient_wiring(ctx):
    """every constraint receives its own composition coefficient: the coefficient vector is split at
    the number of main-segment constraints and each half is paired with the matching half of the
    constraints, on the construction side and on the combination side."""
    p = ctx.p
    f = p.fn(TC_NEW)
    bi, t = _split_site(f)
    sl = arg_slice(f, t, 1)
    names = names_in(f, sl)
    fields = set(slice_field_bases(sl))
    ok = "len" in names and "main_transition_constraint_degrees" in fields and "num_transition_constraints" not in names \
        and "aux_transition_constraint_degrees" not in fields and 2 in arg_slice(f, t, 0)["args"]
    ctx.ob("R8", "transition-coefficients-split-at-main-count", ok,
           "composition_coefficients.split_at(main_transition_constraint_degrees.len()): main constraints get the first coefficients, aux constraints the rest"
           if ok else "the coefficient vector is not split at the number of main transition constraints (split point derives from %s / %s)" % (
               sorted(x for x in names if x), sorted(fields)), f, t["sp"]["at"])
    agg = [s for b in f.blocks if not b.get("cleanup") for s in b["s"] if s["k"] == "assign" and s["rv"][0] == "agg"
           and s["rv"][1].get("adt") == "winter_air::air::transition::TransitionConstraints"]
    if not agg:
        raise AnchorLost("TransitionConstraints::new: struct literal not found")
    flds = agg[0]["rv"][1]["fields"]
    res = f.forward_locals([t["dest"][0]], through_calls=())
    pair_ok = True
    for coef, half, deg in (("main_constraint_coef", ".0", "main_transition_constraint_degrees"),
                            ("aux_constraint_coef", ".1", "aux_transition_constraint_degrees")):
        op = agg[0]["rv"][2][flds.index(coef)]
        csl = f.slice_of_operand(op, at=agg[0]["_pos"])
        from_half = any(pl[0] in res and any(isinstance(e, str) and e.startswith(half + ":") for e in pl[1:]) for pl in csl["places"])
        dop = agg[0]["rv"][2][flds.index(coef.replace("coef", "degrees"))]
        dsl = f.slice_of_operand(dop, at=agg[0]["_pos"])
        pair_ok &= from_half and deg in slice_field_bases(dsl)
    ctx.ob("R8", "transition-halves-paired-with-their-degrees", pair_ok,
           "main coefficients = first half with the main degrees, aux coefficients = second half with the aux degrees" if pair_ok else
           "the coefficient halves are not paired with the matching constraint degrees", f, agg[0]["sp"]["at"])
    g = p.fn(TC_COMBINE)
    zips = [(b2, t2) for b2, t2 in g.calls() if (callee_of(t2) or {}).get("name") == "zip" and not g.is_cleanup(b2)]
    seen = set()
    for b2, t2 in zips:
        a, b = arg_slice(g, t2, 0), arg_slice(g, t2, 1)
        ev = 2 if 2 in a["args"] else (3 if 3 in a["args"] else None)
        cf = [x for x in ("main_constraint_coef", "aux_constraint_coef") if x in slice_field_bases(b)]
        if ev and cf:
            seen.add((ev, cf[0]))
    good = seen == {(2, "main_constraint_coef"), (3, "aux_constraint_coef")}
    ctx.ob("R8", "combine_evaluations-pairs-evaluations-with-coefficients", good,
           "main evaluations are zipped with main_constraint_coef and aux evaluations with aux_constraint_coef" if good else
           "combine_evaluations pairs %s" % sorted(seen), g)
    h = p.fn(BC_NEW)
    bi, t = _split_site(h)
    sl = arg_slice(h, t, 1)
    ln = [b for b in sl["calls"] if (callee_of(h.term(b)) or {}).get("name") == "len"]
    main_len = False
    for b in ln:
        inner = arg_slice(h, h.term(b), 0)
        main_len = main_len or any(h.local_name(x) == "main_assertions" for x in inner["locals"])
    ok = main_len and 4 in arg_slice(h, t, 0)["args"] and not any(h.local_name(x) == "aux_assertions" for x in sl["locals"])
    ctx.ob("R8", "boundary-coefficients-split-at-main-count", ok,
           "boundary coefficients are split at main_assertions.len()" if ok else
           "boundary coefficients are not split at the number of main assertions", h, t["sp"]["at"])
    gcs = [(b2, t2) for b2, t2 in h.calls() if (callee_of(t2) or {}).get("name") == "group_constraints" and not h.is_cleanup(b2)]
    res = h.forward_locals([t["dest"][0]], through_calls=())
    wired = set()
    for b2, t2 in gcs:
        a0 = arg_slice(h, t2, 0)
        a2 = arg_slice(h, t2, 2)
        which = "main" if any(h.local_name(x) == "main_assertions" for x in a0["locals"]) else (
            "aux" if any(h.local_name(x) == "aux_assertions" for x in a0["locals"]) else "?")
        half = ".0" if any(pl[0] in res and any(isinstance(e, str) and e.startswith(".0:") for e in pl[1:]) for pl in a2["places"]) else (
            ".1" if any(pl[0] in res and any(isinstance(e, str) and e.startswith(".1:") for e in pl[1:]) for pl in a2["places"]) else "?")
        wired.add((which, half))
    good = wired == {("main", ".0"), ("aux", ".1")}
    ctx.ob("R8", "boundary-halves-paired-with-their-assertions", good,
           "group_constraints(main assertions, first half) and group_constraints(aux assertions, second half)" if good else
           "boundary coefficient halves are wired %s" % sorted(wired), h)


def r9_boundary_group_key(ctx):
    """boundary constraints that share a divisor are merged into one group, and the divisor is built
    from the first assertion of the group only: the grouping key must determine (stride, first_step)
    injectively.  Structural form: the key is the pair of the two accessor results themselves."""
    p = ctx.p
    f = p.fn("winter_air::air::boundary::group_constraints")
    L = for_loops(f)
    if not L:
        raise AnchorLost("group_constraints: assertion loop not found")
    ok, how = False, "no pair (assertion.stride(), assertion.first_step()) is used as the grouping key"
    for bi, b in enumerate(f.blocks):
        if b.get("cleanup"):
            continue
        for s in b["s"]:
            if s["k"] != "assign" or s["rv"][0] != "agg" or s["rv"][1].get("k") != "tuple" or len(s["rv"][2]) != 2:
                continue
            names = []
            for o in s["rv"][2]:
                nm = None
                l = op_local(o)
                if l is not None:
                    for x in f.copy_chain(l):
                        for d in f.defs(x):
                            if d["kind"] == "call":
                                nm = (callee_of(d["term"]) or {}).get("name")
                names.append(nm)
            if sorted(n or "" for n in names) != ["first_step", "stride"]:
                continue
            used = f.forward_locals([s["p"][0]], through_calls=None)
            consumers = [t for b2, t in f.calls() if any(op_local(a) in used for a in t["a"])]
            caps = [s2 for b2 in f.blocks for s2 in b2["s"] if s2["k"] == "assign" and s2["rv"][0] == "agg" and s2["rv"][1].get("k") == "closure"
                    and any(op_local(o) in used for o in s2["rv"][2])]
            if consumers or caps:
                ok, how = True, "groups are looked up by the pair (stride(), first_step()) of the assertion (an injective key)"
    if not ok:
        # report what the key is made of, if a lookup exists
        arith = [s for b in f.blocks if not b.get("cleanup") for s in b["s"] if s["k"] == "assign" and s["rv"][0] == "bin" and
                 s["rv"][1].startswith(("Add", "Mul", "BitOr", "BitXor", "Shl"))]
        for s in arith:
            sl = f.slice_of_operand(["cp", [s["p"][0]]], at=(s["_pos"][0], f.INF))
            nm = {(callee_of(f.term(b)) or {}).get("name") for b in sl["calls"]}
            if {"stride", "first_step"} <= nm:
                how = "stride() and first_step() are combined arithmetically (%s at %s) into the grouping key: different divisors can share a key" % (
                    s["rv"][1], ir.line_of(s["sp"]["at"]))
    ctx.ob("R9", "boundary-groups-keyed-by-(stride,first_step)", ok, "group_constraints: " + how, f)


def run(ctx):
    ctx.rule("R1", "acceptable_options.validate(&proof)? is propagated and dominates every protocol step of verify()", 2)
    ctx.rule("R2", "coin seed = proof.context.to_elements() ++ pub_inputs.to_elements(); AIR built from proof.trace_info/options and the same pub_inputs; each arm passes (air, channel(air, proof)?, coin) on", 7)
    ctx.rule("R3", "every challenge is drawn after the coin absorbed what it must bind (dominance chain over resolved coin events), results propagated, single coin", 19)
    ctx.rule("R4", "OOD consistency: evaluate_constraints(air, coeffs, proof OOD frames, aux rands, z) != H(z) from the proof's constraint frame -> Err on every accepting path; both frames absorbed", 9)
    ctx.rule("R5", "proof-of-work: check_leading_zeros(nonce) < grinding_factor -> Err dominates draw_integers; same nonce", 3)
    ctx.rule("R6", "reader results propagated; acceptance = FRI verdict over compose_columns(checked data); no discarded Result in verifier crates", 5)
    ctx.rule("R7", "evaluate_constraints: result combines transition evaluations and every main and aux boundary group", 5)
    ctx.rule("R8", "composition coefficients are split at the number of main-segment constraints / assertions and each half is paired with its own constraints (TransitionConstraints::new, combine_evaluations, BoundaryConstraints::new)", 5)
    ctx.rule("R9", "boundary constraint groups (one divisor each) are keyed by the pair (stride, first_step) itself", 1)
    ctx.guard("R9", r9_boundary_group_key)
    for rid, fn in (("R1", r1_validate_first), ("R2", r2_seed_and_air), ("R3", r3_challenge_order),
                    ("R4", r4_ood_consistency), ("R5", r5_proof_of_work), ("R6", r6_results_and_deep),
                    ("R7", r7_evaluate_constraints), ("R8", r8_coefficient_wiring)):
        ctx.guard(rid, fn)
    ctx.assume("numerical correctness of divisors / boundary polynomials / DEEP composition is value-level (C22/C23) and not decided")
    ctx.assume("user Air implementation evaluates the intended constraints")
