"""C26 — primitive encodings round-trip and reject malformed input (two structural clauses)."""
from .. import ir, panics
from ..ir import AnchorLost
from . import c05

SR = "<winter_utils::serde::byte_reader::SliceReader<'_> as winter_utils::serde::byte_reader::ByteReader>::"
BR = "winter_utils::serde::byte_reader::ByteReader::"


def entry_points(prog):
    es = [SR + m for m in ("read_u8", "peek_u8", "read_slice", "read_array", "check_eor", "has_more_bytes")]
    es += [k for k in prog.funcs if k.startswith(BR) and "{closure" not in k]
    for i in prog.impls_of_trait("winter_utils::serde::Deserializable"):
        if i["crate"] == "winter_utils":
            for it in i["items"]:
                if it["name"] == "read_from" and it["key"] in prog.funcs:
                    es.append(it["key"])
    es = sorted(set(k for k in es if k in prog.funcs))
    if len(es) < 30:
        raise AnchorLost("expected >= 30 primitive decoder entry points, found %d" % len(es))
    return es


make_stop = c05.make_stop


UEL = "winter_utils::serde::byte_writer::usize_encoded_len"


def vint64_len(bits):
    """documented vint64 length of a value with `bits` significant bits."""
    return 9 if bits > 56 else max(1, -(-bits // 7))


def r3_vint64_length(c):
    """usize_encoded_len depends on its argument only through leading_zeros(value): 65 classes.  The
    returned length is evaluated per class by the interval engine (no winterfell code is run; the
    body is min / saturating_sub / division by constants) and compared with the vint64 table."""
    from .. import intervals, guardcells
    from ..ir import callee_of, op_local
    from ..patterns import cmp_sites, slice_const_ints
    p = c.p
    f = p.fn(UEL, inline=False)
    lz = [(bi, t) for bi, t in f.calls() if (callee_of(t) or {}).get("name") == "leading_zeros" and not f.is_cleanup(bi)]
    uses_ok = False
    if len(lz) == 1:
        arg_chain, work, other = {1}, [1], []
        while work:
            l = work.pop()
            for u in f.uses(l):
                if u["kind"] == "assign" and u["rv"][0] == "use" and len(u["p"]) == 1:
                    if u["p"][0] not in arg_chain:
                        arg_chain.add(u["p"][0])
                        work.append(u["p"][0])
                elif u["kind"] == "call" and u["bb"] == lz[0][0]:
                    pass
                else:
                    other.append(u)
        uses_ok = op_local(lz[0][1]["a"][0]) in arg_chain and not other
    c.ob("R3", "length-factors-through-leading_zeros", uses_ok,
         "usize_encoded_len uses `value` only as the argument of one leading_zeros call" if uses_ok else
         "usize_encoded_len no longer depends on its argument only through leading_zeros (the 65-class table does not apply)", f)
    if not uses_ok:
        return
    an = intervals.Analysis(p)
    rb = f.return_blocks()
    bad, und = [], []
    for z in range(65):
        an.overrides = {(f.key, lz[0][1]["dest"][0]): (z, z)}
        an.feasible = {}
        guardcells._clear(an)
        # definitions in blocks that the pinned class cannot reach do not contribute
        an.feasible = {f.key: guardcells.feasible_blocks(an, f)}
        guardcells._clear(an)
        iv = None
        for r in rb:
            if r in an.feasible[f.key]:
                v = an.eval_op(f, ["cp", [0]], (r, f.INF - 1))
                iv = v if iv is None else intervals.join(iv, v)
        want = vint64_len(64 - z)
        if iv is None or iv[0] != iv[1]:
            und.append(z)
        elif iv[0] != want:
            bad.append("%d significant bits -> %d (vint64: %d)" % (64 - z, iv[0], want))
    an.overrides = {}
    an.feasible = {}
    ok = not bad and not und
    c.ob("R3", "vint64-length-table", ok,
         "usize_encoded_len = 9 for > 56 significant bits, else max(1, ceil(bits / 7)), on all 65 leading-zero classes" if ok else
         ("usize_encoded_len differs from the vint64 length: " + "; ".join(bad[:4]) if bad else
          "usize_encoded_len could not be evaluated on leading-zero classes %s" % und[:6]), f)
    # writer / reader wiring
    w = p.fn("winter_utils::serde::byte_writer::ByteWriter::write_usize")
    r = p.fn("winter_utils::serde::byte_reader::ByteReader::read_usize")
    cs = w.calls_to(UEL)
    wired = bool(cs) and 2 in w.slice_of_operand(cs[0][1]["a"][0], at=(cs[0][0], w.INF))["args"]
    c.ob("R3", "write_usize-length-from-table", wired,
         "write_usize takes its length from usize_encoded_len(value as u64)" if wired else "write_usize does not take its length from usize_encoded_len(value)", w)
    for g, label in ((w, "write_usize"), (r, "read_usize")):
        nine = [x for x in cmp_sites(g) if x["op"] in ("Eq", "Ne") and 9 in (slice_const_ints(g.slice_of_operand(x["a"], at=(x["bb"], g.INF))) |
                                                                      slice_const_ints(g.slice_of_operand(x["b"], at=(x["bb"], g.INF))))]
        if not nine:
            # `match length { 9 => .., _ => .. }` compiles to a switch on the integer itself
            for b in g.blocks:
                t = b["t"]
                if t["k"] == "switch" and not b.get("cleanup") and any(str(v) == "9" for v, _ in t.get("arms", [])):
                    nine = [t]
        c.ob("R3", "%s-nine-byte-case" % label, bool(nine),
             "%s special-cases length == 9 (zero length byte followed by 8 value bytes)" % label if nine else
             "%s has no length == 9 case" % label, g)


def r4_check_eor_callers(c):
    """`check_eor(k)` promises k more *bytes*.  Inside a ByteReader implementation it guards that
    implementation's own k-byte read.  Anywhere else (the provided generic methods, Deserializable
    impls) it is acceptable only in front of a read of exactly k bytes; in front of a list of
    elements it rejects encodings whose elements are empty (`()`, `[T; 0]`)."""
    from ..ir import callee_of, op_local
    p = c.p
    n = 0
    for k, f in sorted(p.funcs.items()):
        if f.crate not in ("winter_utils", "winter_math", "winter_crypto", "winter_air", "winter_fri") or not f.blocks:
            continue
        it = f.raw.get("impl_trait") or ""
        if it.endswith("byte_reader::ByteReader"):
            continue
        for bi, t in f.calls():
            cc = callee_of(t)
            if f.is_cleanup(bi) or not cc or cc.get("name") != "check_eor" or "ByteReader" not in (cc.get("trait") or cc["def"]):
                continue
            n += 1
            amt = t["a"][1]
            edges = [e for ch in f.result_checks(bi) for e in ch["pass_edges"]]
            region = f.reach([tg for _, tg in edges]) if edges else set()
            ok = False
            for b2, t2 in f.calls():
                c2 = callee_of(t2)
                if b2 in region and c2 and c2.get("name") in ("read_slice", "read_vec") and len(t2["a"]) == 2:
                    la, lb = op_local(amt), op_local(t2["a"][1])
                    if la is not None and lb is not None and f.copy_chain(la) & f.copy_chain(lb):
                        ok = True
            c.ob("R4", "check_eor-guards-a-byte-read", ok,
                 "check_eor(k) is followed by a read of exactly k bytes" if ok else
                 "check_eor(k) is called outside a ByteReader implementation with k not the size of the following byte read: element counts are not byte counts (elements may have empty encodings)",
                 f, t["sp"]["at"])
    c.ob("R4", "check_eor-callers-enumerated", True, "%d calls to check_eor outside ByteReader implementations" % n, "winter_utils", nontrivial=False)


def run(ctx):
    ctx.rule("R2", "no undischarged panic / abort / unbounded-allocation site reachable from SliceReader methods, ByteReader provided methods and the primitive Deserializable impls on arbitrary bytes (A5)", 20)
    ctx.rule("ENTRY", "entry points resolved from the impl table", 1)

    def go(c):
        entries = entry_points(c.p)
        c.ob("ENTRY", "entry-points", True, "%d primitive decoder entry points" % len(entries), "entry-set", nontrivial=False)
        c05.run_inventory(c, "R2", entries, "reader = SliceReader + ByteReader provided methods")
    ctx.guard("R2", go)
    from . import c07
    if hasattr(c07, "run_schema"):
        ctx.rule("R1", "writer/reader schema agreement for the primitive impls in winter_utils::serde", 10)
        ctx.guard("R1", lambda c: c07.run_schema(c, "R1", only_crates=("winter_utils",)))
    ctx.rule("R4", "check_eor(k) outside ByteReader implementations only guards a read of exactly k bytes (none today)", 1)
    ctx.guard("R4", r4_check_eor_callers)
    ctx.rule("R3", "usize_encoded_len equals the documented vint64 length on all 65 leading-zero classes; write_usize takes its length from it; writer and reader both special-case 9 bytes", 5)
    ctx.guard("R3", r3_vint64_length)
    ctx.assume("the shift arithmetic of write_usize/read_usize (value << length, >> length) is value-level and not decided; only the length table and its wiring are")


def thorough(ctx):
    from . import c07
    ctx.guard("R1", lambda c: c07.run_schema(c, "R1", only_crates=("winter_utils",), cfg="nostd"))

    def go(c):
        entries = entry_points(c.prog("nostd"))
        c05.run_inventory(c, "R2", entries, "no_std build", cfg="nostd")
    ctx.guard("R2", go)
