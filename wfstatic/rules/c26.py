"""C26 — primitive encodings round-trip and reject malformed input (two structural clauses)."""
from .. import ir, panics
from ..ir import AnchorLost
from . import c05

SR = "<winter_utils::serde::byte_reader::SliceReader<'_> as winter_utils::serde::byte_reader::ByteReader>::"
BR = "winter_utils::serde::byte_reader::ByteReader::"


def entry_points(prog):
    es = [SR + m for m in ("read_u8", "peek_u8", "read_slice", "read_array", "check_eor", "has_more_bytes")]
    es += [k for k in prog.funcs if k.startswith(BR) and "{closure" not in k]
    for i in prog.impls_of_trait("winter_utils::serde::Deserializable"):
        if i["crate"] == "winter_utils":
            for it in i["items"]:
                if it["name"] == "read_from" and it["key"] in prog.funcs:
                    es.append(it["key"])
    es = sorted(set(k for k in es if k in prog.funcs))
    if len(es) < 30:
        raise AnchorLost("expected >= 30 primitive decoder entry points, found %d" % len(es))
    return es


make_stop = c05.make_stop


def run(ctx):
    ctx.rule("R2", "no undischarged panic / abort / unbounded-allocation site reachable from SliceReader methods, ByteReader provided methods and the primitive Deserializable impls on arbitrary bytes (A5)", 20)
    ctx.rule("ENTRY", "entry points resolved from the impl table", 1)

    def go(c):
        entries = entry_points(c.p)
        c.ob("ENTRY", "entry-points", True, "%d primitive decoder entry points" % len(entries), "entry-set", nontrivial=False)
        c05.run_inventory(c, "R2", entries, "reader = SliceReader + ByteReader provided methods")
    ctx.guard("R2", go)
    from . import c07
    if hasattr(c07, "run_schema"):
        ctx.rule("R1", "writer/reader schema agreement for the primitive impls in winter_utils::serde", 10)
        ctx.guard("R1", lambda c: c07.run_schema(c, "R1", only_crates=("winter_utils",)))
    ctx.assume("the vint64 arithmetic of write_usize/read_usize/usize_encoded_len is value-level and not decided")


def thorough(ctx):
    from . import c07
    ctx.guard("R1", lambda c: c07.run_schema(c, "R1", only_crates=("winter_utils",), cfg="nostd"))

    def go(c):
        entries = entry_points(c.prog("nostd"))
        c05.run_inventory(c, "R2", entries, "no_std build", cfg="nostd")
    ctx.guard("R2", go)
