"""C25 — security estimates are bounded by the hash's collision resistance and the verifier's
acceptable-options check is wired to the matching estimate (two structural clauses)."""
from .. import ir
from ..ir import AnchorLost, callee_of, op_place, op_local, op_const, is_call_to
from ..patterns import (calls_to, arg_slice, cmp_sites, slice_field_bases, closure_calls, check_bool_guard)

SEC = "winter_air::proof::security::"
MIN = "core::cmp::min"
MIN_METHOD = "core::cmp::Ord::min"      # `a.min(b)` on integers: the same function
VALIDATE = "winter_verifier::AcceptableOptions::validate"
PROOF = "winter_air::proof::Proof::"


def _min_with_param(f, op, param, through_cast=True):
    """is `op` (a copy / integer cast of) the result of cmp::min(_, x) with x a copy/cast of parameter `param`?
    returns the call term or None."""
    from .c11 import _int_copy_chain
    l = op_local(op)
    if l is None:
        return None
    for x in _int_copy_chain(f, l):
        for d in f.defs(x):
            if d["kind"] == "call" and is_call_to(d["term"], MIN, MIN_METHOD):
                for a in d["term"]["a"]:
                    al = op_local(a)
                    if al is not None and param in _int_copy_chain(f, al):
                        return d["term"]
    return None


def r1_bounded(ctx):
    p = ctx.p
    f = p.fn(SEC + "ConjecturedSecurity::compute")
    aggs = [s for b in f.blocks for s in b["s"] if s["k"] == "assign" and s["rv"][0] == "agg"
            and s["rv"][1].get("adt") == SEC + "ConjecturedSecurity"]
    if not aggs:
        raise AnchorLost("ConjecturedSecurity::compute: struct literal not found")
    for s in aggs:
        t = _min_with_param(f, s["rv"][2][0], 3)
        ctx.ob("R1", "conjectured<=collision_resistance", t is not None,
               "ConjecturedSecurity(min(_, collision_resistance)): the stored value is the result of cmp::min with the collision_resistance parameter"
               if t else "the stored conjectured security is not min(_, collision_resistance)", f, s["sp"]["at"])
        if t is None:
            continue
        # the other operand is min(field_security, query_security) - 1 with field_security = base_field_bits * degree
        other = [a for a in t["a"] if 3 not in f.copy_chain(op_local(a) or -1)]
        ok = False
        how = "the first operand is not min(field_security, _) - 1"
        if other:
            ol = op_local(other[0])
            for x in f.copy_chain(ol):
                for d in f.defs(x):
                    sub = None
                    if d["kind"] == "assign" and d["rv"][0] == "bin" and d["rv"][1].startswith("Sub"):
                        sub = (d["rv"][2], d["rv"][3])
                    elif d["kind"] == "call" and (callee_of(d["term"]) or {}).get("name") in ("saturating_sub", "wrapping_sub") \
                            and (callee_of(d["term"]) or {}).get("name") == "saturating_sub" and len(d["term"]["a"]) == 2:
                        sub = (d["term"]["a"][0], d["term"]["a"][1])
                    if sub:
                        c = op_const(sub[1])
                        inner = _min_any(f, sub[0])
                        if c and c.get("v") == "1" and inner is not None:
                            fs = [arg_slice(f, inner, i) for i in range(2)]
                            has_field = any(2 in s_["args"] and "degree" in {(callee_of(f.term(b)) or {}).get("name") for b in s_["calls"]} for s_ in fs)
                            if has_field:
                                ok = True
                                how = "stored value = min(min(base_field_bits * degree, query_security) - 1 (saturating at 0), collision_resistance): strictly below the extension field size whenever that size is positive"
        ctx.ob("R1", "conjectured<field-security", ok, how, f, s["sp"]["at"])
    g = p.fn(SEC + "ProvenSecurity::compute")
    aggs = [s for b in g.blocks for s in b["s"] if s["k"] == "assign" and s["rv"][0] == "agg"
            and s["rv"][1].get("adt") == SEC + "ProvenSecurity"]
    if not aggs:
        raise AnchorLost("ProvenSecurity::compute: struct literal not found")
    for s in aggs:
        for name, o in zip(s["rv"][1]["fields"], s["rv"][2]):
            t = _min_with_param(g, o, 4)
            ctx.ob("R1", "proven.%s<=collision_resistance" % name, t is not None,
                   "ProvenSecurity.%s = min(_, collision_resistance as u64) as u32" % name if t else
                   "ProvenSecurity.%s is not the result of cmp::min with the collision_resistance parameter" % name,
                   g, s["sp"]["at"])
    # Proof::{conjectured,proven}_security pass H::COLLISION_RESISTANCE as that parameter
    for nm, idx in (("conjectured_security", 2), ("proven_security", 3)):
        h = p.fn(PROOF + nm)
        cs = [(bi, t) for bi, t in h.calls() if (callee_of(t) or {}).get("name") == "compute"]
        if not cs:
            raise AnchorLost("Proof::%s: compute call not found" % nm)
        c = op_const(cs[0][1]["a"][idx])
        good = bool(c) and c.get("uneval_def") == "winter_crypto::hash::Hasher::COLLISION_RESISTANCE"
        ctx.ob("R1", "%s-passes-H::COLLISION_RESISTANCE" % nm, good,
               "Proof::%s::<H>() passes H::COLLISION_RESISTANCE as the bound" % nm if good else
               "Proof::%s does not pass H::COLLISION_RESISTANCE as the collision_resistance argument" % nm, h, cs[0][1]["sp"]["at"])


def _min_any(f, op):
    l = op_local(op)
    if l is None:
        return None
    found = None
    chain = f.copy_chain(l)
    for x in chain:
        for d in f.defs(x):
            if d["kind"] == "call" and is_call_to(d["term"], MIN, MIN_METHOD):
                found = d["term"]
            elif d["kind"] == "assign" and d["rv"][0] in ("use", "cast") and \
                    op_local(d["rv"][1] if d["rv"][0] == "use" else d["rv"][2]) in chain and \
                    len(op_place(d["rv"][1] if d["rv"][0] == "use" else d["rv"][2]) or [0, 0]) == 1:
                continue
            else:
                # the value is also produced some other way (e.g. incremented after the min):
                # it is not bounded by the min any more
                return None
    return found


def r2_validate(ctx):
    p = ctx.p
    f = p.fn(VALIDATE)
    adt = p.adts.get("winter_verifier::AcceptableOptions")
    if not adt:
        raise AnchorLost("AcceptableOptions enum not found")
    variants = {str(i): v["name"] for i, v in enumerate(adt["variants"])}
    # dispatch switch on discriminant(*self)
    sw = None
    for bi, b in enumerate(f.blocks):
        for s in b["s"]:
            if s["k"] == "assign" and s["rv"][0] == "discr" and s["rv"][1][0] == 1 and b["t"]["k"] == "switch":
                sw = (bi, b["t"])
    if not sw:
        raise AnchorLost("validate: match on self not found")
    oks = f.ok_exit_blocks()
    want = {"MinConjecturedSecurity": (PROOF + "conjectured_security", SEC + "ConjecturedSecurity::is_at_least"),
            "MinProvenSecurity": (PROOF + "proven_security", SEC + "ProvenSecurity::is_at_least")}
    seen = set()
    for v, tgt in sw[1]["arms"]:
        name = variants.get(v, "?")
        seen.add(name)
        region = f.reach([tgt])
        if name in want:
            sec_key, pred_key = want[name]
            pc = [(bi, t) for bi, t in f.calls_to(pred_key) if bi in region]
            if not pc:
                ctx.ob("R2", "%s-arm-uses-matching-predicate" % name, False,
                       "the %s arm does not call %s" % (name, pred_key.split("::")[-2] + "::is_at_least"), f)
                continue
            bi, t = pc[0]
            s0 = arg_slice(f, t, 0)
            sec_calls = [b for b in s0["calls"] if is_call_to(f.term(b), sec_key)]
            from_proof = bool(sec_calls) and 2 in arg_slice(f, f.term(sec_calls[0]), 0)["args"]
            s1 = arg_slice(f, t, 1)
            thr = 1 in s1["args"] and any(any(isinstance(e, str) and e.startswith("@") and name in e for e in pl[1:]) for pl in s1["places"])
            ctx.ob("R2", "%s-arm-wiring" % name, from_proof and thr,
                   "%s arm: is_at_least(proof.%s::<H>(), *minimal_security from this variant)" % (name, sec_key.split("::")[-1])
                   if from_proof and thr else "%s arm compares the wrong estimate or the wrong threshold" % name, f, t["sp"]["at"])
            ok, how = check_bool_guard(f, bi, start=tgt, reject_when=False)
            ctx.ob("R2", "%s-arm-guard" % name, ok, how, f, t["sp"]["at"])
        elif name == "OptionSet":
            anyc = [(bi, t) for bi, t in f.calls() if bi in region and (callee_of(t) or {}).get("name") == "any"]
            if not anyc:
                ctx.ob("R2", "OptionSet-arm-membership", False, "the OptionSet arm does not test membership with any()", f)
                continue
            bi, t = anyc[0]
            s0 = arg_slice(f, t, 0)
            from_set = 1 in s0["args"]
            eqs = closure_calls(p, arg_slice(f, t, 1)["closures"], ("core::cmp::PartialEq::eq",))
            opt = False
            from ..patterns import upvar_origins
            for cf, cbi, ct in eqs:
                nm = {(callee_of(cf.term(b)) or {}).get("name") for x in range(2) for b in arg_slice(cf, ct, x)["calls"]}
                if "options" in nm:
                    opt = True
                # `let options = proof.options(); set.iter().any(|o| o == options)`: a captured value
                for x in range(2):
                    for pf, locs in upvar_origins(p, cf, arg_slice(cf, ct, x)):
                        if pf.key == f.key:
                            for l in locs:
                                sl = f.backward_slice([l], at=(bi, f.INF))
                                if "options" in {(callee_of(f.term(b)) or {}).get("name") for b in sl["calls"]} and 2 in sl["args"]:
                                    opt = True
            ctx.ob("R2", "OptionSet-arm-membership", from_set and opt,
                   "OptionSet arm: options.iter().any(|o| o == proof.options())" if from_set and opt else
                   "OptionSet arm does not compare the set's elements with proof.options()", f, t["sp"]["at"])
            ok, how = check_bool_guard(f, bi, start=tgt, reject_when=False)
            ctx.ob("R2", "OptionSet-arm-guard", ok, how, f, t["sp"]["at"])
    if seen != set(variants.values()):
        ctx.ob("R2", "all-variants-handled", False, "match arms %s differ from enum variants %s" % (sorted(seen), sorted(variants.values())), f)
    # is_at_least bodies
    c = p.fn(SEC + "ConjecturedSecurity::is_at_least")
    sites = [_ge_site(c, x) for x in cmp_sites(c)]
    good = len(sites) == 1 and sites[0] is not None and 2 in c.copy_chain(op_local(sites[0][1])) and \
        1 in c.slice_of_operand(sites[0][0], at=(sites[0][2]["bb"], 10**6))["args"] and _bool_fn(c, [sites[0][2]]) == {(True,): True, (False,): False}
    ctx.ob("R2", "ConjecturedSecurity::is_at_least-body", good, "is_at_least(bits) = self.0 >= bits" if good else
           "ConjecturedSecurity::is_at_least is not `self.0 >= bits`", c)
    q = p.fn(SEC + "ProvenSecurity::is_at_least")
    sites = [_ge_site(q, x) for x in cmp_sites(q)]
    good = bool(sites) and all(x is not None and 2 in q.copy_chain(op_local(x[1])) for x in sites)
    if good and len(sites) == 2:
        fields = [set(slice_field_bases(q.slice_of_operand(x[0], at=(x[2]["bb"], 10**6)))) for x in sites]
        good = sorted(map(sorted, fields)) == [["list_decoding"], ["unique_decoding"]] and \
            _bool_fn(q, [x[2] for x in sites]) == {(True, True): True, (True, False): True, (False, True): True, (False, False): False}
    elif good and len(sites) == 1:
        # max(list_decoding, unique_decoding) >= bits: the same disjunction
        val, _, site = sites[0]
        good = False
        for x in (q.copy_chain(op_local(val)) if op_local(val) is not None else ()):
            for d in q.defs(x):
                if d["kind"] == "call" and (callee_of(d["term"]) or {}).get("name") == "max" and (callee_of(d["term"]) or {}).get("krate") == "core" \
                        and len(d["term"]["a"]) == 2:
                    fs = [set(slice_field_bases(arg_slice(q, d["term"], i))) for i in range(2)]
                    good = sorted(map(sorted, fs)) == [["list_decoding"], ["unique_decoding"]] and \
                        _bool_fn(q, [site]) == {(True,): True, (False,): False}
    else:
        good = False
    ctx.ob("R2", "ProvenSecurity::is_at_least-body", good,
           "is_at_least(bits) = list_decoding >= bits || unique_decoding >= bits" if good else
           "ProvenSecurity::is_at_least is not the disjunction of the two `>= bits` tests", q)


def _ge_site(f, site):
    """normalise a comparison to (value, threshold, site) when it reads `value >= threshold`."""
    if site["op"] == "Ge":
        v, t = site["a"], site["b"]
    elif site["op"] == "Le":
        v, t = site["b"], site["a"]
    else:
        return None
    if op_local(v) is None or op_local(t) is None:
        return None
    return v, t, site


def _bool_fn(f, sites):
    """the function's boolean result as a table over the truth values of the given comparison sites
    (None for a combination whose result is not determined by them)."""
    import itertools
    out = {}
    for combo in itertools.product((True, False), repeat=len(sites)):
        env = {}
        pin = {(s["bb"], s["local"]): v for s, v in zip(sites, combo)}
        bb, steps, res = 0, 0, None
        while steps < 64:
            steps += 1
            b = f.blocks[bb]
            for st in b["s"]:
                if st["k"] != "assign" or len(st["p"]) != 1:
                    continue
                l, rv = st["p"][0], st["rv"]
                if (bb, l) in pin and rv[0] == "bin":
                    env[l] = pin[(bb, l)]
                elif rv[0] == "use":
                    k = op_const(rv[1])
                    if k is not None and k.get("ty") == "bool":
                        env[l] = str(k.get("v")) in ("1", "true", "True")
                    elif op_local(rv[1]) is not None and len(ir.op_place(rv[1])) == 1:
                        env[l] = env.get(op_local(rv[1]))
                    else:
                        env[l] = None
                elif rv[0] == "un" and rv[1] == "Not":
                    x = env.get(op_local(rv[2])) if op_local(rv[2]) is not None else None
                    env[l] = None if x is None else not x
                elif rv[0] == "bin" and rv[1] in ("BitOr", "BitAnd"):
                    x, y = (env.get(op_local(o)) if op_local(o) is not None else None for o in (rv[2], rv[3]))
                    env[l] = None if x is None or y is None else ((x or y) if rv[1] == "BitOr" else (x and y))
                else:
                    env[l] = None
            t = b["t"]
            if t["k"] == "return":
                res = env.get(0)
                break
            if t["k"] == "goto":
                bb = t["t"]
            elif t["k"] == "switch":
                x = env.get(op_local(t["d"])) if op_local(t["d"]) is not None else None
                if x is None:
                    break
                arms = {int(v): tg for v, tg in t["arms"]}
                bb = arms.get(1 if x else 0, t["else"])
            elif t["k"] in ("call", "drop", "assert") and isinstance(t.get("t"), int):
                if t.get("dest") and len(t["dest"]) == 1:
                    env[t["dest"][0]] = pin.get((bb, t["dest"][0]))     # a pinned site may be a boolean call result
                bb = t["t"]
            else:
                break
        out[combo] = res
    return out


def run(ctx):
    ctx.rule("R1", "every value stored in ConjecturedSecurity / ProvenSecurity is cmp::min(_, collision_resistance) (and conjectured = min(field_security, _) - 1 first); Proof::*_security pass H::COLLISION_RESISTANCE", 6)
    ctx.rule("R2", "AcceptableOptions::validate: each arm's Ok exit lies behind is_at_least(matching estimate, its own threshold) / membership in the option set; is_at_least bodies are >= tests", 8)
    ctx.guard("R1", r1_bounded)
    ctx.guard("R2", r2_validate)
    ctx.assume("monotonicity in queries/grinding/extension degree is value-level (float arithmetic, max_by_key search) and not decided")
