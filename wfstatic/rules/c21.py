"""C21 — Assertion step sets and overlap detection are exact (step-set clauses).

Decided: the steps an assertion applies to are the documented arithmetic progression and the reported
step count matches it, as far as this is a matter of the code's shape:
R1  Assertion::apply calls its callback once per region: single -> (first_step, values[0]); periodic ->
    (first_step + stride * i, values[0]) for i in 0 .. trace_length / stride; sequence ->
    (first_step + stride * i, values[i]) for (i, value) over all of values, no truncating adapter;
R2  Assertion::get_num_steps returns 1, trace_length / stride and values.len() in the same three regions:
    the periodic count is the very bound of apply's periodic loop (sibling agreement), the sequence count
    the length of the vector apply's sequence loop runs over;
R3  both validate the trace length first (validate_trace_length(trace_length) with a diverging consumer
    of the error) before anything else is computed.
Not decided: that validate_trace_length accepts exactly the fitting lengths and that overlaps_with is
exact (arithmetic case analysis over run-time integers: enumeration, i.e. execution)."""
from .. import ir
from ..ir import AnchorLost, callee_of, op_local, op_const, op_place
from ..patterns import arg_slice, slice_field_bases
from .c03 import for_loops
from .c14 import sym
from .c29 import TRUNCATING, _name, _names, _calls

A = "winter_air::air::assertions::Assertion::<E>::"
FIRST = ("field", ("arg", 1), 1)
STRIDE = ("field", ("arg", 1), 2)


def _fields_ok(p):
    adt = p.adts.get("winter_air::air::assertions::Assertion")
    if not adt:
        raise AnchorLost("Assertion struct not found")
    names = [x["name"] for x in adt["variants"][0]["fields"]]
    if names[:4] != ["column", "first_step", "stride", "values"]:
        raise AnchorLost("Assertion fields are %s (the symbolic reading assumes column, first_step, stride, values)" % names)


def _regions(f):
    """blocks of the single / periodic / sequence regions (by the edges of is_single() and is_periodic())."""
    s = _calls(f, "is_single")
    q = _calls(f, "is_periodic")
    if len(s) != 1 or len(q) != 1:
        raise AnchorLost("%s: is_single() / is_periodic() tests not found once each" % f.key)
    sc = f.bool_checks_of(s[0][0])
    qc = f.bool_checks_of(q[0][0])
    if not sc or not qc:
        raise AnchorLost("%s: the results of is_single() / is_periodic() are not branched on" % f.key)
    st, sf = sc[0]["true_edges"], sc[0]["false_edges"]
    qt, qf = qc[0]["true_edges"], qc[0]["false_edges"]

    def region(bb):
        if f.must_cross([bb], cut_edges=st) and not f.must_cross([bb], cut_edges=sf):
            return "single"
        if f.must_cross([bb], cut_edges=qt) and not f.must_cross([bb], cut_edges=qf) and f.must_cross([bb], cut_edges=sf):
            return "periodic"
        if f.must_cross([bb], cut_edges=qf) and not f.must_cross([bb], cut_edges=qt) and f.must_cross([bb], cut_edges=sf):
            return "sequence"
        return None
    return region


def _is_step(f, s, items, hdr=None):
    """s reads first_step + stride * i with i a loop item (hdr: the local receiving the loop's next())."""
    if s[0] != "bin" or s[1] != "Add":
        return False
    for a, b in ((s[2], s[3]), (s[3], s[2])):
        if a == FIRST and b[0] == "bin" and b[1] == "Mul":
            for x, y in ((b[2], b[3]), (b[3], b[2])):
                if x == STRIDE and y[0] == "?" and (y[1] in items or y[1] == hdr or any(isinstance(y[1], int) and y[1] in f.copy_chain(i) | {i} for i in items)):
                    return True
    return False


def _periodic_range(f, region):
    """bounds of the Range built in the periodic region of apply (loop or iterator pipeline)."""
    for bi, b in enumerate(f.blocks):
        if b.get("cleanup") or region(bi) != "periodic":
            continue
        for s in b["s"]:
            if s["k"] == "assign" and s["rv"][0] == "agg" and s["rv"][1].get("adt") == "core::ops::range::Range":
                return s, (sym(f, s["rv"][2][0]), sym(f, s["rv"][2][1]))
    return None, None


def _periodic_pipeline(p, f, region):
    """`(0..n).map(|i| first_step + stride * i).for_each(|step| f(step, value))` in the periodic region."""
    fe = [(bi, t) for bi, t in f.calls() if _name(t) == "for_each" and not f.is_cleanup(bi) and region(bi) == "periodic"]
    if len(fe) != 1:
        return None
    bi, t = fe[0]
    recv = arg_slice(f, t, 0)
    names = _names(f, recv)
    rs, bound = _periodic_range(f, region)
    ok = rs is not None and rs["p"][0] in recv["locals"] and bound == (("k", 0), ("bin", "Div", ("arg", 2), STRIDE)) and \
        "map" in names and not (names & TRUNCATING) and "rev" not in names
    # the map closure: first_step + stride * i over the captured assertion
    step_ok = False
    for ck in recv["closures"]:
        cm = p.funcs.get(ck)
        if cm is None:
            continue
        ret = None
        for b in cm.blocks:
            for s in b["s"]:
                if s["k"] == "assign" and s["p"] == [0]:
                    ret = sym(cm, s["rv"][1]) if s["rv"][0] == "use" else (("bin", str(s["rv"][1]).replace("WithOverflow", ""), sym(cm, s["rv"][2]), sym(cm, s["rv"][3])) if s["rv"][0] in ("bin", "cbin") else None)
        if ret and ret[0] == "bin" and ret[1] == "Add":
            for a, b2 in ((ret[2], ret[3]), (ret[3], ret[2])):
                if a[0] == "field" and a[1][0] == "env" and a[2] == 1 and b2[0] == "bin" and b2[1] == "Mul":
                    for x, y in ((b2[2], b2[3]), (b2[3], b2[2])):
                        if x[0] == "field" and x[1][0] == "env" and x[2] == 2 and y == ("arg", 2):
                            step_ok = True
    # the for_each closure: callback(step parameter, captured values[0])
    cb_ok = False
    cl = arg_slice(f, t, 1)
    first_value = any(_name(f.term(b)) == "index" and (op_const(f.term(b)["a"][1]) or {}).get("v") == "0" and
                      "values" in slice_field_bases(arg_slice(f, f.term(b), 0)) for b in cl["calls"])
    for ck in cl["closures"]:
        ce = p.funcs.get(ck)
        if ce is None:
            continue
        for b3, t3 in ce.calls():
            if _name(t3) in ("call_mut", "call", "call_once") and not ce.is_cleanup(b3) and len(t3["a"]) == 2:
                tup = None
                for x in ce.copy_chain(op_local(t3["a"][1])) | {op_local(t3["a"][1])}:
                    for d in ce.defs(x):
                        if d["kind"] == "assign" and d["rv"][0] == "agg" and d["rv"][1].get("k") == "tuple" and len(d["rv"][2]) == 2:
                            tup = d
                if tup and sym(ce, tup["rv"][2][0]) == ("arg", 2) and sym(ce, tup["rv"][2][1])[0] == "env":
                    cb_ok = True
    return (ok and step_ok and cb_ok and first_value), (bound[1] if bound else None)


def r1_apply(ctx):
    p = ctx.p
    _fields_ok(p)
    f = p.fn(A + "apply")
    region = _regions(f)
    loops = for_loops(f)
    cbs = [(bi, t) for bi, t in f.calls() if _name(t) in ("call_mut", "call", "call_once") and not f.is_cleanup(bi) and
           op_local(t["a"][0]) is not None and 3 in f.slice_of_operand(t["a"][0], at=(bi, f.INF))["args"] | {3 if 3 in f.copy_chain(op_local(t["a"][0])) else None}]
    seen = {}
    for bi, t in cbs:
        r = region(bi)
        if r is None:
            ctx.ob("R1", "callback-outside-the-three-regions", False, "the callback is invoked outside the single / periodic / sequence regions", f, t["sp"]["at"])
            continue
        seen.setdefault(r, []).append((bi, t))
    if not seen.get("periodic"):
        pipe = _periodic_pipeline(p, f, region)
        if pipe is not None:
            ok, bound = pipe
            ctx.ob("R1", "periodic:step-and-value", ok, "periodic: (0..trace_length / stride).map(|i| first_step + stride * i).for_each(|step| f(step, values[0]))" if ok else
                   "periodic assertion: the iterator pipeline does not hand the callback (first_step + stride * i, values[0]) for i in 0..trace_length / stride", f)
            seen["periodic"] = None
    for r in ("single", "periodic", "sequence"):
        if r == "periodic" and r in seen and seen[r] is None:
            continue
        if len(seen.get(r, [])) != 1:
            ctx.ob("R1", "%s:callback-once" % r, False, "the %s region invokes the callback %d times" % (r, len(seen.get(r, []))), f)
            continue
        bi, t = seen[r][0]
        tup = None
        for x in f.copy_chain(op_local(t["a"][1])) | {op_local(t["a"][1])}:
            for d in f.defs(x):
                if d["kind"] == "assign" and d["rv"][0] == "agg" and d["rv"][1].get("k") == "tuple" and len(d["rv"][2]) == 2:
                    tup = d
        if tup is None:
            ctx.ob("R1", "%s:callback-once" % r, False, "the callback's (step, value) argument is not built here", f, t["sp"]["at"])
            continue
        step, val = sym(f, tup["rv"][2][0]), tup["rv"][2][1]
        vsl = f.slice_of_operand(val, at=(tup["bb"], tup["si"]))
        first_value = any(_name(f.term(b)) == "index" and (op_const(f.term(b)["a"][1]) or {}).get("v") == "0" and
                          "values" in slice_field_bases(arg_slice(f, f.term(b), 0)) for b in vsl["calls"])
        L = None
        inner = [x for x in loops if bi in x["own_body"]]
        if inner:
            L = min(inner, key=lambda x: len(x["own_body"]))
        items = (set(L["item_locals"]) | {L["item_local"]}) if L else set()
        if r == "single":
            ok = step == FIRST and first_value and L is None
            ctx.ob("R1", "single:step-and-value", ok, "single: f(first_step, values[0]), once" if ok else "single assertion: the callback does not get (first_step, values[0]) exactly once", f, t["sp"]["at"])
            continue
        if L is None:
            ctx.ob("R1", "%s:step-and-value" % r, False, "the %s region does not loop" % r, f, t["sp"]["at"])
            continue
        src = f.slice_of_operand(f.term(L["header"])["a"][0], at=(L["header"], f.INF))
        trunc = _names(f, src) & TRUNCATING
        hdr = (f.term(L["header"]).get("dest") or [None])[0]
        if r == "periodic":
            rng = [d for l in src["locals"] for d in f.defs(l) if d["kind"] == "assign" and d["rv"][0] == "agg" and d["rv"][1].get("adt") == "core::ops::range::Range"]
            bound = (sym(f, rng[0]["rv"][2][0]), sym(f, rng[0]["rv"][2][1])) if rng else None
            ok = bool(rng) and bound == (("k", 0), ("bin", "Div", ("arg", 2), STRIDE)) and not trunc and _is_step(f, step, items, hdr) and first_value
            ctx.ob("R1", "periodic:step-and-value", ok, "periodic: f(first_step + stride * i, values[0]) for i in 0..trace_length / stride" if ok else
                   "periodic assertion: the callback does not get (first_step + stride * i, values[0]) for i in 0..trace_length / stride (range %s, step %s)" % (bound, step), f, t["sp"]["at"])
        else:
            over_values = "values" in slice_field_bases(src) and {"iter", "enumerate"} <= _names(f, src) and not trunc
            item_value = bool(vsl["locals"] & items)
            ok = over_values and _is_step(f, step, items, hdr) and item_value
            ctx.ob("R1", "sequence:step-and-value", ok, "sequence: f(first_step + stride * i, value) for (i, value) over all of values" if ok else
                   "sequence assertion: the callback does not get (first_step + stride * i, values[i]) for every element of values", f, t["sp"]["at"])


def r2_num_steps(ctx):
    p = ctx.p
    f = p.fn(A + "get_num_steps")
    g = p.fn(A + "apply")
    region = _regions(f)
    got = {}
    for e in f.exits():
        bb = e["bb"]
        r = region(bb)
        if r is None:
            continue
        st = f.blocks[bb]["s"][e["si"]] if e.get("si") is not None else None
        if st is not None and st["rv"][0] in ("bin", "cbin"):
            a, b = sym(f, st["rv"][2]), sym(f, st["rv"][3])
            got[r] = ("bin", str(st["rv"][1]).replace("WithOverflow", ""), a, b)
        elif st is not None and st["rv"][0] == "use":
            got[r] = sym(f, st["rv"][1])
        elif e["kind"].startswith("call:"):
            t = f.term(bb)
            got[r] = ("call", _name(t), tuple(sym(f, a) for a in t["a"]))
    ok = got.get("single") == ("k", 1)
    ctx.ob("R2", "single:one-step", ok, "single: 1 step" if ok else "single assertion: get_num_steps returns %s" % (got.get("single"),), f)
    # periodic: the bound of apply's periodic loop
    want = None
    gr = _regions(g)
    for L in for_loops(g):
        if gr(L["header"]) != "periodic":
            continue
        src = g.slice_of_operand(g.term(L["header"])["a"][0], at=(L["header"], g.INF))
        for l in src["locals"]:
            for d in g.defs(l):
                if d["kind"] == "assign" and d["rv"][0] == "agg" and d["rv"][1].get("adt") == "core::ops::range::Range" and sym(g, d["rv"][2][0]) == ("k", 0):
                    want = sym(g, d["rv"][2][1])
    if want is None:
        rs, bound = _periodic_range(g, gr)
        if bound and bound[0] == ("k", 0):
            want = bound[1]
    ok = want is not None and got.get("periodic") == want
    ctx.ob("R2", "periodic:count-is-apply's-loop-bound", ok, "periodic: get_num_steps = trace_length / stride = the bound of apply's loop" if ok else
           "periodic assertion: get_num_steps returns %s but apply loops over 0..%s" % (got.get("periodic"), want), f)
    ok = got.get("sequence") in (("len", ("field", ("arg", 1), 3)), ("call", "len", (("field", ("arg", 1), 3),)))
    ctx.ob("R2", "sequence:count-is-values-len", ok, "sequence: get_num_steps = values.len(), the vector apply's loop runs over" if ok else
           "sequence assertion: get_num_steps returns %s, not values.len()" % (got.get("sequence"),), f)


def r3_validated_first(ctx):
    p = ctx.p
    for nm in ("apply", "get_num_steps"):
        f = p.fn(A + nm)
        v = _calls(f, "validate_trace_length")
        ok, how = False, "%s does not validate the trace length first" % nm
        if len(v) == 1:
            bi, t = v[0]
            args_ok = sym(f, t["a"][0]) == ("arg", 1) and sym(f, t["a"][1]) == ("arg", 2)
            # the error diverges: unwrap / expect / unwrap_or_else(closure that never returns)
            cons = [b for b, t2 in f.calls() if _name(t2) in ("unwrap", "expect", "unwrap_or_else") and not f.is_cleanup(b) and
                    t["dest"][0] in f.slice_of_operand(t2["a"][0], at=(b, f.INF))["locals"]]
            div = False
            for b in cons:
                t2 = f.term(b)
                if _name(t2) in ("unwrap", "expect"):
                    div = True
                else:
                    for ck in arg_slice(f, t2, 1)["closures"]:
                        cf = p.funcs.get(ck)
                        if cf is not None and not cf.return_blocks() or (cf is not None and all(not cf.can_reach(0, [r]) for r in cf.return_blocks())):
                            div = True
            s = _calls(f, "is_single")
            first = bool(s) and bool(cons) and f.must_cross([s[0][0]], cut_blocks=[cons[0]]) and f.must_cross([cons[0]], cut_blocks=[bi])
            if args_ok and div and first:
                ok, how = True, "%s: validate_trace_length(trace_length) with a diverging error consumer dominates the region tests" % nm
        ctx.ob("R3", "%s:trace-length-validated-first" % nm, ok, how, f)


def run(ctx):
    ctx.rule("R1", "Assertion::apply: (first_step, values[0]); (first_step + stride * i, values[0]) for i in 0..trace_length / stride; (first_step + stride * i, values[i]) over all values", 3)
    ctx.rule("R2", "Assertion::get_num_steps = 1 / the bound of apply's periodic loop / values.len() in the same regions", 3)
    ctx.rule("R3", "apply and get_num_steps validate the trace length first, diverging on an error", 2)
    for rid, fn in (("R1", r1_apply), ("R2", r2_num_steps), ("R3", r3_validated_first)):
        ctx.guard(rid, fn)
    ctx.assume("is_single() is stride == NO_STRIDE and is_periodic() is stride != NO_STRIDE && values.len() == 1 (read, not decided)")
    ctx.assume("exactness of validate_trace_length and overlaps_with is arithmetic case analysis over run-time integers and not decided")
