"""C08 — FRI completeness, dispatch/limit clause: every supported parameter value is wired to the
matching generic instantiation on both the prover and the verifier side."""
from .. import ir, dispatch, intervals
from ..ir import AnchorLost, callee_of, op_local, op_const
from ..patterns import calls_to, arg_slice, slice_field_bases, slice_const_ints
from .c03 import for_loops, FRIV, FRI_CH

FRIP = "winter_fri::prover::FriProver::<E, C, H, V>::"
FOLD = "winter_fri::folding::fold_positions"
MAP = "winter_fri::utils::map_positions_to_indexes"
NUM_LAYERS = "winter_fri::options::FriOptions::num_fri_layers"
SUPPORTED = {2, 4, 8, 16}


def names_in(f, sl):
    return {(callee_of(f.term(b)) or {}).get("name") for b in sl["calls"]}


def folding_table(ctx, f, callee_def, label):
    tabs = [t for t in dispatch.tables(f) if callee_def in t["callees"]]
    if not tabs:
        ctx.ob("R1", "%s-dispatch-table" % label, False, "no dispatch on the folding factor into %s::<N>" % callee_def.split("::")[-1], f)
        return None
    t = tabs[0]
    m = t["callees"][callee_def]
    ok = all(args[-1] == str(v) for v, args in m.items()) and set(m) == SUPPORTED
    sel = names_in(f, f.slice_of_operand(t["sel"], at=(t["bb"], f.INF)))
    sel_ok = "folding_factor" in sel or "folding_factor" in slice_field_bases(f.slice_of_operand(t["sel"], at=(t["bb"], f.INF)))
    ctx.ob("R1", "%s-dispatch-table" % label, ok and sel_ok,
           "folding factor k -> %s::<k> for k in %s" % (callee_def.split("::")[-1], sorted(m)) if ok and sel_ok else
           "dispatch table on the folding factor is %s (selector from folding_factor: %s)" % ({v: a[-1] for v, a in m.items()}, sel_ok), f, t["at"])
    rej = dispatch.else_is_reject(f, t)
    ctx.ob("R1", "%s-otherwise-rejects" % label, rej,
           "any other folding factor ends in an error / unimplemented!()" if rej else "the otherwise arm can reach a normal exit", f, t["at"])
    return m


def r1_tables(ctx):
    p = ctx.p
    folding_table(ctx, p.fn(FRIP + "build_layers"), FRIP + "build_layer", "prover.build_layers")
    folding_table(ctx, p.fn(FRIP + "build_proof"), "winter_fri::prover::query_layer", "prover.build_proof")
    folding_table(ctx, p.fn(FRIV + "verify"), FRIV + "verify_generic", "verifier.verify")
    g = p.fn(FRIV + "verify_generic")
    for key, nm in ((FRI_CH + "::read_layer_queries", "read_layer_queries"), ("winter_fri::verifier::get_query_values", "get_query_values")):
        cs = calls_to(g, key, 1, nm)
        ok = all(callee_of(t)["args"][-1] == "N" for _, t in cs)
        ctx.ob("R1", "verify_generic::<N>-calls-%s::<N>" % nm, ok,
               "%s is instantiated with the same const generic N" % nm if ok else "%s is instantiated with a different folding factor" % nm, g, cs[0][1]["sp"]["at"])
    # accepted sets of the constructors
    an = intervals.Analysis(p)
    fo = p.fn("winter_fri::options::FriOptions::new")
    eqs = set()
    for gd in an.guards(fo):
        if gd["kind"] == "cmp" and gd["op"] == "Eq":
            for a, b in ((gd["a"], gd["b"]), (gd["b"], gd["a"])):
                c = op_const(b)
                if c and "v" in c and op_local(a) is not None and 2 in fo.copy_chain(op_local(a)):
                    eqs.add(int(c["v"]))
    ctx.ob("R1", "FriOptions::new-accepted-set", eqs == SUPPORTED,
           "FriOptions::new accepts folding factors %s = the dispatch arms" % sorted(eqs) if eqs == SUPPORTED else
           "FriOptions::new accepts %s but the dispatch tables handle %s" % (sorted(eqs), sorted(SUPPORTED)), fo)
    iv = an.field_interval("winter_air::options::ProofOptions", "fri_folding_factor")
    po = p.fn("winter_air::options::ProofOptions::new")
    pw = [bi for bi, t in po.calls() if (callee_of(t) or {}).get("name") == "is_power_of_two" and 5 in arg_slice(po, t, 0)["args"]]
    acc = {v for v in range(iv[0], iv[1] + 1) if v & (v - 1) == 0} if iv and pw else set()
    ctx.ob("R1", "ProofOptions::new-accepted-set", acc == SUPPORTED,
           "ProofOptions::new accepts powers of two in %s = %s" % (list(iv), sorted(acc)) if acc == SUPPORTED else
           "ProofOptions::new accepts folding factors %s" % sorted(acc), po)


def r2_shared(ctx):
    p = ctx.p
    bp = p.fn(FRIP + "build_proof")
    vg = p.fn(FRIV + "verify_generic")
    for f, label in ((bp, "prover"), (vg, "verifier")):
        cs = calls_to(f, FOLD, 1, "fold_positions")
        bi, t = cs[0]
        L = [x for x in for_loops(f) if bi in x["body"]]
        a1 = arg_slice(f, t, 1)
        a2 = arg_slice(f, t, 2)
        dom = [l for l in f.locals_named("domain_size") if l > f.argc]
        ff_ok = "folding_factor" in names_in(f, a2) or "folding_factor" in {f.local_name(x) for x in a2["locals"]}
        ok = bool(L) and bool(set(dom) & a1["locals"]) and ff_ok
        ctx.ob("R2", "%s-folds-with-shared-function" % label, ok,
               "%s calls folding::fold_positions(positions, domain_size, folding_factor) once per layer" % label if ok else
               "%s does not fold positions with fold_positions(positions, domain_size, folding_factor) in its layer loop" % label, f, t["sp"]["at"])
        # domain_size /= folding factor once per iteration
        div = False
        for l in dom:
            for d in f.defs(l):
                if d["kind"] == "assign" and d["rv"][0] == "bin" and d["rv"][1] == "Div" and L and d["bb"] in L[0]["body"]:
                    den = d["rv"][3]
                    c = op_const(den)
                    dn = (c or {}).get("tyconst") == "N" or (op_local(den) is not None and (
                        "folding_factor" in names_in(f, f.slice_of_operand(den, at=(d["bb"], d["si"]))) or
                        "folding_factor" in {f.local_name(x) for x in f.slice_of_operand(den, at=(d["bb"], d["si"]))["locals"]}))
                    from .c03 import every_iteration
                    if dn and every_iteration(f, L[0], d["bb"]):
                        div = True
        ctx.ob("R2", "%s-domain-shrinks-by-folding-factor" % label, div,
               "domain_size /= folding factor on every layer iteration" if div else "domain_size is not divided by the folding factor once per layer", f)
    # one shared num_fri_layers sizes the loops on both sides and the commitment parser
    users = {
        FRIP + "build_layers": "prover layer loop",
        FRIV + "verify_generic": "verifier layer loop",
        "winter_verifier::channel::VerifierChannel::<E, H, V>::new": "commitment / layer-count parsing",
    }
    for key, what in users.items():
        f = p.fn(key)
        cs = f.calls_to(NUM_LAYERS)
        ctx.ob("R2", "num_fri_layers-shared:%s" % key.split("::")[-1], bool(cs),
               "%s is sized by FriOptions::num_fri_layers" % what if cs else "%s no longer uses FriOptions::num_fri_layers" % what, f)
    cs = vg.calls_to(MAP)
    ok = bool(cs) and "num_partitions" in slice_field_bases(arg_slice(vg, cs[0][1], 3))
    ctx.ob("R2", "verifier-maps-partition-indexes", ok, "verifier maps folded positions with map_positions_to_indexes(.., self.num_partitions)", vg)


def r3_remainder_exempt(ctx):
    """completeness of the layer-degree check: the last committed layer may reduce to a remainder
    shorter than the folding factor, so a DegreeTruncation rejection inside the layer loop must be
    unreachable in the iteration where depth == layer_commitments.len() - 1."""
    from ..patterns import cmp_sites
    p = ctx.p
    f = p.fn(FRIV + "new")
    loops = for_loops(f)
    errs = [s["_pos"][0] for b in f.blocks if not b.get("cleanup") for s in b["s"] if s["k"] == "assign" and s["rv"][0] == "agg"
            and s["rv"][1].get("variant") == "DegreeTruncation"]
    in_loop = [(L, e) for L in loops for e in errs if f.can_reach(e, [e]) or any(f.can_reach(x, [e], cut_blocks=[L["header"]]) for x in L["some"] if x in L["body"])]
    if not loops:
        raise AnchorLost("FriVerifier::new: layer loop not found")
    if not in_loop:
        ctx.ob("R3", "degree-check-exempts-remainder-layer", True,
               "FriVerifier::new has no DegreeTruncation rejection inside its layer loop (nothing to exempt)", f)
        return
    for L, e in in_loop:
        ok, how = False, "no comparison of the layer index with layer_commitments.len() - 1 guards the DegreeTruncation rejection"
        for cs in cmp_sites(f):
            if cs["bb"] not in L["body"] or cs["op"] not in ("Ne", "Eq"):
                continue
            sa = f.slice_of_operand(cs["a"], at=(cs["bb"], f.INF))
            sb = f.slice_of_operand(cs["b"], at=(cs["bb"], f.INF))
            for x, y in ((sa, sb), (sb, sa)):
                idx = bool(set(L["item_locals"]) & x["locals"]) or L["item_local"] in x["locals"]
                ynames = {(callee_of(f.term(b)) or {}).get("name") for b in y["calls"]}
                last = "len" in ynames and 1 in (slice_const_ints(y) | slice_const_ints(x))
                if not (idx and last):
                    continue
                for c in f.bool_checks_of_local(cs["local"]):
                    eq_edges = c["false_edges"] if cs["op"] == "Ne" else c["true_edges"]
                    reach_on_last = any(f.can_reach(tg, [e], cut_blocks=[L["header"]]) for _, tg in eq_edges)
                    if not reach_on_last:
                        ok, how = True, "the rejection is unreachable when depth == layer_commitments.len() - 1 (%s at bb%d)" % (cs["op"], cs["bb"])
        ctx.ob("R3", "degree-check-exempts-remainder-layer", ok,
               "FriVerifier::new: " + how, f, f.blocks[e]["s"][0]["sp"]["at"] if f.blocks[e]["s"] else None)


def run(ctx):
    ctx.rule("R1", "folding-factor dispatch tables (prover build_layers/build_proof, verifier verify, verify_generic internals) map k to N = k for k in {2,4,8,16} = the sets accepted by FriOptions::new and ProofOptions::new; otherwise arms reject", 10)
    ctx.rule("R2", "prover and verifier fold positions with the same function and shrink the domain by the folding factor once per layer; num_fri_layers is the one shared loop bound", 8)
    ctx.guard("R1", r1_tables)
    ctx.guard("R2", r2_shared)
    ctx.rule("R3", "a DegreeTruncation rejection inside FriVerifier::new's layer loop is unreachable on the last committed layer (depth == layer_commitments.len() - 1), whose remainder may be shorter than the folding factor", 1)
    ctx.guard("R3", r3_remainder_exempt)
    ctx.assume("the algebra of degree-respecting projection, index mapping and remainder evaluation is value-level and not decided")
