"""C09 — the FRI verifier rejects far-from-low-degree data and inconsistent openings
(structural clause: every rejection check lies on every accepting path, wired to the right data)."""
from .. import ir
from ..ir import AnchorLost, callee_of, op_place, op_local, op_const
from ..patterns import (HASH_ELEMENTS, RESEED, DRAW, calls_to, arg_slice, slice_field_bases,
                        check_result_guard, check_bool_guard, cmp_sites, cmp_reject_relation,
                        rel_matches, closure_calls, call_before)
from . import c03
from .c03 import for_loops, loop_result_guard, loop_bool_guard, every_iteration, FRIV, FRI_CH

GET_QUERY_VALUES = "winter_fri::verifier::get_query_values"
INTERPOLATE_BATCH = "winter_math::polynom::interpolate_batch"
POLY_EVAL = "winter_math::polynom::eval"
EVAL_HORNER_REV = "winter_fri::verifier::eval_horner_rev"
IS_MULTIPLE_OF = "core::num::<impl usize>::is_multiple_of"


def _named(f, name, non_arg=True):
    ls = [l for l in f.locals_named(name) if not non_arg or l > f.argc]
    if not ls:
        raise AnchorLost("%s: local `%s` not found" % (f.key, name))
    return ls


def r1_len_mismatch(ctx):
    f = ctx.p.fn(FRIV + "verify")
    done = False
    for s in cmp_sites(f):
        sa, sb = f.slice_of_operand(s["a"]), f.slice_of_operand(s["b"])
        args = (sa["args"], sb["args"])
        if ({3} <= args[0] and {4} <= args[1]) or ({4} <= args[0] and {3} <= args[1]):
            ok, how, rel = cmp_reject_relation(f, s)
            ctx.ob("R1", "len-mismatch-rejected", ok and rel == "Ne",
                   "evaluations.len() vs positions.len(): " + how if ok else how, f, s["at"])
            done = True
    if not done:
        ctx.ob("R1", "len-mismatch-rejected", False, "no comparison between evaluations.len() and positions.len()", f)


def r2_dispatch(ctx):
    f = ctx.p.fn(FRIV + "verify")
    sw = [(bi, b["t"]) for bi, b in enumerate(f.blocks) if b["t"]["k"] == "switch" and len(b["t"]["arms"]) >= 2]
    found = False
    for bi, t in sw:
        sl = f.slice_of_operand(t["d"])
        names = {(callee_of(f.term(b)) or {}).get("name") for b in sl["calls"]}
        if "folding_factor" not in names:
            continue
        found = True
        arms = {}
        for v, tgt in t["arms"]:
            # the arm must tail into verify_generic::<v>
            calls = [(b, f.term(b)) for b in f.reach([tgt]) if f.term(b)["k"] == "call"
                     and ir.is_call_to(f.term(b), FRIV + "verify_generic")]
            ns = {callee_of(c)["args"][-1] for _, c in calls}
            arms[int(v)] = ns
        good = all(ns == {str(v)} for v, ns in arms.items())
        ctx.ob("R2", "dispatch-N-equals-selector", good and set(arms) == {2, 4, 8, 16},
               "folding factor k dispatches to verify_generic::<k> for k in %s" % sorted(arms) if good else
               "dispatch table maps %s" % arms, f, t["sp"]["at"])
        other = t["else"]
        rej = not f.can_reach(other, [e["bb"] for e in f.exits() if e["kind"] != "err"])
        ctx.ob("R2", "unsupported-factor-rejected", rej,
               "the otherwise arm returns Err(UnsupportedFoldingFactor)" if rej else
               "the otherwise arm of the folding-factor dispatch can reach a non-error exit", f, t["sp"]["at"])
    if not found:
        raise AnchorLost("verify: dispatch on options.folding_factor() not found")


def r4_layer_folding(ctx):
    g = ctx.p.fn(FRIV + "verify_generic")
    loops = for_loops(g)
    rl = calls_to(g, FRI_CH + "::read_layer_queries", 1, "read_layer_queries")[0]
    L = [x for x in loops if rl[0] in x["body"]]
    if not L:
        raise AnchorLost("verify_generic: read_layer_queries is not inside a for loop")
    L = L[0]
    layer_vals = g.forward_locals([rl[1]["dest"][0]], through_calls=ir.CARRIERS)
    gq = calls_to(g, GET_QUERY_VALUES, 1, "get_query_values")[0]
    q_from_layer = bool(arg_slice(g, gq[1], 0)["locals"] & layer_vals)
    ctx.ob("R4", "query-values-from-checked-layer-values", q_from_layer,
           "get_query_values reads the layer values returned (commitment-checked) by read_layer_queries", g, gq[1]["sp"]["at"])
    evals = set(_named(g, "evaluations"))
    qv = g.forward_locals([gq[1]["dest"][0]], through_calls=())
    hit = None
    for bi, t in g.calls():
        c = callee_of(t)
        if c and c.get("name") in ("ne", "eq") and bi in L["body"] and len(t["a"]) == 2:
            s0, s1 = arg_slice(g, t, 0), arg_slice(g, t, 1)
            if (s0["locals"] & evals and s1["locals"] & qv) or (s1["locals"] & evals and s0["locals"] & qv):
                hit = (bi, t, c["name"])
    if not hit:
        ctx.ob("R4", "folding-consistency-check", False,
               "no comparison between `evaluations` and get_query_values(..) inside the layer loop", g)
    else:
        ok, how, rej_truth = loop_bool_guard(g, L, hit[0])
        good = ok and ((hit[2] == "ne") == bool(rej_truth))
        ctx.ob("R4", "folding-consistency-check", good,
               "evaluations != get_query_values(layer_values, ..) -> Err: " + how if good else
               "comparison present but %s" % how, g, hit[1]["sp"]["at"])
    # next-layer evaluations derive from interpolate_batch(xs, layer_values) evaluated at alpha[depth]
    ib = calls_to(g, INTERPOLATE_BATCH, 1, "interpolate_batch")[0]
    ys_ok = bool(arg_slice(g, ib[1], 1)["locals"] & layer_vals)
    row_polys = g.forward_locals([ib[1]["dest"][0]], through_calls=())
    upd = None
    for l in evals:
        for d in g.defs(l):
            if d["bb"] in L["body"] and d["kind"] == "assign":
                sl = g.backward_slice([op_local(s) for s in d["srcs"] if op_local(s) is not None])
                if ib[0] in sl["calls"]:
                    upd = (d, sl)
    if not upd:
        ctx.ob("R4", "next-evaluations-from-interpolation", False,
               "`evaluations` is not reassigned in the loop from interpolate_batch(xs, layer_values)", g)
    else:
        d, sl = upd
        ev = closure_calls(ctx.p, sl["closures"], (POLY_EVAL,))
        alpha_ok = "layer_alphas" in slice_field_bases(sl) and bool(L["item_locals"] & sl["locals"])
        ctx.ob("R4", "next-evaluations-from-interpolation", ys_ok and bool(ev) and alpha_ok and every_iteration(g, L, d["bb"]),
               "evaluations := row_polys.map(|p| polynom::eval(p, layer_alphas[depth])) with row_polys = interpolate_batch(xs, checked layer_values), on every iteration"
               if ys_ok and ev and alpha_ok else "next-layer evaluations are not eval(interpolate_batch(xs, layer_values), layer_alphas[depth])",
               g, d["at"])


def r5_truncation(ctx):
    g = ctx.p.fn(FRIV + "verify_generic")
    loops = for_loops(g)
    mdp = set(_named(g, "max_degree_plus_1"))
    done = False
    for bi, t in g.calls_to(IS_MULTIPLE_OF):
        L = [x for x in loops if bi in x["body"]]
        if not L:
            continue
        if not (arg_slice(g, t, 0)["locals"] & mdp):
            continue
        c1 = op_const(t["a"][1])
        if c1 is None and op_local(t["a"][1]) is not None:
            # the constant handed to a spliced helper's parameter
            for x in g.copy_chain(op_local(t["a"][1])):
                for d in g.defs(x):
                    if d["kind"] == "assign" and d["rv"][0] == "use" and op_const(d["rv"][1]) is not None:
                        c1 = op_const(d["rv"][1])
        is_n = bool(c1 and c1.get("tyconst") == "N")
        ok, how, rej_truth = loop_bool_guard(g, L[0], bi)
        ctx.ob("R5", "degree-truncation-check-in-loop", ok and rej_truth is False and is_n,
               "!max_degree_plus_1.is_multiple_of(N) -> Err(DegreeTruncation): " + how if ok else how, g, t["sp"]["at"])
        done = True
    if not done:
        ctx.ob("R5", "degree-truncation-check-in-loop", False, "no is_multiple_of(max_degree_plus_1, N) check in the layer loop", g)
    n = ctx.p.fn(FRIV + "new")
    nloops = for_loops(n)
    nm = set(_named(n, "max_degree_plus_1"))
    got = False
    for bi, t in n.calls_to(IS_MULTIPLE_OF):
        L = [x for x in nloops if bi in x["body"]]
        if L and (arg_slice(n, t, 0)["locals"] & nm):
            chk = n.bool_checks_of(bi)
            oks = n.ok_exit_blocks()
            rej = any(not any(n.can_reach(tt, oks) for (_, tt) in c["false_edges"]) for c in chk)
            ctx.ob("R5", "degree-truncation-check-in-new", rej,
                   "FriVerifier::new: a failed is_multiple_of(folding_factor) test leads only to Err(DegreeTruncation)" if rej else
                   "FriVerifier::new: is_multiple_of test has no rejecting edge", n, t["sp"]["at"])
            got = True
    if not got:
        ctx.ob("R5", "degree-truncation-check-in-new", False, "no truncation check in FriVerifier::new", n)


def r6_remainder_degree(ctx):
    g = ctx.p.fn(FRIV + "verify_generic")
    loops = for_loops(g)
    rr = calls_to(g, FRI_CH + "::read_remainder", 1, "read_remainder")[0]
    rem = g.forward_locals([rr[1]["dest"][0]], through_calls=ir.CARRIERS)
    mdp = set(_named(g, "max_degree_plus_1"))
    done = False
    def is_len_of_rem(op):
        l = op_local(op)
        if l is None:
            return False
        for x in g.copy_chain(l):
            for d in g.defs(x):
                if d["kind"] == "call" and (callee_of(d["term"]) or {}).get("name") == "len":
                    if g.operand_is_copy_of(d["term"]["a"][0], rem):
                        return True
        return False
    for s in cmp_sites(g):
        a_len, b_len = is_len_of_rem(s["a"]), is_len_of_rem(s["b"])
        a_m, b_m = g.operand_is_copy_of(s["a"], mdp), g.operand_is_copy_of(s["b"], mdp)
        if a_len or b_len:
            ok, how, rel = cmp_reject_relation(g, s)
            good = ok and ((a_len and b_m and rel == "Gt") or (b_len and a_m and rel == "Lt"))
            ctx.ob("R6", "remainder-degree-bound", good,
                   "remainder.len() > max_degree_plus_1 -> Err: " + how if good else
                   "remainder length is compared, but not as `len > max_degree_plus_1 => reject` against the plain bound: %s" % how, g, s["at"])
            done = True
    if not done:
        ctx.ob("R6", "remainder-degree-bound", False, "no comparison of remainder.len() with max_degree_plus_1", g)
    # max_degree_plus_1 starts at max_poly_degree + 1 and is divided by N once per iteration
    init_ok, div_ok = False, False
    L = [x for x in loops if calls_to(g, FRI_CH + "::read_layer_queries")[0][0] in x["body"]][0]
    for l in mdp:
        for d in g.defs(l):
            if d["kind"] != "assign":
                continue
            rv = d["rv"]
            sl = g.backward_slice([op_local(x) for x in d["srcs"] if op_local(x) is not None])
            if d["bb"] not in L["body"] and "max_poly_degree" in slice_field_bases(sl):
                init_ok = True
            if rv[0] == "bin" and rv[1] == "Div" and d["bb"] in L["body"]:
                c = op_const(rv[3])
                if op_local(rv[2]) in mdp and c and c.get("tyconst") == "N" and every_iteration(g, L, d["bb"]):
                    div_ok = True
    ctx.ob("R6", "bound-tracks-folding", init_ok and div_ok,
           "max_degree_plus_1 = self.max_poly_degree + 1, then /= N on every layer iteration" if init_ok and div_ok else
           "max_degree_plus_1 is not initialised from max_poly_degree or not divided by N on every iteration", g)


def r7_remainder_eval(ctx):
    g = ctx.p.fn(FRIV + "verify_generic")
    loops = for_loops(g)
    rr = calls_to(g, FRI_CH + "::read_remainder", 1)[0]
    rem = g.forward_locals([rr[1]["dest"][0]], through_calls=ir.CARRIERS)
    eh = calls_to(g, EVAL_HORNER_REV, 1, "eval_horner_rev")[0]
    L = [x for x in loops if eh[0] in x["body"]]
    if not L:
        ctx.ob("R7", "remainder-evaluated-per-query", False, "eval_horner_rev is not called inside a loop over the queries", g)
        return
    L = L[0]
    a0 = arg_slice(g, eh[1], 0)
    a1 = arg_slice(g, eh[1], 1)
    poly_ok = bool(a0["locals"] & rem)
    x_ok = bool(L["item_locals"] & a1["locals"]) and bool(set(_named(g, "domain_generator")) & a1["locals"])
    ctx.ob("R7", "remainder-evaluated-per-query", poly_ok and x_ok,
           "eval_horner_rev(remainder_poly, offset * domain_generator^position) with position from the loop item"
           if poly_ok and x_ok else "eval_horner_rev is not applied to the revealed remainder at the query's x coordinate", g, eh[1]["sp"]["at"])
    # loop iterates over (positions, evaluations)
    src = g.backward_slice([L["iter_local"]])
    it_ok = bool(set(_named(g, "positions")) & src["locals"]) and bool(set(_named(g, "evaluations")) & src["locals"])
    ctx.ob("R7", "loop-over-all-queries", it_ok,
           "the loop iterates positions.iter().zip(evaluations) (the folded positions and last-layer evaluations)"
           if it_ok else "the remainder loop does not iterate over (positions, evaluations)", g)
    ce = g.forward_locals([eh[1]["dest"][0]], through_calls=())
    hit = None
    for bi, t in g.calls():
        c = callee_of(t)
        if c and c.get("name") in ("ne", "eq") and bi in L["body"] and len(t["a"]) == 2:
            s0, s1 = arg_slice(g, t, 0), arg_slice(g, t, 1)
            if (s0["locals"] & ce and s1["locals"] & L["item_locals"]) or (s1["locals"] & ce and s0["locals"] & L["item_locals"]):
                hit = (bi, t, c["name"])
    if not hit:
        ctx.ob("R7", "remainder-consistency-check", False, "no comparison of eval_horner_rev(..) with the loop's evaluation", g)
    else:
        ok, how, rej_truth = loop_bool_guard(g, L, hit[0])
        good = ok and ((hit[2] == "ne") == bool(rej_truth))
        ctx.ob("R7", "remainder-consistency-check", good,
               "comp_eval != evaluation -> Err(InvalidRemainderFolding): " + how if good else how, g, hit[1]["sp"]["at"])
    # the loop is on every accepting path after the remainder read
    oks = g.ok_exit_blocks()
    ctx.ob("R7", "loop-on-accepting-path", g.must_cross(oks, cut_blocks=[L["header"]]),
           "every accepting exit of verify_generic is reached only through the remainder loop", g)


def run(ctx):
    ctx.rule("R1", "FriVerifier::verify rejects when evaluations.len() != positions.len()", 1)
    ctx.rule("R2", "folding-factor dispatch: arm k calls verify_generic::<k>, k in {2,4,8,16}; otherwise arm returns Err", 2)
    ctx.rule("R3", "per-layer read_layer_queries(..)? result is propagated on every iteration, commitment = layer_commitments[depth]", 2)
    ctx.rule("R4", "per-layer folding consistency: evaluations != get_query_values(checked layer values) -> Err on every iteration; next evaluations = eval(interpolate_batch(xs, layer_values), layer_alphas[depth])", 3)
    ctx.rule("R5", "degree-truncation checks present in FriVerifier::new and in the layer loop", 2)
    ctx.rule("R6", "remainder.len() > max_degree_plus_1 -> Err, with max_degree_plus_1 = (max_poly_degree+1)/N^layers", 2)
    ctx.rule("R7", "for every (position, evaluation): eval_horner_rev(remainder, x(position)) != evaluation -> Err; loop on every accepting path", 4)
    ctx.rule("R8", "the revealed remainder is hashed and compared with the committed digest (last layer commitment)", 1)
    ctx.rule("R9", "each layer alpha is drawn after the coin was reseeded with that layer's commitment", 1)
    ctx.guard("R1", r1_len_mismatch)
    ctx.guard("R2", r2_dispatch)

    def r3(c):
        g = c.p.fn(FRIV + "verify_generic")
        for bi, t in calls_to(g, FRI_CH + "::read_layer_queries", 1):
            L = [x for x in for_loops(g) if bi in x["body"]]
            ok, how = loop_result_guard(g, L[0], bi) if L else (False, "read_layer_queries is not in the layer loop")
            c.ob("R3", "layer-queries-result-propagated", ok, how, g, t["sp"]["at"])
            csl = arg_slice(g, t, 2)
            good = "layer_commitments" in slice_field_bases(csl) and bool(L and (L[0]["item_locals"] & csl["locals"]))
            c.ob("R3", "commitment-is-layer_commitments[depth]", good,
                 "commitment argument = self.layer_commitments[depth]", g, t["sp"]["at"])
    ctx.guard("R3", r3)
    ctx.guard("R4", r4_layer_folding)
    ctx.guard("R5", r5_truncation)
    ctx.guard("R6", r6_remainder_degree)
    ctx.guard("R7", r7_remainder_eval)

    def r8(c):
        sub = type(c)(c.prop, c.tier, c.repo)
        sub._progs = c._progs
        c03.r4_remainder(sub)
        for o in sub.obligations:
            c.ob("R8", o["instance"], o["verdict"] == "discharged", o["how"], o["function"], o["site"])
    ctx.guard("R8", r8)

    def r9(c):
        sub = type(c)(c.prop, c.tier, c.repo)
        sub._progs = c._progs
        c03.r3_fri_layers(sub)
        for o in sub.obligations:
            if o["instance"] == "every-commitment-absorbed-before-alpha":
                c.ob("R9", o["instance"], o["verdict"] == "discharged", o["how"], o["function"], o["site"])
    ctx.guard("R9", r9)
    ctx.assume("probability of catching a far-from-low-degree vector is cryptographic/statistical and not decided")
    ctx.assume("get_query_values / interpolate_batch / eval compute what their names say (value-level, C08/C13)")
