"""C17 — hash padding separates inputs of different length (structural clauses).

Decided (necessary conditions visible in the code's shape): the Rescue sponges absorb the input
length before the first permutation (R1) and mark the end of the last byte chunk (R2); merge-with-
integer branches on `value < MODULUS`, absorbs the quotient in the large branch and uses different
domain constants in the two branches (R3); the byte hashers hand the whole input to the hash
function and build merge inputs from fixed-width parts (R4); merge_many is the element / byte hash
of the concatenated digests (R5).  Not decided: that the permutation / external hash functions are
collision-free, i.e. that different sponge inputs give different digests."""
from .. import ir, intervals
from ..ir import AnchorLost, callee_of, op_local, op_const, op_place
from ..patterns import cmp_sites

HASHER = "winter_crypto::hash::Hasher"
EHASHER = "winter_crypto::hash::ElementHasher"
RESCUE = ["winter_crypto::hash::rescue::rp62_248::Rp62_248", "winter_crypto::hash::rescue::rp64_256::Rp64_256",
          "winter_crypto::hash::rescue::rp64_256_jive::RpJive64_256"]
BYTE = ["winter_crypto::hash::blake::Blake3_256<B>", "winter_crypto::hash::blake::Blake3_192<B>", "winter_crypto::hash::sha::Sha3_256<B>"]


def method(p, trait, ty, name, inline=False):
    for i in p.impls_of_trait(trait):
        if i.get("self_ty") == ty:
            for it in i["items"]:
                if it["name"] == name and it["key"] in p.funcs:
                    return p.fn(it["key"], inline=inline)
    raise AnchorLost("%s::%s for %s not found" % (trait.split("::")[-1], name, ty))


def state_stores(f, name="state"):
    """assignments `state[idx] = v`: [(bb, stmt)]."""
    locs = {l for l in f.locals_named(name) if not f.local_ty(l).strip().startswith("&")} or set(f.locals_named(name))
    # `&mut state` handed to a spliced private helper: the helper's parameter is an alias of the state
    alias = set()
    if getattr(f, "inlined", None):
        for l in range(len(f.locals)):
            if l in locs or not f.local_ty(l).strip().startswith("&mut ["):
                continue
            ds = [d for d in f.defs(l) if d.get("p") and len(d["p"]) == 1 and d["kind"] in ("assign", "call")]
            seen, cur = set(), l
            while len(ds) == 1 and cur not in seen:
                seen.add(cur)
                if ds[0]["kind"] == "call":
                    # `&mut state[RANGE]`, `state.as_mut_slice()`: a window of the same storage
                    tt = ds[0]["term"]
                    if (callee_of(tt) or {}).get("name") not in ("index_mut", "deref_mut", "as_mut_slice", "as_mut") or not tt["a"] or op_local(tt["a"][0]) is None:
                        break
                    pl = [op_local(tt["a"][0])]
                else:
                    rv = ds[0]["rv"]
                    pl = op_place(rv[1]) if rv[0] == "use" else (rv[2] if rv[0] == "ref" else None)
                if not pl or any(e != "*" for e in pl[1:]):
                    break
                cur = pl[0]
                if cur in locs:
                    alias.add(l)
                    break
                ds = [d for d in f.defs(cur) if d.get("p") and len(d["p"]) == 1 and d["kind"] in ("assign", "call")]
    out = []
    for bi, b in enumerate(f.blocks):
        if b.get("cleanup"):
            continue
        for s in b["s"]:
            if s["k"] != "assign" or not isinstance(s["p"][-1], str) or not s["p"][-1].startswith("["):
                continue
            if (s["p"][0] in locs and len(s["p"]) == 2) or (s["p"][0] in alias and len(s["p"]) == 3 and s["p"][1] == "*"):
                out.append((bi, s))
    return out


def perm_blocks(f):
    return [bi for bi, t in f.calls() if (callee_of(t) or {}).get("name") == "apply_permutation" and not f.is_cleanup(bi)]


def names_in(f, sl):
    return {(callee_of(f.term(b)) or {}).get("name") for b in sl["calls"]}


def eval_index(p, an, f, op, pos, depth=0):
    """constant value of an index operand: literals, arithmetic with literals, and the start / end of
    a `const X: Range<usize>` (decoded from the evaluated constant's bytes)."""
    c = op_const(op)
    if c is not None:
        return int(c["v"]) if "v" in c and str(c["v"]).lstrip("-").isdigit() else None
    l = op_local(op)
    if l is None or depth > 10:
        return None
    pl = op_place(op)
    if pl and len(pl) == 2 and isinstance(pl[1], str) and pl[1].startswith("."):
        fld = pl[1].split(":")[0].lstrip(".")
        if fld in ("0",) and f.local_ty(pl[0]).startswith("("):
            return eval_index(p, an, f, ["cp", [pl[0]]], pos, depth + 1)
        for d in f.defs(pl[0]):
            if d["kind"] == "assign" and d["rv"][0] == "use":
                k = op_const(d["rv"][1])
                if k is not None and k.get("uneval_def") in p.consts and "Range<usize>" in k.get("ty", ""):
                    val = p.consts[k["uneval_def"]].get("value") or {}
                    bs = bytes.fromhex(val.get("bytes", ""))
                    if len(bs) == 16:
                        name = ir.place_fields(pl)[0] if ir.place_fields(pl) else fld
                        return int.from_bytes(bs[:8], "little") if name == "start" else int.from_bytes(bs[8:], "little") if name == "end" else None
        return None
    ds = f.defs(l)
    if len(ds) == 1 and ds[0]["kind"] == "assign":
        rv = ds[0]["rv"]
        if rv[0] == "use":
            return eval_index(p, an, f, rv[1], pos, depth + 1)
        if rv[0] == "cast":
            return eval_index(p, an, f, rv[2], pos, depth + 1)
        if rv[0] == "bin" and rv[1].startswith(("Add", "Sub")):
            a = eval_index(p, an, f, rv[2], pos, depth + 1)
            b = eval_index(p, an, f, rv[3], pos, depth + 1)
            if a is not None and b is not None:
                return a + b if rv[1].startswith("Add") else a - b
    iv = an.eval_local(f, l, pos)
    return iv[0] if iv is not None and iv[0] == iv[1] else None


ITER_ADAPTERS = {"iter", "into_iter", "iter_mut", "enumerate", "zip", "chunks", "chunks_exact", "rev", "by_ref", "deref", "as_slice",
                 "as_ref", "borrow", "copied", "cloned", "peekable"}


def _iterated_roots(f, L):
    """locals denoting the collection a for-loop runs over (through iterator adapters and references, not through
    conversions such as slice_as_base_elements)."""
    t = f.term(L["header"])
    seen, todo = set(), [op_local(t["a"][0])]
    while todo:
        x = todo.pop()
        if x is None or x in seen:
            continue
        seen.add(x)
        for d in f.defs(x):
            if d["kind"] == "assign" and d.get("p") and len(d["p"]) == 1:
                rv = d["rv"]
                pl = op_place(rv[1]) if rv[0] == "use" else (rv[2] if rv[0] in ("ref", "rawptr") else (op_place(rv[2]) if rv[0] == "cast" else None))
                if pl:
                    todo.append(pl[0])
            elif d["kind"] == "call" and (callee_of(d["term"]) or {}).get("name") in ITER_ADAPTERS:
                for a in d["term"]["a"][:2]:
                    todo.append(op_local(a))
    return seen


def _len_is_of_absorbed_input(f, sl):
    """the len() in this slice is taken of the very collection the absorption loop runs over (an element count of
    the un-converted input, e.g. extension elements instead of base elements, is a different length)."""
    from .c03 import for_loops
    from ..panics import _container_roots
    perms = set(perm_blocks(f))
    loops = [L for L in for_loops(f) if any(b in L["own_body"] for b in perms) or any(bi in L["own_body"] for bi, _ in state_stores(f))]
    if not loops:
        return True, ""
    lens = []
    for b in sl["calls"]:
        t = f.term(b)
        if (callee_of(t) or {}).get("name") == "len" and t["a"] and op_local(t["a"][0]) is not None:
            lens.append(_container_roots(f, op_local(t["a"][0])))
    for l in sl["locals"]:
        for d in f.defs(l):
            if d["kind"] == "assign" and d["rv"][0] == "un" and d["rv"][1] == "PtrMetadata" and op_local(d["rv"][2]) is not None:
                lens.append(_container_roots(f, op_local(d["rv"][2])))
    if not lens:
        return True, ""
    it = set()
    for L in loops:
        it |= _iterated_roots(f, L)
    if any(r & it for r in lens):
        return True, ""
    return False, "the length that reaches the sponge is not the length of the collection the absorption loop runs over"


def r1_length_absorbed(ctx):
    p = ctx.p
    for ty in RESCUE:
        for trait, nm in ((HASHER, "hash"), (EHASHER, "hash_elements")):
            f = method(p, trait, ty, nm, inline=True)   # padding helpers are spliced
            perms = perm_blocks(f)
            if not perms:
                raise AnchorLost("%s: no apply_permutation call" % f.key)
            ok, how = False, "no store into the sponge state of a value derived from the input's length precedes the first permutation"
            first_perm_free = set(f.reach([0], cut_blocks=perms))
            for bi, s in state_stores(f):
                if bi not in first_perm_free:
                    continue
                vs = ir.rv_operands(s["rv"])
                sl = None
                for o in vs:
                    if op_local(o) is not None:
                        sl = f.slice_of_operand(o, at=s["_pos"])
                if sl and "len" in names_in(f, sl) and 1 in sl["args"] and f.must_cross(perms, cut_blocks=[bi]):
                    same, why = _len_is_of_absorbed_input(f, sl)
                    if not same:
                        how = why
                        continue
                    ok, how = True, "the state is initialised with a value derived from the input's len() before any permutation (%s)" % ir.line_of(s["sp"]["at"])
                    continue
                # control dependence: a domain flag stored only when a test on the length says so,
                # together with an end marker stored at the running position before the last permutation
                for sb, b in enumerate(f.blocks):
                    t = b["t"]
                    if t["k"] != "switch" or b.get("cleanup") or op_local(t["d"]) is None or sb not in first_perm_free:
                        continue
                    dsl = f.slice_of_operand(t["d"], at=(sb, f.INF))
                    if "len" not in names_in(f, dsl) or 1 not in dsl["args"]:
                        continue
                    outs = [tg for tg, _ in f.succ(sb)]
                    reach = [bi in f.reach([tg], cut_blocks=perms) for tg in outs]
                    if any(reach) and not all(reach):
                        marker = _end_marker(f)
                        same, why = _len_is_of_absorbed_input(f, dsl)
                        if marker and not same:
                            how = why
                        elif marker:
                            ok, how = True, "a domain flag is stored depending on a test of the input's len() (%s) and a ONE marker is stored at the running position before the final permutation (%s)" % (
                                ir.line_of(s["sp"]["at"]), marker)
            ctx.ob("R1", "length-absorbed:%s::%s" % (ty.split("::")[-1], nm), ok, how, f)


def _loop_carried(f, l):
    """l is assigned several times, at least once with `l (+) something` (checked or plain addition of itself)."""
    ds = [d for d in f.defs(l) if d["kind"] == "assign" and len(d["p"]) == 1]
    if len(ds) < 2:
        return False
    for d in ds:
        if d["rv"][0] != "use" or op_local(d["rv"][1]) is None:
            continue
        for dd in f.defs(op_local(d["rv"][1])):
            if dd["kind"] == "assign" and dd["rv"][0] in ("bin", "cbin") and str(dd["rv"][1]).startswith("Add") and \
                    any(op_local(o) is not None and l in f.copy_chain(op_local(o)) for o in dd["rv"][2:4]):
                return True
    return False


def _end_marker(f):
    """a store of the constant ONE into state[.. + i] (running position) that precedes a permutation."""
    perms = perm_blocks(f)
    for bi, s in state_stores(f):
        if s["rv"][0] != "use":
            continue
        c = op_const(s["rv"][1])
        if c is None or not str(c.get("uneval_def", "")).endswith("::ONE"):
            continue
        idx = int(s["p"][-1][2:-1]) if s["p"][-1].startswith("[_") else None
        if idx is None:
            continue
        sl = f.backward_slice([idx], at=s["_pos"])
        # the running position: a loop-carried counter (several definitions, one of them an increment of itself)
        running = any(_loop_carried(f, l) for l in sl["locals"])
        if running and any(pb in f.reach([bi]) for pb in perms):
            return ir.line_of(s["sp"]["at"])
    return None


def r2_end_marker(ctx):
    p = ctx.p
    for ty in RESCUE:
        f = method(p, HASHER, ty, "hash")
        bufs = set(f.locals_named("buf"))
        ok, how = False, "the last byte chunk is not terminated by a 1 marker placed right after its data"
        for bi, b in enumerate(f.blocks):
            if b.get("cleanup"):
                continue
            for s in b["s"]:
                if s["k"] == "assign" and s["p"][0] in bufs and len(s["p"]) == 2 and isinstance(s["p"][1], str) and s["p"][1].startswith("[_"):
                    c = op_const(s["rv"][1]) if s["rv"][0] == "use" else None
                    if c is None or str(c.get("v")) != "1":
                        continue
                    idx = int(s["p"][1][2:-1])
                    sl = f.backward_slice([idx], at=s["_pos"])
                    if "len" in names_in(f, sl):
                        ok, how = True, "buf[chunk.len()] = 1 terminates the last chunk (%s)" % ir.line_of(s["sp"]["at"])
        ctx.ob("R2", "end-marker:%s::hash" % ty.split("::")[-1], ok, how, f)
        if ok:
            g_ok, g_how = last_chunk_test(f, bufs)
            ctx.ob("R2", "last-chunk-test-uses-global-index:%s::hash" % ty.split("::")[-1], g_ok, g_how, f)


def last_chunk_test(f, bufs):
    """the branch that selects the padded last chunk must compare a chunk index that runs over the
    whole input: a counter that is set back to a constant inside the chunk loop (the in-block rate
    position) selects the wrong chunk once the input is longer than one block."""
    from .c03 import for_loops
    marker = None
    for bi, b in enumerate(f.blocks):
        for s in b["s"]:
            if s["k"] == "assign" and s["p"][0] in bufs and len(s["p"]) == 2 and s["rv"][0] == "use":
                c = op_const(s["rv"][1])
                if c is not None and str(c.get("v")) == "1":
                    marker = bi
    loops = [L for L in for_loops(f) if marker in L["body"]]
    if marker is None or not loops:
        return False, "marker store or chunk loop not found"
    L = loops[0]
    found = False
    for cs in cmp_sites(f):
        if cs["bb"] not in L["body"]:
            continue
        for c in f.bool_checks_of_local(cs["local"]):
            t_r = any(f.can_reach(t, [marker], cut_blocks=[L["header"]]) for _, t in c["true_edges"])
            f_r = any(f.can_reach(t, [marker], cut_blocks=[L["header"]]) for _, t in c["false_edges"])
            if t_r == f_r:
                continue
            found = True
            for o in (cs["a"], cs["b"]):
                l = op_local(o)
                if l is None:
                    continue
                for x in f.copy_chain(l):
                    for d in f.defs(x):
                        if d["kind"] == "assign" and d["bb"] in L["body"] and d["rv"][0] == "use" and op_const(d["rv"][1]) is not None and f.local_name(x):
                            return False, "the last chunk is selected by comparing `%s`, which is reset to a constant inside the chunk loop (%s): for inputs longer than one block the wrong chunk is padded" % (
                                f.local_name(x), ir.line_of(d["at"]))
    if not found:
        return False, "no comparison selects the branch that writes the end marker"
    return True, "the padded chunk is selected by a chunk index that is never reset inside the loop"


def _moduli(p):
    from .c11 import stark_fields, trait_consts, cval, STARK
    return {cval(trait_consts(p, STARK, ty)["MODULUS"]) for ty in stark_fields(p)}


def r3_merge_with_int(ctx):
    p = ctx.p
    an = intervals.Analysis(p)
    mods = _moduli(p)
    for ty in RESCUE:
        f = method(p, HASHER, ty, "merge_with_int")
        short = ty.split("::")[-1]
        site = None
        site_op = None
        for cs in cmp_sites(f):
            if cs["op"] not in ("Lt", "Ge", "Gt", "Le"):
                continue
            ca, cb = op_const(cs["a"]), op_const(cs["b"])
            if cb is not None and "v" in cb and int(cb["v"]) in mods and op_local(cs["a"]) is not None and 2 in f.copy_chain(op_local(cs["a"])) \
                    and cs["op"] in ("Lt", "Ge"):
                site, site_op = cs, cs["op"]
            # MODULUS > value  /  MODULUS <= value
            if ca is not None and "v" in ca and int(ca["v"]) in mods and op_local(cs["b"]) is not None and 2 in f.copy_chain(op_local(cs["b"])) \
                    and cs["op"] in ("Gt", "Le"):
                site, site_op = cs, {"Gt": "Lt", "Le": "Ge"}[cs["op"]]
        if site is None:
            ctx.ob("R3", "int-range-branch:%s" % short, False, "merge_with_int does not branch on `value < MODULUS`", f)
            continue
        chk = f.bool_checks_of_local(site["local"])
        if not chk:
            ctx.ob("R3", "int-range-branch:%s" % short, False, "the comparison `value < MODULUS` is not branched on", f)
            continue
        small = chk[0]["true_edges"] if site_op == "Lt" else chk[0]["false_edges"]
        large = chk[0]["false_edges"] if site_op == "Lt" else chk[0]["true_edges"]
        rs = f.reach([t for _, t in small])
        rl = f.reach([t for _, t in large])
        only_s, only_l = rs - rl, rl - rs

        def const_stores(region):
            out = {}
            for bi, s in state_stores(f):
                if bi not in region:
                    continue
                idx = int(s["p"][1][2:-1]) if s["p"][1].startswith("[_") else None
                ci = eval_index(p, an, f, ["cp", [idx]], s["_pos"]) if idx is not None else None
                v = None
                if s["rv"][0] == "use" and op_local(s["rv"][1]) is not None:
                    for d in f.defs(op_local(s["rv"][1])):
                        if d["kind"] == "call" and (callee_of(d["term"]) or {}).get("name") == "new":
                            v = eval_index(p, an, f, d["term"]["a"][0], (d["bb"], f.INF - 1))
                if ci is not None and v is not None:
                    out[ci] = v
            return out
        cs_, cl_ = const_stores(only_s), const_stores(only_l)
        differ = [c for c in cs_ if c in cl_ and cs_[c] != cl_[c]]
        if not differ:
            # `let tag = if value < M { a } else { b }; state[cell] = new(tag)`: one store after the join
            # whose value has one constant definition in each branch
            for bi, st in state_stores(f):
                if bi in only_s or bi in only_l or st["rv"][0] != "use" or op_local(st["rv"][1]) is None:
                    continue
                idx = int(st["p"][1][2:-1]) if st["p"][1].startswith("[_") else None
                ci = eval_index(p, an, f, ["cp", [idx]], st["_pos"]) if idx is not None else None
                for d in f.defs(op_local(st["rv"][1])):
                    if d["kind"] != "call" or (callee_of(d["term"]) or {}).get("name") != "new":
                        continue
                    al = op_local(d["term"]["a"][0])
                    if al is None:
                        continue
                    vs, vl = set(), set()
                    for x in f.copy_chain(al):
                        for dd in f.defs(x):
                            if dd["kind"] != "assign":
                                continue
                            v = eval_index(p, an, f, ["cp", [x]], (dd["bb"], f.INF)) if False else None
                            # evaluate the defining rvalue itself
                            rv = dd["rv"]
                            val = None
                            if rv[0] == "use":
                                val = eval_index(p, an, f, rv[1], (dd["bb"], 0))
                            elif rv[0] == "cast":
                                val = eval_index(p, an, f, rv[2], (dd["bb"], 0))
                            elif rv[0] == "bin":
                                a_, b_ = eval_index(p, an, f, rv[2], (dd["bb"], 0)), eval_index(p, an, f, rv[3], (dd["bb"], 0))
                                if a_ is not None and b_ is not None and rv[1].startswith(("Add", "Sub")):
                                    val = a_ + b_ if rv[1].startswith("Add") else a_ - b_
                            if val is None:
                                continue
                            if dd["bb"] in only_s:
                                vs.add(val)
                            elif dd["bb"] in only_l:
                                vl.add(val)
                    if ci is not None and len(vs) == 1 and len(vl) == 1 and vs != vl:
                        cs_[ci], cl_[ci] = vs.pop(), vl.pop()
                        differ = [ci]
        ctx.ob("R3", "int-range-branch:%s" % short, bool(differ),
               "value < MODULUS and value >= MODULUS write different domain constants (%s vs %s) into state cell %s" % (
                   cs_[differ[0]], cl_[differ[0]], differ[0]) if differ else
               "the two branches of `value < MODULUS` do not write different constants into a common state cell (small: %s, large: %s)" % (cs_, cl_), f, site["at"])
        # the large branch absorbs value / MODULUS
        quot = False
        for bi, s in state_stores(f):
            if bi not in only_l or s["rv"][0] != "use" or op_local(s["rv"][1]) is None:
                continue
            sl = f.slice_of_operand(s["rv"][1], at=s["_pos"])
            for l in sl["locals"]:
                for d in f.defs(l):
                    if d["kind"] == "assign" and d["rv"][0] == "bin" and d["rv"][1] == "Div":
                        cb = op_const(d["rv"][3])
                        if cb is not None and "v" in cb and int(cb["v"]) in mods and op_local(d["rv"][2]) is not None and 2 in f.copy_chain(op_local(d["rv"][2])):
                            quot = True
        ctx.ob("R3", "quotient-absorbed:%s" % short, quot,
               "the branch value >= MODULUS stores value / MODULUS into the state" if quot else
               "the branch value >= MODULUS does not absorb value / MODULUS: integers congruent modulo the prime collide", f)
        # the value itself is absorbed on both branches
        val = False
        for bi, s in state_stores(f):
            if bi in only_s or bi in only_l or s["rv"][0] != "use" or op_local(s["rv"][1]) is None:
                continue
            sl = f.slice_of_operand(s["rv"][1], at=s["_pos"])
            if 2 in sl["args"]:
                val = True
        ctx.ob("R3", "value-absorbed:%s" % short, val, "BaseElement::new(value) is stored into the state before the branch" if val else
               "the integer is not absorbed on both branches", f)


def _external_hash_calls(f):
    out = []
    for bi, t in f.calls():
        c = callee_of(t)
        if c and not f.is_cleanup(bi) and c["krate"] in ("blake3", "sha3", "digest") and c.get("name") in ("hash", "digest", "update", "new_with_prefix", "chain_update"):
            out.append((bi, t))
    return out


def r4_byte_hashers(ctx):
    p = ctx.p
    for ty in BYTE:
        short = ty.split("::")[-1]
        f = method(p, HASHER, ty, "hash", inline=True)
        hs = _external_hash_calls(f)
        if not hs:
            raise AnchorLost("%s::hash: call into the external hash function not found" % short)
        ok = False
        for bi, t in hs:
            for a in t["a"]:
                if op_local(a) is None:
                    continue
                sl = f.slice_of_operand(a, at=(bi, f.INF))
                extra = names_in(f, sl) - {None, "as_ref", "deref", "borrow", "into", "from"}
                if 1 in sl["args"] and not extra:
                    ok = True
        ctx.ob("R4", "whole-input-hashed:%s" % short, ok,
               "hash(bytes) hands the whole slice to the hash function" if ok else "hash(bytes) does not pass the unmodified input slice to the hash function", f)
        g = method(p, HASHER, ty, "merge_with_int", inline=True)
        hs = _external_hash_calls(g)
        ok, how = False, "merge_with_int does not hash seed bytes followed by value.to_le_bytes()"
        for bi, t in hs:
            for a in t["a"]:
                if op_local(a) is None:
                    continue
                sl = g.slice_of_operand(a, at=(bi, g.INF))
                nm = names_in(g, sl)
                if {1, 2} <= set(sl["args"]) and "to_le_bytes" in nm and "copy_from_slice" in nm:
                    ok, how = True, "merge_with_int hashes a fixed-size buffer filled from the seed and value.to_le_bytes()"
        ctx.ob("R4", "merge_with_int-fixed-width:%s" % short, ok, how, g)


def r5_merge_many(ctx):
    p = ctx.p
    for ty in RESCUE + BYTE:
        short = ty.split("::")[-1]
        f = method(p, HASHER, ty, "merge_many", inline=True)   # private wrappers around the hash call are spliced
        ok, how = False, "merge_many is not the hash of the concatenated digests"
        for bi, t in f.calls():
            c = callee_of(t)
            if f.is_cleanup(bi) or not c or not t["a"] or op_local(t["a"][0]) is None:
                continue
            sl = f.slice_of_operand(t["a"][0], at=(bi, f.INF))
            nm = names_in(f, sl)
            if 1 in sl["args"] and (("digests_as_elements" in nm and c.get("name") == "hash_elements") or
                                    ("digests_as_bytes" in nm and c.get("name") in ("hash", "digest"))):
                ok, how = True, "merge_many = %s(%s(values))" % (c["name"], "digests_as_elements" if "digests_as_elements" in nm else "digests_as_bytes")
        ctx.ob("R5", "merge_many-is-hash-of-concatenation:%s" % short, ok, how, f)


def run(ctx):
    ctx.rule("R1", "Rescue hash / hash_elements store a value derived from the input's len() into the sponge state before the first permutation", 6)
    ctx.rule("R2", "Rescue hash(bytes) terminates the last byte chunk with a 1 placed right after its data; the last chunk is selected by an index that is not reset inside the loop", 6)
    ctx.rule("R3", "Rescue merge_with_int: value absorbed; branch on value < MODULUS with different domain constants; value / MODULUS absorbed in the large branch", 9)
    ctx.rule("R4", "byte hashers pass the whole input to the hash function; merge_with_int hashes seed || value.to_le_bytes() of fixed width", 6)
    ctx.rule("R5", "merge_many is the hash of the concatenated digests", 6)
    for rid, fn in (("R1", r1_length_absorbed), ("R2", r2_end_marker), ("R3", r3_merge_with_int), ("R4", r4_byte_hashers), ("R5", r5_merge_many)):
        ctx.guard(rid, fn)
    ctx.assume("the Rescue permutation and BLAKE3 / SHA3 are collision-free on distinct sponge inputs (C16 / external)")
    ctx.assume("that distinct inputs give distinct digests is value-level and not decided; only that length / range information reaches the sponge")
