"""Exact number theory on Python integers: primality certificates, factoring, orders."""
import math

_SMALL = [2, 3, 5, 7, 11, 13, 17, 19, 23, 29, 31, 37, 41]


def miller_rabin(n, bases):
    if n < 2:
        return False
    for p in _SMALL:
        if n % p == 0:
            return n == p
    d, s = n - 1, 0
    while d % 2 == 0:
        d //= 2
        s += 1
    for a in bases:
        a %= n
        if a == 0:
            continue
        x = pow(a, d, n)
        if x in (1, n - 1):
            continue
        for _ in range(s - 1):
            x = x * x % n
            if x == n - 1:
                break
        else:
            return False
    return True


def pollard_rho(n):
    if n % 2 == 0:
        return 2
    for c in range(1, 200):
        x = y = 2
        d = 1
        f = lambda v: (v * v + c) % n
        # Brent-style batching
        while d == 1:
            prod = 1
            xs, ys = x, y
            for _ in range(256):
                x = f(x)
                y = f(f(y))
                prod = prod * (x - y) % n
            d = math.gcd(prod, n)
            if d == n:
                x, y, d = xs, ys, 1
                while d == 1:
                    x = f(x)
                    y = f(f(y))
                    d = math.gcd(abs(x - y), n)
                break
        if 1 < d < n:
            return d
    raise ValueError("pollard rho failed for %d" % n)


def factor(n):
    """prime factorisation {p: e}; every factor is *proved* prime by prove_prime."""
    out = {}
    stack = [n]
    while stack:
        m = stack.pop()
        if m == 1:
            continue
        for p in _SMALL:
            while m % p == 0:
                out[p] = out.get(p, 0) + 1
                m //= p
        if m == 1:
            continue
        if prove_prime(m)[0]:
            out[m] = out.get(m, 0) + 1
            continue
        d = pollard_rho(m)
        stack.append(d)
        stack.append(m // d)
    return out


_PROVED = {}


def prove_prime(n):
    """(is_prime, certificate text). Deterministic Miller-Rabin below 3.3e24 (first 13 prime bases,
    Sorenson-Webster bound); above that a Lucas/Pratt certificate: a witness a with a^(n-1)=1 and
    a^((n-1)/q)!=1 for every prime q | n-1, each q proved recursively."""
    if n in _PROVED:
        return _PROVED[n]
    if n < 2:
        r = (False, "n<2")
    elif n < 3317044064679887385961981:
        ok = miller_rabin(n, _SMALL)
        r = (ok, "deterministic Miller-Rabin, bases 2..41 (n < 3.3e24)")
    elif not miller_rabin(n, _SMALL):
        r = (False, "Miller-Rabin witness found")
    else:
        fs = factor(n - 1)
        r = (False, "no Lucas witness found")
        for a in range(2, 2000):
            if pow(a, n - 1, n) != 1:
                r = (False, "Fermat witness %d" % a)
                break
            if all(pow(a, (n - 1) // q, n) != 1 for q in fs):
                r = (True, "Lucas/Pratt certificate: witness %d, n-1 = %s" % (
                    a, " * ".join("%d^%d" % (p, e) for p, e in sorted(fs.items()))))
                break
    _PROVED[n] = r
    return r


def v2(n):
    k = 0
    while n % 2 == 0:
        n //= 2
        k += 1
    return k


def has_order(g, order_factors, order, n):
    """g has exact multiplicative order `order` mod n (order_factors = prime factors of order)."""
    if pow(g, order, n) != 1:
        return False
    return all(pow(g, order // q, n) != 1 for q in order_factors)
