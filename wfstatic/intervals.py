"""A3/A4 — guard intervals.

A small non-relational abstract interpreter over MIR facts: the interval of an integer value at a
program point from (i) its type width and the operations that produced it, (ii) every dominating
branch on a comparison of that value (including the surviving edge of assert!), (iii) struct-field
invariants collected from every construction site of the struct (A4), (iv) parameter environments
joined over the call sites reachable from the analysed entry points, (v) summaries of small
workspace functions evaluated on the caller's argument intervals.

Nothing is executed; all results are over-approximations (a value's real range is inside the
interval), so "always in range" verdicts are sound with respect to the MIR semantics.
"""
import re
from collections import defaultdict

from . import ir
from .ir import callee_of, op_place, op_local, op_const, is_call_to

INT_RE = re.compile(r"^(u|i)(8|16|32|64|128|size)$")
U64 = (1 << 64) - 1


def type_range(ty):
    if ty == "bool":
        return (0, 1)
    m = INT_RE.match(ty or "")
    if not m:
        return None
    bits = 64 if m.group(2) == "size" else int(m.group(2))
    if m.group(1) == "u":
        return (0, (1 << bits) - 1)
    return (-(1 << (bits - 1)), (1 << (bits - 1)) - 1)


def type_bits(ty):
    m = INT_RE.match(ty or "")
    if not m:
        return None
    return 64 if m.group(2) == "size" else int(m.group(2))


def join(a, b):
    if a is None or b is None:
        return None
    return (min(a[0], b[0]), max(a[1], b[1]))


def meet(a, b):
    if a is None:
        return b
    if b is None:
        return a
    return (max(a[0], b[0]), min(a[1], b[1]))


def clip(iv, ty):
    tr = type_range(ty)
    if tr is None:
        return iv
    if iv is None:
        return tr
    if iv[0] < tr[0] or iv[1] > tr[1]:
        return tr  # wrapped / truncated: anything in the type
    return iv


CMP_NEG = {"Eq": "Ne", "Ne": "Eq", "Lt": "Ge", "Ge": "Lt", "Gt": "Le", "Le": "Gt"}
CMP_SWAP = {"Eq": "Eq", "Ne": "Ne", "Lt": "Gt", "Gt": "Lt", "Le": "Ge", "Ge": "Le"}


def refine(iv, rel, other):
    """iv REL other holds; return refined iv (other is an interval or None)."""
    if other is None or iv is None:
        return iv
    lo, hi = iv
    olo, ohi = other
    if rel == "Lt":
        hi = min(hi, ohi - 1)
    elif rel == "Le":
        hi = min(hi, ohi)
    elif rel == "Gt":
        lo = max(lo, olo + 1)
    elif rel == "Ge":
        lo = max(lo, olo)
    elif rel == "Eq":
        lo, hi = max(lo, olo), min(hi, ohi)
    elif rel == "Ne":
        if olo == ohi:
            if lo == olo:
                lo += 1
            if hi == olo:
                hi -= 1
    return (lo, hi)


def decide(rel, a, b):
    """truth of `a rel b` given intervals: True / False / None (unknown)."""
    if a is None or b is None:
        return None
    if a[0] > a[1] or b[0] > b[1]:
        return None  # infeasible point: caller treats as unreachable elsewhere
    if rel == "Lt":
        return True if a[1] < b[0] else (False if a[0] >= b[1] else None)
    if rel == "Le":
        return True if a[1] <= b[0] else (False if a[0] > b[1] else None)
    if rel == "Gt":
        return decide("Lt", b, a)
    if rel == "Ge":
        return decide("Le", b, a)
    if rel == "Eq":
        if a[0] == a[1] == b[0] == b[1]:
            return True
        if a[1] < b[0] or b[1] < a[0]:
            return False
        return None
    if rel == "Ne":
        r = decide("Eq", a, b)
        return None if r is None else (not r)
    return None


RET_RANGE_BY_NAME = {
    "ilog2": lambda bits: (0, bits - 1), "trailing_zeros": lambda bits: (0, bits),
    "leading_zeros": lambda bits: (0, bits), "count_ones": lambda bits: (0, bits),
    "trailing_ones": lambda bits: (0, bits), "leading_ones": lambda bits: (0, bits),
}


CHECKED_OPS = ("checked_pow", "checked_add", "checked_sub", "checked_mul")
_IN_PROGRESS = []


class Analysis:
    def __init__(self, prog, max_depth=5):
        self.p = prog
        self.max_depth = max_depth
        self.field_inv = {}        # (adt key, field name) -> interval or None
        self._field_busy = set()
        self.param_env = {}        # func key -> {param local: interval}
        self._guards = {}
        self._summ_busy = set()
        self._cons_sites = None

    # ---- guards ---------------------------------------------------------------------------
    def guards(self, f):
        """comparison branches of f: list of dict(op, a, b, true_edges, false_edges, bb)."""
        g = self._guards.get(f.key)
        if g is None:
            g = []
            for bi, b in enumerate(f.blocks):
                if b.get("cleanup"):
                    continue
                for s in b["s"]:
                    if s["k"] == "assign" and s["rv"][0] == "bin" and s["rv"][1] in CMP_NEG:
                        for c in f.bool_checks_of_local(s["p"][0]):
                            g.append({"op": s["rv"][1], "a": s["rv"][2], "b": s["rv"][3], "pos": s["_pos"],
                                      "true_edges": c["true_edges"], "false_edges": c["false_edges"], "kind": "cmp"})
                t = b["t"]
                if t["k"] == "call":
                    c = callee_of(t)
                    nm = (c or {}).get("name")
                    if nm in ("is_power_of_two", "is_empty", "is_some", "is_none", "has_more_bytes") and t.get("dest"):
                        for ch in f.bool_checks_of(bi):
                            g.append({"op": nm, "a": t["a"][0], "b": None, "pos": (bi, f.INF),
                                      "true_edges": ch["true_edges"], "false_edges": ch["false_edges"], "kind": "pred"})
                # switch directly on an integer value: each arm pins the value
                if t["k"] == "switch":
                    dty = t.get("dty", "")
                    if type_range(dty) and dty != "bool":
                        for v, tgt in t["arms"]:
                            g.append({"op": "Eq", "a": t["d"], "b": ["k", {"v": v, "ty": dty}], "pos": (bi, f.INF),
                                      "true_edges": [(bi, tgt, v)], "false_edges": [], "kind": "arm"})
                        g.append({"op": "NotIn", "a": t["d"], "b": [int(v) for v, _ in t["arms"]], "pos": (bi, f.INF),
                                  "true_edges": [(bi, t["else"], "else")], "false_edges": [], "kind": "else"})
            self._guards[f.key] = g
        return g

    def _edge_dominates(self, f, edges, pos):
        if not edges:
            return False
        bb = pos[0]
        # the use must be reachable only through these edges
        return f.must_cross([bb], cut_edges=edges) and any(f.can_reach(e[1], [bb]) or e[1] == bb for e in edges)

    def same_value(self, f, l1, pos1, l2, pos2):
        """do local l1 read at pos1 and l2 read at pos2 hold the same value?"""
        c1, c2 = f.copy_chain(l1), f.copy_chain(l2)
        common = c1 & c2
        if not common:
            return False
        for x in common:
            ds = f.defs(x)
            if len(ds) <= 1 or (1 <= x <= f.argc and not ds):
                return True
            # multi-def (loop-carried) variable: no redefinition between the two reads
            b1, b2 = pos1[0], pos2[0]
            clean = True
            for d in ds:
                db = d["bb"]
                if (b1 in f.reach_plus(db) or db == b1) and (db in f.reach_plus(b1) or db == b1) and \
                        (b2 in f.reach_plus(db) or db == b2) and db != b1:
                    # def lies between the guard and the use on some path
                    if db in f.reach_plus(b1) and (b2 in f.reach_plus(db) or db == b2):
                        clean = False
            if clean:
                return True
        return False

    # ---- evaluation -----------------------------------------------------------------------
    def eval_op(self, f, op, pos, env=None, depth=0, stack=None):
        if op[0] == "k":
            c = op[1]
            if "v" in c:
                v = int(c["v"])
                tr = type_range(c.get("ty", ""))
                if tr and tr[0] < 0 and v > tr[1]:
                    v -= 1 << type_bits(c["ty"])
                return (v, v)
            if c.get("uneval_def") and c["uneval_def"] in self.p.consts:
                cc = self.p.consts[c["uneval_def"]]
                val = (cc.get("value") or {}).get("scalar")
                if val is not None:
                    return (int(val), int(val))
            return type_range(c.get("ty", ""))
        pl = op[1]
        return self.eval_place(f, pl, pos, env, depth, stack)

    def eval_place(self, f, pl, pos, env, depth, stack):
        l = pl[0]
        if len(pl) == 1:
            return self.eval_local(f, l, pos, env, depth, stack)
        # projections
        fields = [e for e in pl[1:] if isinstance(e, str) and e.startswith(".")]
        lty = f.local_ty(l)
        if len(pl) >= 3 and isinstance(pl[1], str) and pl[1].startswith("@") and pl[1].split(":")[-1] in ("Continue", "Some", "Ok") and depth < 30:
            v = self._eval_payload(f, pl, pos, env, depth, stack)
            if v is not None:
                return v
        if "{closure" in f.key and len(pl) == 2 and pl[1] == "*" and l != 1 and depth < 30:
            # `let r = (*env).k; .. *r ..`: a captured reference copied out of the environment first
            ds = f.defs(l)
            if len(ds) == 1 and ds[0]["kind"] == "assign" and ds[0]["rv"][0] == "use":
                src = op_place(ds[0]["rv"][1])
                if src and src[0] == 1 and any(isinstance(e, str) and e.startswith(".") for e in src[1:]):
                    v = self._eval_upvar(f, list(src) + ["*"], depth, stack)
                    if v is not None:
                        return v
        if l == 1 and "{closure" in f.key and fields and depth < 30:
            v = self._eval_upvar(f, pl, depth, stack)
            if v is not None:
                return v
        if len(pl) == 2 and pl[1].startswith(".0:") and lty.startswith("("):
            # value half of a checked-arithmetic pair
            return self.eval_local(f, l, pos, env, depth, stack, pair=True)
        if fields:
            name = fields[-1].split(":", 1)[1]
            owner = self._owner_adt(f, pl)
            if owner and name:
                inv = self.field_interval(owner, name)
                if inv is not None:
                    return inv
        return None

    def _eval_payload(self, f, pl, pos, env, depth, stack):
        """`let x = helper(..)?` with a workspace helper returning Result<int, _> / Option<int>: the
        interval of the Ok / Some payload, evaluated in the helper at its `Ok(v)` sites with the
        call's argument intervals."""
        ds = f.defs(pl[0])
        if len(ds) > 1 and all(d["kind"] == "call" and (callee_of(d["term"]) or {}).get("name") == "branch" for d in ds):
            # the `?` continuation was cloned per return path of a spliced helper: join the feasible ones
            feas = (self.__dict__.get("feasible") or {}).get(f.key)
            out = None
            for d in ds:
                if feas is not None and d["bb"] not in feas:
                    continue
                v = self._payload_of_branch(f, d["term"], pos, env, depth, stack)
                if v is None:
                    if feas is None and not f.can_reach(0, [d["bb"]]):
                        continue
                    # a clone on an Err path carries no Ok payload
                    continue
                out = v if out is None else join(out, v)
            return out
        if len(ds) != 1 or ds[0]["kind"] != "call":
            return None
        r = self._payload_of_branch(f, ds[0]["term"], pos, env, depth, stack)
        if isinstance(r, tuple) and r and r[0] == "enum-index":
            # place: _n as Some . 0 (payload) . 0 (index)
            tail = [e for e in pl[2:] if isinstance(e, str) and e.startswith(".")]
            if len(tail) == 2 and tail[1].startswith(".0"):
                return r[1]
            return None
        return r

    def _payload_of_branch(self, f, t, pos, env, depth, stack):
        c = callee_of(t)
        if c and c.get("name") == "next" and c["krate"] in ("core", "alloc", "std") and t.get("dest"):
            # `for (i, x) in slice.iter().enumerate()`: the index is below the length of a slice / Vec
            dty = (c.get("rfull") or "") + " " + (c.get("full") or "") + " " + " ".join(str(a) for a in (c.get("args") or []))
            if "Enumerate<core::slice::iter::" in dty or "Enumerate<alloc::vec::into_iter::" in dty or "Enumerate<core::slice::Iter" in dty:
                return ("enum-index", (0, (1 << 63) - 2))
            return None
        if c and c.get("name") == "branch" and t["a"] and op_local(t["a"][0]) is not None:
            src = None
            has_agg = False
            # locals the Result value is copied from (all definitions: the return block of a spliced
            # helper is cloned per path, so the carrier has several copies)
            chain, todo = set(), [op_local(t["a"][0])]
            while todo and len(chain) < 40:
                x = todo.pop()
                if x in chain:
                    continue
                chain.add(x)
                for d in f.defs(x):
                    if d["kind"] == "assign" and d["rv"][0] == "use" and op_place(d["rv"][1]) and len(op_place(d["rv"][1])) == 1:
                        todo.append(op_local(d["rv"][1]))
            for x in chain:
                for d in f.defs(x):
                    if d["kind"] == "call" and (callee_of(d["term"]) or {}).get("name") != "from_residual":
                        src = d
                    if d["kind"] == "assign" and d["rv"][0] == "agg" and d["rv"][1].get("variant") in ("Ok", "Some"):
                        has_agg = True
            if src is None or has_agg:
                # spliced helper: the Result is built by aggregates on the helper's return paths
                out, n = None, 0
                for x in chain:
                    for d in f.defs(x):
                        if d["kind"] == "assign" and d["rv"][0] == "agg" and d["rv"][1].get("variant") in ("Ok", "Some") and d["rv"][2]:
                            feas = (self.__dict__.get("feasible") or {}).get(f.key)
                            if feas is not None and d["bb"] not in feas:
                                continue
                            v = self.eval_op(f, d["rv"][2][0], (d["bb"], d.get("si", 0)), env, depth + 1, stack)
                            if v is None:
                                return None
                            out = v if out is None else join(out, v)
                            n += 1
                return out if n else None
            t = src["term"]
            c = callee_of(t)
        if c and c["krate"] == "core" and c.get("name") in CHECKED_OPS and t.get("dest") and len(t["a"]) == 2:
            # Some payload of checked integer arithmetic: the exact result, which fits the type on that edge
            import re as _re
            m = _re.search(r"Option<([iu](?:8|16|32|64|128|size))>", f.local_ty(t["dest"][0]))
            tr = type_range(m.group(1)) if m else None
            x = self.eval_op(f, t["a"][0], pos, env, depth + 1, stack)
            y = self.eval_op(f, t["a"][1], pos, env, depth + 1, stack)
            if tr is None or x is None or y is None:
                return tr
            op = c["name"]
            try:
                if op == "checked_pow":
                    if x[0] < 0 or y[0] < 0:
                        return tr
                    lo = x[0] ** min(y[0], 130) if x[0] > 1 else (x[0] if y[0] > 0 else 1)
                    hi = tr[1] if (x[1] > 1 and y[1] > 130) else x[1] ** y[1]
                    if x[0] <= 1:
                        lo = min(lo, 0 if x[0] == 0 and y[1] > 0 else 1)
                    r = (lo, hi)
                elif op == "checked_add":
                    r = (x[0] + y[0], x[1] + y[1])
                elif op == "checked_sub":
                    r = (x[0] - y[1], x[1] - y[0])
                elif op == "checked_mul":
                    cs = [x[0] * y[0], x[0] * y[1], x[1] * y[0], x[1] * y[1]]
                    r = (min(cs), max(cs))
                else:
                    return tr
            except OverflowError:
                return tr
            r = meet(r, tr)
            return r if r and r[0] <= r[1] else tr
        if not c or c["krate"] in ("core", "alloc", "std"):
            return None
        targets = self.p.call_targets(c)
        if len(targets) != 1:
            return None
        g = self.p.funcs[targets[0]]
        if not g.blocks or len(g.blocks) > 80 or (f.key, g.key, "payload") in (stack or frozenset()):
            return None
        cenv = {}
        for i, a in enumerate(t["a"]):
            v = self.eval_op(f, a, pos, env, depth + 1, stack)
            if v is not None:
                cenv[i + 1] = v
        out = None
        n = 0
        for e in g.exits():
            if e["kind"] in ("ok", "some") and e.get("si") is not None:
                st = g.blocks[e["bb"]]["s"][e["si"]]
                if st["rv"][0] != "agg" or not st["rv"][2]:
                    return None
                v = self.eval_op(g, st["rv"][2][0], (e["bb"], e["si"]), cenv, depth + 1, (stack or frozenset()) | {(f.key, g.key, "payload")})
                if v is None:
                    return None
                out = v if out is None else join(out, v)
                n += 1
            elif e["kind"] in ("use", "other") or e["kind"].startswith("call:"):
                return None
        return out if n else None

    def _eval_upvar(self, f, pl, depth, stack):
        """value of a captured variable read inside a closure: evaluated in the parent function at the
        point where the closure is created (captures by value, or by shared reference to a local)."""
        from .patterns import closure_site
        site = closure_site(self.p, f)
        if not site:
            return None
        parent, st = site
        rest = [e for e in pl[1:] if e != "*" or True]
        # shape: ["*"]? ".k:" ["*"]* (no further fields / indexes)
        i = 0
        if i < len(rest) and rest[i] == "*":
            i += 1
        if i >= len(rest) or not (isinstance(rest[i], str) and rest[i].startswith(".")):
            return None
        k = int(rest[i][1:].split(":")[0])
        derefs = rest[i + 1:]
        if any(e != "*" for e in derefs) or k >= len(st["rv"][2]):
            return None
        cap = st["rv"][2][k]
        pos = tuple(st["_pos"])
        if not derefs:
            return self.eval_op(parent, cap, pos, None, depth + 1, stack)
        cl = op_local(cap)
        if cl is None or len(derefs) > 1:
            return None
        ds = parent.defs(cl)
        if len(ds) != 1 or ds[0]["kind"] != "assign" or ds[0]["rv"][0] != "ref" or ds[0]["rv"][1] != "shared":
            return None
        return self.eval_place(parent, ds[0]["rv"][2], pos, None, depth + 1, stack)

    def _owner_adt(self, f, pl):
        """ADT key owning the last field projection of the place (best effort via local type)."""
        ty = f.local_ty(pl[0])
        # strip refs
        t = ty
        while t.startswith("&"):
            t = t[1:].lstrip()
            if t.startswith("mut "):
                t = t[4:]
            if t.startswith("'"):
                t = t.split(" ", 1)[1] if " " in t else t
        base = t.split("<")[0]
        nfields = [e for e in pl[1:] if isinstance(e, str) and e.startswith(".")]
        if len(nfields) == 1 and base in self.p.adts:
            return base
        # nested: walk field types
        cur = base
        for e in nfields[:-1]:
            name = e.split(":", 1)[1]
            adt = self.p.adts.get(cur)
            if not adt:
                return None
            fty = None
            for v in adt["variants"]:
                for fd in v["fields"]:
                    if fd["name"] == name:
                        fty = fd["ty"]
            if not fty:
                return None
            cur = fty.split("<")[0]
        return cur if cur in self.p.adts else None

    def eval_local(self, f, l, pos, env=None, depth=0, stack=None, pair=False):
        stack = stack or frozenset()
        ov = self.__dict__.get("overrides")
        if ov and not pair and (f.key, l) in ov:
            return ov[(f.key, l)]
        ty = f.local_ty(l)
        tr = type_range(ty)
        if tr is None and not pair:
            return None
        key = (f.key, l, pos)
        if key in stack or depth > 40 or len(stack) > 120:
            return tr
        stack = stack | {key}
        iv = None
        if 1 <= l <= f.argc and not f.reaching_defs(l, pos):
            e = env if env is not None else self.param_env.get(f.key, {})
            iv = e.get(l, tr)
        else:
            first = True
            feas = (self.__dict__.get("feasible") or {}).get(f.key)
            for d in f.reaching_defs(l, pos):
                if feas is not None and d["bb"] not in feas:
                    continue
                v = self._eval_def(f, d, env, depth, stack, pair)
                if first:
                    iv, first = v, False
                else:
                    iv = join(iv, v)
                if iv is None:
                    break
            if first:
                iv = tr
            if 1 <= l <= f.argc:
                e = env if env is not None else self.param_env.get(f.key, {})
                iv = join(iv, e.get(l, tr)) if iv is not None else None
        if pair:
            return iv
        if iv is None:
            iv = tr
        iv = meet(iv, tr)
        return self._refine_by_guards(f, l, pos, iv, env, depth, stack)

    def _root_of(self, f, l, _depth=0):
        """A stable identity for the value held by local `l`:
        a local (parameter or single non-copy definition), or ("p", place) for a field read through a
        shared reference parameter (`(*self).depth`), looking through copies and widening casts.
        None for loop-carried / multiply-defined values."""
        if _depth > 12:
            return None
        ds = f.defs(l)
        if 1 <= l <= f.argc and not ds:
            return l
        if len(ds) != 1:
            return None
        d = ds[0]
        if d["kind"] == "call":
            # lossless integer conversions written as calls: u32::from(x_u8), x.into()
            c = callee_of(d["term"])
            if c and c.get("name") in ("from", "into") and c["def"].startswith("core::convert::") and len(d["term"]["a"]) == 1:
                al = op_local(d["term"]["a"][0])
                src_t = type_range(f.local_ty(al)) if al is not None else None
                dst_t = type_range(f.local_ty(l))
                if src_t and dst_t and dst_t[0] <= src_t[0] and src_t[1] <= dst_t[1] and len(op_place(d["term"]["a"][0])) == 1:
                    return self._root_of(f, al, _depth + 1)
            return l
        if d["kind"] != "assign":
            return l
        rv = d["rv"]
        if rv[0] == "use":
            pl = op_place(rv[1])
            if pl is None:
                return l
            if all(e == "*" for e in pl[1:]):
                return self._root_of(f, pl[0], _depth + 1)
            if len(pl) == 2 and pl[1].startswith(".0:") and f.local_ty(pl[0]).startswith("("):
                return self._root_of(f, pl[0], _depth + 1)
            # field of a shared-reference parameter: immutable for the duration of the call
            base = pl[0]
            bty = f.local_ty(base)
            if 1 <= base <= f.argc and not f.defs(base) and not bty.startswith("&mut") \
                    and all(isinstance(e, str) and (e == "*" or e.startswith(".")) for e in pl[1:]):
                return ("p", tuple(pl))
            return l
        if rv[0] == "ref" and all(e == "*" for e in rv[2][1:]):
            return self._root_of(f, rv[2][0], _depth + 1)
        if rv[0] == "cast" and rv[1].startswith("IntToInt"):
            src_t, dst_t = type_range(rv[4]), type_range(rv[3])
            sl = op_local(rv[2])
            if src_t and dst_t and sl is not None and dst_t[0] <= src_t[0] and src_t[1] <= dst_t[1]:
                return self._root_of(f, sl, _depth + 1)
            return l
        return l

    def _edge_facts(self, f, root, env, depth, stack):
        """guards that constrain `root`: list of (edges, rel, other interval) meaning root REL other on those edges."""
        key = (f.key, root, id(env) if env is not None else 0)
        cache = self.__dict__.setdefault("_ef_cache", {})
        if key in cache:
            return cache[key]
        cache[key] = _IN_PROGRESS  # recursion guard
        facts = []

        def is_root(op):
            l = op_local(op)
            if l is None:
                return False
            pl = op_place(op)
            if len(pl) != 1:
                return False
            return self._root_of(f, l) == root

        def sum_parts(op):
            """if op's value is x + y, return [(x, y), (y, x)] operand pairs."""
            l = op_local(op)
            if l is None:
                return []
            for x in f.copy_chain(l):
                ds = f.defs(x)
                if len(ds) == 1 and ds[0]["kind"] == "assign" and ds[0]["rv"][0] == "bin" and ds[0]["rv"][1] in ("Add", "AddWithOverflow"):
                    a, b = ds[0]["rv"][2], ds[0]["rv"][3]
                    return [(a, b, (ds[0]["bb"], ds[0]["si"])), (b, a, (ds[0]["bb"], ds[0]["si"]))]
            return []

        for g in self.guards(f):
            if g["kind"] in ("cmp", "arm"):
                for mine, other, swapped in ((g["a"], g["b"], False), (g["b"], g["a"], True)):
                    if mine is None or other is None:
                        continue
                    if is_root(mine):
                        if other[0] != "k" and is_root(other):
                            continue
                        oiv = self.eval_op(f, other, g["pos"], env, depth + 1, stack)
                        for edges, rel in ((g["true_edges"], g["op"]), (g["false_edges"], CMP_NEG[g["op"]])):
                            if edges:
                                facts.append((edges, CMP_SWAP[rel] if swapped else rel, oiv))
                    else:
                        # root + y  REL  K   =>  root  REL'  K - lo(y)   (upper bounds only)
                        for x, y, spos in sum_parts(mine):
                            if is_root(x):
                                oiv = self.eval_op(f, other, g["pos"], env, depth + 1, stack)
                                yiv = self.eval_op(f, y, spos, env, depth + 1, stack)
                                if oiv is None or yiv is None or yiv[0] < 0:
                                    continue
                                for edges, rel in ((g["true_edges"], g["op"]), (g["false_edges"], CMP_NEG[g["op"]])):
                                    r2 = CMP_SWAP[rel] if swapped else rel
                                    if edges and r2 in ("Le", "Lt"):
                                        facts.append((edges, r2, (oiv[0] - yiv[0], oiv[1] - yiv[0])))
            elif g["kind"] == "else" and is_root(g["a"]):
                for v in g["b"]:
                    facts.append((g["true_edges"], "Ne", (v, v)))
            elif g["kind"] == "pred" and g["op"] == "is_power_of_two" and is_root(g["a"]):
                facts.append((g["true_edges"], "Ge", (1, 1)))
                facts.append((g["true_edges"], "Le", (1 << 63, 1 << 63)))
        # Ok-postconditions of callees: on the Ok edge of `g(.., root, ..)?` the root lies in the
        # range g accepts for that parameter
        for bi, t in f.calls():
            if f.is_cleanup(bi):
                continue
            c = callee_of(t)
            if c and c["krate"] == "core" and t.get("dest") and c.get("name") in ("checked_pow", "try_from", "try_into"):
                # core knowledge: `b.checked_pow(root)` is Some only while b^root fits; an integer `try_from(root)` is Ok only in range
                import re as _re
                dty = f.local_ty(t["dest"][0])
                m = _re.search(r"(?:Option|Result)<([iu](?:8|16|32|64|128|size))\b", dty)
                tr2 = type_range(m.group(1)) if m else None
                checks = f.result_checks(bi) if tr2 else []
                pe = [e for ch in checks for e in ch["pass_edges"]]
                if pe and c["name"] == "checked_pow" and len(t["a"]) == 2 and is_root(t["a"][1]):
                    bv = self.eval_op(f, t["a"][0], (bi, f.INF - 1), env, depth + 1, stack)
                    if bv is not None and bv[0] >= 2:
                        k = 0
                        while bv[0] ** (k + 1) <= tr2[1]:
                            k += 1
                        facts.append((pe, "Le", (k, k)))
                elif pe and c["name"] in ("try_from", "try_into") and len(t["a"]) == 1 and is_root(t["a"][0]) and \
                        type_range(f.local_ty(op_local(t["a"][0])) if op_local(t["a"][0]) is not None else "") is not None:
                    facts.append((pe, "Ge", (tr2[0], tr2[0])))
                    facts.append((pe, "Le", (tr2[1], tr2[1])))
                continue
            if c and c["krate"] == "core" and c.get("name") == "and_then" and "option::Option" in str(c.get("def", "")) and len(t["a"]) == 2:
                # `int::try_from(root).ok().and_then(|d| B.checked_pow(d))`: the chain is Some only if B^root fits
                k = self._checked_pow_chain_bound(f, t, is_root)
                if k is not None:
                    pe = [e for ch in f.result_checks(bi) for e in ch["pass_edges"]]
                    if pe:
                        facts.append((pe, "Le", (k, k)))
                        facts.append((pe, "Ge", (0, 0)))
                continue
            if not c or c["krate"] in ("core", "alloc", "std"):
                continue
            idxs = [i for i, a in enumerate(t["a"]) if is_root(a)]
            if not idxs:
                continue
            checks = f.result_checks(bi)
            if not checks:
                continue
            pass_edges = [e for ch in checks for e in ch["pass_edges"]]
            targets = self.p.call_targets(c)
            if len(targets) != 1:
                continue
            g = self.p.funcs[targets[0]]
            for i in idxs:
                acc = self.accepted_param_range(g, i + 1, depth + 1)
                if acc is not None:
                    facts.append((pass_edges, "Ge", (acc[0], acc[0])))
                    facts.append((pass_edges, "Le", (acc[1], acc[1])))
        cache[key] = facts
        return facts

    def _checked_pow_chain_bound(self, f, t, is_root):
        """for `recv.and_then(closure)` with recv = int::try_from(root).ok() (or an Option holding root's value) and a
        closure that returns `B.checked_pow(its parameter)` for a constant B >= 2: the largest exponent that fits."""
        # the closure
        cl = op_local(t["a"][1])
        cf = None
        for x in (f.copy_chain(cl) | {cl}) if cl is not None else ():
            for d in f.defs(x):
                if d["kind"] == "assign" and d["rv"][0] == "agg" and d["rv"][1].get("k") == "closure":
                    cf = self.p.funcs.get(d["rv"][1].get("def"))
        if cf is None:
            return None
        cps = [(b, tt) for b, tt in cf.calls() if not cf.is_cleanup(b)]
        if len(cps) != 1 or (callee_of(cps[0][1]) or {}).get("name") != "checked_pow" or cps[0][1].get("dest") != [0]:
            return None
        tt = cps[0][1]
        base = op_const(tt["a"][0])
        el = op_local(tt["a"][1])
        if base is None or not str(base.get("v", "")).isdigit() or int(base["v"]) < 2 or el is None or 2 not in cf.copy_chain(el) | {el}:
            return None
        import re as _re
        m = _re.search(r"Option<([iu](?:8|16|32|64|128|size))>", cf.raw.get("ret", "") or f.local_ty(t["dest"][0]))
        tr = type_range(m.group(1)) if m else None
        if tr is None:
            return None
        # the receiver carries root's value: ok(try_from(root)) / try_from(root).ok()
        rl = op_local(t["a"][0])
        for _ in range(4):
            if rl is None:
                return None
            ds = [d for d in f.defs(rl) if d.get("p") and len(d["p"]) == 1]
            if len(ds) != 1:
                return None
            d = ds[0]
            if d["kind"] == "assign" and d["rv"][0] == "use" and op_local(d["rv"][1]) is not None:
                rl = op_local(d["rv"][1])
                continue
            if d["kind"] != "call":
                return None
            nm = (callee_of(d["term"]) or {}).get("name")
            if nm == "ok" and d["term"]["a"]:
                rl = op_local(d["term"]["a"][0])
                continue
            if nm in ("try_from", "try_into") and d["term"]["a"] and is_root(d["term"]["a"][0]):
                k, B = 0, int(base["v"])
                while B ** (k + 1) <= tr[1]:
                    k += 1
                return k
            return None
        return None

    def accepted_param_range(self, g, param, depth=0):
        """interval of parameter `param` of g on g's Ok / normal exits (None = no information)."""
        key = ("acc", g.key, param)
        cache = self.__dict__.setdefault("_acc_cache", {})
        if key in cache:
            return cache[key]
        cache[key] = None
        tr = type_range(g.local_ty(param)) if param <= g.argc else None
        if tr is None or depth > 3 or g.defs(param):
            return None
        facts = self._edge_facts(g, param, {}, depth + 1, frozenset())
        if not facts:
            return None
        st = self._flow(g, param, tr, facts)
        oks = [e["bb"] for e in g.exits() if e["kind"] in ("ok", "some", "value", "use", "other") or e["kind"].startswith("call:")]
        out = None
        for b in oks:
            v = st.get(b)
            if v is None:
                continue
            out = v if out is None else join(out, v)
        if out is not None and out != tr:
            cache[key] = out
        return cache[key]

    def _flow(self, f, root, base, facts):
        """forward propagation of the constraints on an immutable value `root` along the CFG."""
        by_edge = defaultdict(list)
        for edges, rel, oiv in facts:
            for e in edges:
                by_edge[(e[0], e[1])].append((rel, oiv, e[2] if len(e) > 2 else None))
        ds = f.defs(root) if isinstance(root, int) else []
        start = ds[0]["bb"] if ds else 0
        state = {start: base}
        work = [start]
        rounds = 0
        while work and rounds < 4000:
            rounds += 1
            b = work.pop()
            cur = state[b]
            for t, lab in f.succ(b):
                iv = cur
                for rel, oiv, elab in by_edge.get((b, t), []):
                    if elab is not None and elab != lab:
                        continue
                    iv = refine(iv, rel, oiv)
                if iv[0] > iv[1]:
                    continue  # infeasible edge
                old = state.get(t)
                new = iv if old is None else join(old, iv)
                if new != old:
                    state[t] = new
                    work.append(t)
        return state

    def _has_bool_switches(self, f):
        """does f branch on a boolean that summarises several outcomes (more than one definition,
        directly or behind copies / negations)?"""
        c = self.__dict__.setdefault("_hbs", {})
        if f.key not in c:
            def multi(l, depth=0):
                ds = f.defs(l)
                if len(ds) > 1:
                    return True
                if len(ds) == 1 and depth < 4:
                    d = ds[0]
                    if d["kind"] == "call":
                        return (callee_of(d["term"]) or {}).get("name") == "contains"
                    rv = d.get("rv") or []
                    if d["kind"] == "assign" and rv and rv[0] == "use" and op_place(rv[1]) and len(op_place(rv[1])) == 1:
                        return multi(op_local(rv[1]), depth + 1)
                    if d["kind"] == "assign" and rv and rv[0] == "un" and op_local(rv[2]) is not None:
                        return multi(op_local(rv[2]), depth + 1)
                return False
            c[f.key] = any(b["t"]["k"] == "switch" and not b.get("cleanup") and op_local(b["t"]["d"]) is not None and
                           f.local_ty(op_local(b["t"]["d"])) == "bool" and multi(op_local(b["t"]["d"]))
                           for b in f.blocks)
        return c[f.key]

    def _bool_switch_facts(self, f, root, st, env, depth, stack):
        """facts about `root` on the edges of switches over boolean locals that are not themselves a
        comparison result: the hull, over the definitions of the boolean that can produce the edge's
        truth value, of what is known about root where that definition sits."""
        def is_root(op):
            l = op_local(op)
            pl = op_place(op)
            return l is not None and pl is not None and len(pl) == 1 and self._root_of(f, l) == root

        def through_ref(op):
            """`&x` temporaries: the operand read through one shared reference."""
            l = op_local(op)
            if l is None:
                return op
            for _ in range(4):
                ds = f.defs(l)
                if len(ds) == 1 and ds[0]["kind"] == "assign" and ds[0]["rv"][0] == "ref":
                    pl = ds[0]["rv"][2]
                    if len(pl) == 1:
                        return ["cp", pl]
                    if len(pl) == 2 and pl[1] == "*":       # reborrow `&*r`
                        l = pl[0]
                        continue
                if len(ds) == 1 and ds[0]["kind"] == "assign" and ds[0]["rv"][0] == "use" and op_place(ds[0]["rv"][1]) and len(op_place(ds[0]["rv"][1])) == 1:
                    l = op_local(ds[0]["rv"][1])
                    continue
                break
            return op

        def hull(a, b):
            if a is None:
                return b
            if b is None:
                return a
            return (min(a[0], b[0]), max(a[1], b[1]))

        memo = {}

        def val(b, truth, dep):
            """interval of root when boolean local b has value `truth`; (1, 0) = impossible."""
            if dep > 8:
                return None
            k = (b, truth)
            if k in memo:
                return memo[k]
            memo[k] = None
            out = (1, 0)
            unknown = False
            for d in f.defs(b):
                here = st.get(d["bb"])
                if here is None:
                    # the definition lies outside the region the flow covers (e.g. before the root
                    # value exists): nothing can be said through this boolean
                    unknown = True
                    continue
                contrib = here
                if d["kind"] == "assign":
                    rv = d["rv"]
                    if rv[0] == "use" and rv[1][0] == "k":
                        v = str(rv[1][1].get("v"))
                        bv = v in ("1", "true")
                        if bv != truth:
                            continue
                    elif rv[0] == "use" and op_place(rv[1]) and len(op_place(rv[1])) == 1 and f.local_ty(op_local(rv[1])) == "bool":
                        sub = val(op_local(rv[1]), truth, dep + 1)
                        contrib = meet(here, sub) if sub is not None else here
                    elif rv[0] == "un" and rv[1] == "Not" and op_local(rv[2]) is not None:
                        sub = val(op_local(rv[2]), not truth, dep + 1)
                        contrib = meet(here, sub) if sub is not None else here
                    elif rv[0] == "bin" and rv[1] in CMP_NEG:
                        for mine, other, swapped in ((rv[2], rv[3], False), (rv[3], rv[2], True)):
                            if is_root(mine) and not (other[0] != "k" and is_root(other)):
                                oiv = self.eval_op(f, other, (d["bb"], d.get("si", 0)), env, depth + 1, stack)
                                rel = rv[1] if truth else CMP_NEG[rv[1]]
                                if swapped:
                                    rel = CMP_SWAP[rel]
                                contrib = refine(here, rel, oiv)
                                break
                elif d["kind"] == "call":
                    t = d["term"]
                    c = callee_of(t)
                    if c and c.get("name") == "is_power_of_two" and t["a"] and is_root(t["a"][0]) and truth:
                        contrib = refine(refine(here, "Ge", (1, 1)), "Le", (1 << 63, 1 << 63))
                    if c and c.get("name") == "contains" and len(t["a"]) == 2 and "Range" in (c.get("rfull") or c["full"]):
                        x = through_ref(t["a"][1])
                        r = through_ref(t["a"][0])
                        if is_root(x) and truth:
                            rng = self._range_bounds(f, r, (d["bb"], f.INF - 1), env, depth, stack)
                            if rng:
                                contrib = meet(here, rng)
                if contrib is not None and contrib[0] <= contrib[1]:
                    out = hull(out if out[0] <= out[1] else None, contrib)
            if unknown:
                out = None
            memo[k] = out
            return out

        facts = []
        for bi, b in enumerate(f.blocks):
            t = b["t"]
            if b.get("cleanup") or t["k"] != "switch" or op_local(t["d"]) is None or len(op_place(t["d"])) != 1:
                continue
            bl = op_local(t["d"])
            if f.local_ty(bl) != "bool":
                continue
            ds = f.defs(bl)
            # plain comparison temporaries are already covered by the guards
            if len(ds) == 1 and ds[0]["kind"] == "assign" and ds[0]["rv"][0] == "bin":
                continue
            for truth in (True, False):
                iv = val(bl, truth, 0)
                if iv is None:
                    continue
                edges = [(bi, tg, lab) for tg, lab in f.succ(bi) if (lab != "0") == truth]
                if not edges:
                    continue
                if iv[0] > iv[1]:
                    facts.append((edges, "Ge", (1, 1)))
                    facts.append((edges, "Le", (0, 0)))
                else:
                    facts.append((edges, "Ge", (iv[0], iv[0])))
                    facts.append((edges, "Le", (iv[1], iv[1])))
        return facts

    def _range_bounds(self, f, op, pos, env, depth, stack):
        """[lo, hi] of a `lo..=hi` value (RangeInclusive::new(lo, hi))."""
        l = op_local(op)
        if l is None:
            return None
        for x in f.copy_chain(l):
            for d in f.defs(x):
                if d["kind"] == "assign" and d["rv"][0] == "use" and d["rv"][1][0] == "k" and "promoted" in d["rv"][1][1]:
                    # `&(LO..=HI)` with constant bounds is a promoted constant: read its little body
                    k = d["rv"][1][1]
                    owner = self.p.funcs.get(k.get("uneval_def")) or f
                    for pr in owner.raw.get("promoted") or []:
                        if str(pr["idx"]) != str(k["promoted"]):
                            continue
                        for b in pr["mir"]["blocks"]:
                            t = b["t"]
                            c = callee_of(t) if t["k"] == "call" else None
                            if c and c.get("name") == "new" and "RangeInclusive" in (c.get("rfull") or c["full"]) and len(t["a"]) == 2:
                                lo, hi = op_const(t["a"][0]), op_const(t["a"][1])
                                if lo and hi and "v" in lo and "v" in hi:
                                    return (int(lo["v"]), int(hi["v"]))
                if d["kind"] == "call":
                    c = callee_of(d["term"])
                    if c and c.get("name") == "new" and "RangeInclusive" in (c.get("rfull") or c["full"]) and len(d["term"]["a"]) == 2:
                        lo = self.eval_op(f, d["term"]["a"][0], (d["bb"], f.INF - 1), env, depth + 1, stack)
                        hi = self.eval_op(f, d["term"]["a"][1], (d["bb"], f.INF - 1), env, depth + 1, stack)
                        if lo and hi:
                            return (lo[0], hi[1])
                if d["kind"] == "assign" and d["rv"][0] == "agg" and "RangeInclusive" in str(d["rv"][1].get("adt", "")):
                    ops = d["rv"][2]
                    lo = self.eval_op(f, ops[0], (d["bb"], d.get("si", 0)), env, depth + 1, stack)
                    hi = self.eval_op(f, ops[1], (d["bb"], d.get("si", 0)), env, depth + 1, stack)
                    if lo and hi:
                        return (lo[0], hi[1])
        return None

    def _refine_by_guards(self, f, l, pos, iv, env, depth, stack):
        if iv is None:
            return iv
        root = self._root_of(f, l)
        if root is not None:
            facts = self._edge_facts(f, root, env, depth, stack)
            if facts is _IN_PROGRESS:
                return iv       # inside the computation of these very facts: nothing to add, nothing to cache
            if facts or self._has_bool_switches(f):
                key = (f.key, root, iv, id(env) if env is not None else 0)
                cache = self.__dict__.setdefault("_flow_cache", {})
                st = cache.get(key)
                if st is None:
                    st = self._flow(f, root, iv, facts)
                    # validation summarised in booleans (`let ok = lo <= x && x <= hi; .. if !(ok && ..)`):
                    # a branch on such a boolean tells what held where it was computed
                    prev = None
                    for _ in range(4):
                        extra = self._bool_switch_facts(f, root, st, env, depth, stack)
                        if not extra or extra == prev:
                            break
                        prev = extra
                        st = self._flow(f, root, iv, facts + extra)
                    cache[key] = st
                r = st.get(pos[0])
                if r is not None:
                    return meet(iv, r)
            return iv
        # loop-carried variable: only guards that dominate the use with no redefinition in between
        for g in self.guards(f):
            if g["kind"] in ("cmp", "arm"):
                la, lb = op_local(g["a"]), (op_local(g["b"]) if g["b"] else None)
                for mine, other, swapped in ((la, g["b"], False), (lb, g["a"], True)):
                    if mine is None or other is None:
                        continue
                    if not self.same_value(f, mine, g["pos"], l, pos):
                        continue
                    for edges, rel in ((g["true_edges"], g["op"]), (g["false_edges"], CMP_NEG[g["op"]])):
                        if not edges or not self._edge_dominates(f, edges, pos):
                            continue
                        if swapped:
                            rel = CMP_SWAP[rel]
                        if other[0] == "k" or op_local(other) not in (None, l):
                            oiv = self.eval_op(f, other, g["pos"], env, depth + 1, stack)
                            iv = refine(iv, rel, oiv)
        return iv

    def _eval_def(self, f, d, env, depth, stack, pair):
        pos = (d["bb"], d["si"] if d["si"] is not None else f.INF)
        if d["kind"] == "assign":
            if len(d["p"]) > 1:
                return None if not pair else None
            rv = d["rv"]
            k = rv[0]
            ty = f.local_ty(d["p"][0])
            if k == "use":
                return self.eval_op(f, rv[1], pos, env, depth, stack)
            if k == "cast":
                src = self.eval_op(f, rv[2], pos, env, depth, stack)
                if src is None:
                    src = type_range(rv[4])
                return clip(src, rv[3])
            if k == "bin":
                op = rv[1]
                a = self.eval_op(f, rv[2], pos, env, depth, stack)
                b = self.eval_op(f, rv[3], pos, env, depth, stack)
                rty = ty
                if op.endswith("WithOverflow"):
                    op = op[:-12]
                    rty = ty.strip("()").split(",")[0].strip()
                return self._bin(op, a, b, rty)
            if k == "un":
                if rv[1] == "PtrMetadata":
                    return self.len_of(f, rv[2], pos, env, depth + 1, stack)
                if rv[1] == "Not" and ty == "bool":
                    return (0, 1)
                return type_range(ty)
            if k == "discr":
                return (0, 255)
            return type_range(ty)
        if d["kind"] == "call":
            return self._eval_call(f, d["term"], pos, env, depth, stack)
        return None  # call-mut etc.

    ARRAY_RE = re.compile(r"^\[(.*); (\d+)\]$")

    def len_of_ty(self, ty):
        t = (ty or "").strip()
        while t.startswith("&"):
            t = t[1:].lstrip()
            if t.startswith("'"):
                t = t.split(" ", 1)[1] if " " in t else t
            if t.startswith("mut "):
                t = t[4:]
        m = self.ARRAY_RE.match(t)
        if m:
            n = int(m.group(2))
            return (n, n)
        return None

    def len_of(self, f, op, pos, env=None, depth=0, stack=None, seen=None):
        """interval of the length of the slice / array / Vec denoted by `op` (None = unknown)."""
        UNK = (0, (1 << 63) - 1)
        l = op_local(op)
        if l is None:
            c = op_const(op)
            return self.len_of_ty((c or {}).get("ty", "")) or UNK
        pl = op_place(op)
        if any(isinstance(e, str) and not (e == "*") for e in pl[1:]):
            return UNK
        seen = seen or set()
        if l in seen or depth > 12:
            return UNK
        seen = seen | {l}
        byty = self.len_of_ty(f.local_ty(l))
        if byty:
            return byty
        ds = f.reaching_defs(l, pos)
        if len(ds) != 1:
            return UNK
        d = ds[0]
        dpos = (d["bb"], d["si"] if d["si"] is not None else f.INF)
        if d["kind"] == "assign":
            rv = d["rv"]
            if rv[0] == "use":
                return self.len_of(f, rv[1], dpos, env, depth + 1, stack, seen)
            if rv[0] in ("ref", "rawptr"):
                return self.len_of(f, ["cp", rv[2]], dpos, env, depth + 1, stack, seen)
            if rv[0] == "cast":
                r = self.len_of(f, rv[2], dpos, env, depth + 1, stack, seen)
                return r
            if rv[0] == "repeat":
                try:
                    n = int(rv[2])
                    return (n, n)
                except ValueError:
                    return UNK
            return UNK
        if d["kind"] == "call":
            t = d["term"]
            c = callee_of(t)
            name = (c or {}).get("name")
            a = t["a"]
            if name in ("deref", "deref_mut", "as_slice", "as_mut_slice", "as_ref", "as_mut", "borrow", "to_vec", "clone", "iter", "to_owned", "into_boxed_slice") and a:
                return self.len_of(f, a[0], dpos, env, depth + 1, stack, seen)
            if name in ("index", "index_mut") and len(a) == 2:
                rng = self._range_of(f, a[1], dpos, env, depth, stack)
                if rng:
                    kind, s0, e0 = rng
                    base = self.len_of(f, a[0], dpos, env, depth + 1, stack, seen)
                    if kind == "to" and e0:
                        return e0
                    if kind == "range" and s0 and e0:
                        return (max(e0[0] - s0[1], 0), max(e0[1] - s0[0], 0))
                    if kind == "from" and s0 and base:
                        return (max(base[0] - s0[1], 0), max(base[1] - s0[0], 0))
                return UNK
            if name == "from_elem" and len(a) == 2:
                return self.eval_op(f, a[1], dpos, env, depth + 1, stack) or UNK
            if name in ("to_le_bytes", "to_be_bytes", "to_ne_bytes", "as_bytes", "unwrap", "expect"):
                dty = f.local_ty(t["dest"][0]) if t.get("dest") else ""
                return self.len_of_ty(dty) or UNK
        return UNK

    def _range_of(self, f, op, pos, env, depth, stack):
        """decode a Range / RangeTo / RangeFrom operand: (kind, start iv, end iv)."""
        l = op_local(op)
        if l is None:
            return None
        for x in f.copy_chain(l):
            for d in f.defs(x):
                if d["kind"] == "assign" and d["rv"][0] == "agg":
                    adt = d["rv"][1].get("adt", "")
                    ops = d["rv"][2]
                    dpos = (d["bb"], d["si"])
                    if adt == "core::ops::range::RangeTo" and len(ops) == 1:
                        return ("to", None, self.eval_op(f, ops[0], dpos, env, depth + 1, stack))
                    if adt == "core::ops::range::Range" and len(ops) == 2:
                        return ("range", self.eval_op(f, ops[0], dpos, env, depth + 1, stack),
                                self.eval_op(f, ops[1], dpos, env, depth + 1, stack))
                    if adt == "core::ops::range::RangeFrom" and len(ops) == 1:
                        return ("from", self.eval_op(f, ops[0], dpos, env, depth + 1, stack), None)
        return None

    def _bin(self, op, a, b, ty):
        tr = type_range(ty)
        if op in CMP_NEG:
            r = decide(op, a, b)
            return (0, 1) if r is None else ((1, 1) if r else (0, 0))
        if a is None or b is None:
            if op == "BitAnd":
                known = a if a is not None else b
                if known is not None and known[0] >= 0:
                    return (0, known[1])
            if op == "Rem" and b is not None and b[0] >= 1:
                return (0, b[1] - 1)
            return tr
        if op == "Add":
            r = (a[0] + b[0], a[1] + b[1])
        elif op == "Sub":
            r = (a[0] - b[1], a[1] - b[0])
        elif op == "Mul":
            c = [a[0] * b[0], a[0] * b[1], a[1] * b[0], a[1] * b[1]]
            r = (min(c), max(c))
        elif op == "Div":
            if b[0] >= 1 and a[0] >= 0:
                r = (a[0] // b[1], a[1] // b[0])
            else:
                return tr
        elif op == "Rem":
            if b[0] >= 1 and a[0] >= 0:
                r = (0, min(a[1], b[1] - 1))
            else:
                return tr
        elif op == "BitAnd":
            if a[0] >= 0 and b[0] >= 0:
                r = (0, min(a[1], b[1]))
            else:
                return tr
        elif op == "BitOr" or op == "BitXor":
            if a[0] >= 0 and b[0] >= 0:
                m = max(a[1], b[1])
                r = (0, (1 << m.bit_length()) - 1)
            else:
                return tr
        elif op == "Shl":
            if a[0] >= 0 and 0 <= b[0] and b[1] < 200:
                r = (a[0] << b[0], a[1] << b[1])
            else:
                return tr
        elif op == "Shr":
            if a[0] >= 0 and 0 <= b[0] and b[1] < 200:
                r = (a[0] >> b[1], a[1] >> b[0])
            else:
                return tr
        else:
            return tr
        if tr and (r[0] < tr[0] or r[1] > tr[1]):
            # wrap-around possible (the overflow itself is a separate obligation): stay inside the type
            return (max(r[0], tr[0]), min(r[1], tr[1])) if op in ("Add", "Mul", "Shl") and r[0] >= tr[0] else tr
        return r

    def _eval_call(self, f, t, pos, env, depth, stack):
        c = callee_of(t)
        dest_ty = f.local_ty(t["dest"][0]) if t.get("dest") else ""
        tr = type_range(dest_ty)
        if c is None:
            return tr
        name = c.get("name") or ""
        bits = type_bits(dest_ty)
        if c["krate"] in ("core", "alloc", "std"):
            if name in RET_RANGE_BY_NAME and t["a"]:
                aty = f.local_ty(op_local(t["a"][0])) if op_local(t["a"][0]) is not None else (op_const(t["a"][0]) or {}).get("ty", "")
                ab = type_bits(aty.lstrip("&")) or 64
                r = RET_RANGE_BY_NAME[name](ab)
                if name == "ilog2":
                    a0 = self.eval_op(f, t["a"][0], pos, env, depth, stack)
                    if a0 is not None and a0[0] >= 1:
                        r = (a0[0].bit_length() - 1, a0[1].bit_length() - 1)
                if name == "trailing_zeros":
                    a0 = self.eval_op(f, t["a"][0], pos, env, depth, stack)
                    if a0 is not None and a0[0] >= 1:
                        r = (0, ab - 1)
                return r
            if name == "contains" and len(t["a"]) == 2 and "RangeInclusive" in (c.get("rfull") or c["full"]):
                # (LO..=HI).contains(&x) on decided values
                def deref(op):
                    l = op_local(op)
                    for _ in range(4):
                        ds = f.defs(l) if l is not None else []
                        if len(ds) == 1 and ds[0]["kind"] == "assign" and ds[0]["rv"][0] == "ref":
                            pl = ds[0]["rv"][2]
                            if len(pl) == 1:
                                return ["cp", pl]
                            if len(pl) == 2 and pl[1] == "*":
                                l = pl[0]
                                continue
                        if len(ds) == 1 and ds[0]["kind"] == "assign" and ds[0]["rv"][0] == "use" and op_place(ds[0]["rv"][1]) and len(op_place(ds[0]["rv"][1])) == 1:
                            l = op_local(ds[0]["rv"][1])
                            continue
                        break
                    return None
                xr, rr = deref(t["a"][1]), deref(t["a"][0])
                if xr is not None:
                    xv = self.eval_op(f, xr, pos, env, depth, stack)
                    rng = self._range_bounds(f, rr if rr is not None else t["a"][0], pos, env, depth, stack) or \
                        self._range_bounds(f, t["a"][0], pos, env, depth, stack)
                    if xv is not None and rng is not None:
                        if rng[0] <= xv[0] and xv[1] <= rng[1]:
                            return (1, 1)
                        if xv[1] < rng[0] or xv[0] > rng[1]:
                            return (0, 0)
                return (0, 1)
            if name == "is_power_of_two" and t["a"]:
                a0 = self.eval_op(f, t["a"][0], pos, env, depth, stack)
                if a0 is not None and a0[0] == a0[1]:
                    v = a0[0]
                    return (1, 1) if v > 0 and v & (v - 1) == 0 else (0, 0)
                return (0, 1)
            if name == "len" and t["a"]:
                return self.len_of(f, t["a"][0], pos, env, depth + 1, stack)
            if name in ("capacity", "count"):
                return (0, (1 << 63) - 1)
            if name in ("min", "max") and len(t["a"]) == 2:
                a = self.eval_op(f, t["a"][0], pos, env, depth, stack)
                b = self.eval_op(f, t["a"][1], pos, env, depth, stack)
                if a is None or b is None:
                    if name == "min":
                        k = a if a is not None else b
                        return (tr[0], k[1]) if k is not None and tr else tr
                    return tr
                return (min(a[0], b[0]), min(a[1], b[1])) if name == "min" else (max(a[0], b[0]), max(a[1], b[1]))
            if name in ("from", "into", "try_from", "clone", "to_owned", "deref", "as_ref", "borrow") and len(t["a"]) == 1:
                a = self.eval_op(f, t["a"][0], pos, env, depth, stack)
                return clip(a, dest_ty) if a is not None and tr else tr
            if name == "next_power_of_two" and t["a"]:
                a = self.eval_op(f, t["a"][0], pos, env, depth, stack)
                if a is not None and tr:
                    hi = 1 << max(a[1] - 1, 0).bit_length() if a[1] > 0 else 1
                    return (max(1, a[0]), min(hi, tr[1]))
                return (1, tr[1]) if tr else None
            if name == "pow" and len(t["a"]) == 2:
                a = self.eval_op(f, t["a"][0], pos, env, depth, stack)
                b = self.eval_op(f, t["a"][1], pos, env, depth, stack)
                if a and b and a[0] >= 0 and b[1] <= 256 and tr:
                    hi = a[1] ** b[1]
                    return (a[0] ** b[0], hi) if hi <= tr[1] else tr
                return tr
            if name in ("saturating_sub", "saturating_add") and len(t["a"]) == 2 and tr:
                a = self.eval_op(f, t["a"][0], pos, env, depth, stack)
                b = self.eval_op(f, t["a"][1], pos, env, depth, stack)
                if a and b:
                    if name == "saturating_sub":
                        return (max(tr[0], a[0] - b[1]), max(tr[0], a[1] - b[0]))
                    return (min(tr[1], a[0] + b[0]), min(tr[1], a[1] + b[1]))
                return tr
            if name == "div_ceil" and len(t["a"]) == 2:
                a = self.eval_op(f, t["a"][0], pos, env, depth, stack)
                b = self.eval_op(f, t["a"][1], pos, env, depth, stack)
                if a and b and b[0] >= 1:
                    return (0, -(-a[1] // b[0]))
                return tr
            return tr
        # ByteReader leaf reads
        if c.get("trait") == "winter_utils::serde::byte_reader::ByteReader":
            return tr
        # workspace callee: summarise small functions on the caller's argument intervals
        if tr is None:
            return None
        targets = self.p.call_targets(c)
        if not targets or depth >= self.max_depth or len(targets) > 4:
            return tr
        out = None
        first = True
        for k in targets:
            g = self.p.funcs[k]
            if len(g.blocks) > 60 or (k, ) in self._summ_busy:
                return tr
            cenv = {}
            for i, a in enumerate(t["a"]):
                cenv[i + 1] = self.eval_op(f, a, pos, env, depth + 1, stack)
            if (f.key, k) in stack:
                return tr
            v = self.summary(g, cenv, depth + 1, stack | {(f.key, k)})
            out = v if first else join(out, v)
            first = False
            if out is None:
                return tr
        return meet(out, tr) if out is not None else tr

    def summary(self, g, cenv, depth, stack):
        """interval of g's return value given parameter intervals."""
        rets = g.return_blocks()
        if not rets:
            return None
        tr = type_range(g.local_ty(0)) if g.locals else None
        if tr is None:
            return None
        env = {k: v for k, v in cenv.items() if v is not None}
        # fill missing params with type ranges
        for i in range(1, g.argc + 1):
            if i not in env:
                r = type_range(g.local_ty(i))
                if r:
                    env[i] = r
        out = None
        first = True
        for rb in rets:
            v = self.eval_local(g, 0, (rb, g.INF), env, depth, stack)
            out = v if first else join(out, v)
            first = False
        return out if out is not None else tr

    # ---- struct field invariants (A4) --------------------------------------------------------
    def construction_sites(self):
        if self._cons_sites is None:
            cs = defaultdict(list)
            for key, f in self.p.funcs.items():
                if f.crate == "examples":
                    continue
                for bi, b in enumerate(f.blocks):
                    if b.get("cleanup"):
                        continue
                    for s in b["s"]:
                        if s["k"] == "assign" and s["rv"][0] == "agg" and s["rv"][1].get("k") == "adt":
                            cs[s["rv"][1]["adt"]].append((f, s))
            self._cons_sites = cs
        return self._cons_sites

    def field_interval(self, adt_key, field):
        k = (adt_key, field)
        if k in self.field_inv:
            return self.field_inv[k]
        if k in self._field_busy:
            return None
        adt = self.p.adts.get(adt_key)
        if not adt or adt["kind"] != "struct":
            return None
        fd = [x for x in adt["variants"][0]["fields"] if x["name"] == field]
        if not fd:
            return None
        tr = type_range(fd[0]["ty"])
        if tr is None:
            self.field_inv[k] = None
            return None
        self._field_busy.add(k)
        try:
            sites = self.construction_sites().get(adt_key, [])
            out = None
            first = True
            for f, s in sites:
                names = s["rv"][1]["fields"]
                if field not in names:
                    continue
                op = s["rv"][2][names.index(field)]
                if self._is_field_copy(f, op, field):
                    continue  # clone / struct-update copy of the same field: inductively inside the invariant
                v = self.eval_op(f, op, s["_pos"], None, 1, frozenset())
                if v is None:
                    v = tr
                out = v if first else join(out, v)
                first = False
            # direct field writes `x.field = ..` anywhere in the workspace
            for key, f in self.p.funcs.items():
                if f.crate == "examples":
                    continue
                for bi, b in enumerate(f.blocks):
                    for s in b["s"]:
                        if s["k"] == "assign" and len(s["p"]) > 1 and ir.place_fields(s["p"])[-1:] == [field]:
                            if self._owner_adt(f, s["p"]) == adt_key:
                                v = None
                                if s["rv"][0] == "use":
                                    v = self.eval_op(f, s["rv"][1], s["_pos"], None, 1, frozenset())
                                out = join(out, v if v is not None else tr) if not first else (v if v is not None else tr)
                                first = False
            if first:
                out = tr
            self.field_inv[k] = meet(out, tr)
        finally:
            self._field_busy.discard(k)
        return self.field_inv[k]

    def _is_field_copy(self, f, op, field):
        """operand is `x.field` or `Clone::clone(&x.field)` for the same field name."""
        l = op_local(op)
        if l is None:
            return False
        pl0 = op_place(op)
        if len(pl0) > 1:
            return ir.place_fields(pl0)[-1:] == [field]
        for x in f.copy_chain(l):
            for d in f.defs(x):
                if d["kind"] == "assign" and d["rv"][0] in ("use", "ref"):
                    pl = op_place(d["rv"][1]) if d["rv"][0] == "use" else d["rv"][2]
                    if pl and ir.place_fields(pl)[-1:] == [field]:
                        return True
                if d["kind"] == "call" and (callee_of(d["term"]) or {}).get("name") == "clone" and d["term"]["a"]:
                    if self._is_field_copy(f, d["term"]["a"][0], field):
                        return True
        return False

    # ---- parameter environments -----------------------------------------------------------
    def compute_param_env(self, entry_keys, reach, rounds=4):
        """join of argument intervals over every call site in `reach`; entry params = type range."""
        self.param_env = {}
        entry = set(entry_keys)
        for _ in range(rounds):
            new = defaultdict(dict)
            for k in reach:
                f = self.p.funcs.get(k)
                if f is None:
                    continue
                for bi, t in f.calls():
                    if f.is_cleanup(bi):
                        continue
                    c = callee_of(t)
                    if not c:
                        continue
                    for tk in self.p.call_targets(c):
                        if tk not in reach or tk in entry:
                            continue
                        g = self.p.funcs[tk]
                        for i, a in enumerate(t["a"]):
                            pl = i + 1
                            if pl > g.argc:
                                break
                            tr = type_range(g.local_ty(pl))
                            if tr is None:
                                continue
                            v = self.eval_op(f, a, (bi, f.INF), None, 1, frozenset())
                            if v is None:
                                v = tr
                            cur = new[tk].get(pl)
                            new[tk][pl] = v if cur is None else join(cur, v)
            # closures and functions only reached through closure aggregates keep type ranges
            changed = False
            for k, e in new.items():
                if self.param_env.get(k) != e:
                    changed = True
            self.param_env = dict(new)
            self._guards_cache_reset()
            if not changed:
                break
        return self.param_env

    def _guards_cache_reset(self):
        self.field_inv = {}
