"""A6 — codec schema extraction: the ordered byte-level I/O events of a Serializable::write_into or
Deserializable::read_from body, along every success path, with loops collapsed."""
import re
from . import ir
from .ir import callee_of, op_local, op_place

BW = "winter_utils::serde::byte_writer::ByteWriter"
BR = "winter_utils::serde::byte_reader::ByteReader"
SER = "winter_utils::serde::Serializable"
DES = "winter_utils::serde::Deserializable"

PRIMS = {"u8", "u16", "u32", "u64", "u128", "usize", "bool"}
W_PRIM = {"write_u8": "u8", "write_u16": "u16", "write_u32": "u32", "write_u64": "u64", "write_u128": "u128",
          "write_usize": "usize", "write_bool": "bool"}
R_PRIM = {"read_u8": "u8", "read_u16": "u16", "read_u32": "u32", "read_u64": "u64", "read_u128": "u128",
          "read_usize": "usize", "read_bool": "bool"}


def norm_ty(t):
    t = t.strip()
    while t.startswith("&"):
        t = t[1:].lstrip()
        if t.startswith("'"):
            t = t.split(" ", 1)[1] if " " in t else t
        if t.startswith("mut "):
            t = t[4:]
    t = re.sub(r"\b[a-z_0-9]+::", "", t)          # strip module paths
    t = re.sub(r"<(\w+) as Hasher>::Digest", r"Digest", t)
    return t


def tok_nested(ty):
    n = norm_ty(ty)
    if n in PRIMS:
        return (n,)
    m = re.match(r"^\[u8; (\d+)\]$", n)
    if m:
        return ("bytes", "const:" + m.group(1))
    return ("nested", n)


def event_of(f, bi, t):
    """token for one call terminator, or None."""
    c = callee_of(t)
    if not c:
        return None
    # a call inside a spliced generic helper: instantiate the helper's type parameters
    sub = f.blocks[bi].get("subst") if bi < len(f.blocks) else None
    if sub and c.get("args"):
        pat = re.compile(r"\b(%s)\b" % "|".join(re.escape(k) for k in sorted(sub, key=len, reverse=True)))
        c = dict(c, args=[pat.sub(lambda m: sub[m.group(1)], a) if isinstance(a, str) else a for a in c["args"]])
    name = c.get("name")
    tr = c.get("trait")
    if tr == BW:
        if name in W_PRIM:
            return ("W", (W_PRIM[name],), bi)
        if name == "write_bytes":
            return ("W", ("bytes", "?"), bi)
        if name == "write_many":
            return ("W", ("many", norm_ty(c["args"][-1]) if len(c["args"]) > 1 else "?"), bi)
        if name == "write":
            return ("W", tok_nested(c["args"][-1]), bi)
        return None
    if tr == BR:
        if name in R_PRIM:
            return ("R", (R_PRIM[name],), bi)
        if name in ("read_vec", "read_slice", "read_string"):
            return ("R", ("bytes", "?"), bi)
        if name == "read_array":
            return ("R", ("bytes", "const:" + c["args"][-1]), bi)
        if name == "read_many":
            return ("R", ("many", norm_ty(c["args"][-1])), bi)
        if name == "read":
            return ("R", tok_nested(c["args"][-1]), bi)
        return None
    if tr == SER and name == "write_into":
        return ("W", tok_nested(c["args"][0]), bi)
    if tr == SER and name == "write_batch_into":
        return ("W", ("many", norm_ty(c["args"][0])), bi)
    if tr == DES and name == "read_from":
        return ("R", tok_nested(c["args"][0]), bi)
    if tr == DES and name == "read_batch_from":
        return ("R", ("many", norm_ty(c["args"][0])), bi)
    # `(0..n).map(|_| T::read_from(source)).collect::<Result<Vec<_>, _>>()?` and for_each-style writers:
    # an iterator adapter whose closure performs reads / writes is a loop over the closure's events
    if name in ("map", "for_each", "try_for_each") and c["krate"] in ("core", "alloc", "std") and len(t["a"]) == 2 and not _IN_CLOSURE[0]:
        sl = f.slice_of_operand(t["a"][1], at=(bi, f.INF)) if op_local(t["a"][1]) is not None else None
        for ck in (sl["closures"] if sl else ()):
            cf = f.prog.funcs.get(ck)
            if cf is None:
                continue
            _IN_CLOSURE[0] = True
            try:
                ps = paths(cf)
            finally:
                _IN_CLOSURE[0] = False
            ps = [x for x in ps if x]
            if len(ps) == 1:
                kinds = {"R" if any((callee_of(cf.term(b)) or {}).get("trait") in (BR, DES) for b, _ in cf.calls()) else "W"}
                return (kinds.pop(), ("loop", tuple(ps[0])), bi)
    return None


_IN_CLOSURE = [False]


def _back_edges(f):
    """(src, header) back edges found by DFS over normal-flow successors."""
    color = {}
    out = set()
    stack = [(0, iter(f.succ(0)))]
    color[0] = 1
    while stack:
        b, it = stack[-1]
        adv = False
        for tg, lab in it:
            if color.get(tg) == 1:
                out.add((b, tg))
            elif tg not in color:
                color[tg] = 1
                stack.append((tg, iter(f.succ(tg))))
                adv = True
                break
        if not adv:
            color[b] = 2
            stack.pop()
    return out


def success_blocks(f):
    """blocks from which a normal (non-error, non-panic) exit is reachable."""
    exits = [e["bb"] for e in f.exits() if e["kind"] not in ("err", "residual")]
    ret_ty = f.raw.get("ret", "")
    if not ret_ty.startswith("core::result::Result"):
        exits = f.return_blocks()
    good = set()
    for b in range(len(f.blocks)):
        if f.is_cleanup(b):
            continue
        if b in exits or f.can_reach(b, exits):
            good.add(b)
    return good, set(exits)


def paths(f, max_paths=48):
    """list of event-token paths along success paths, loops collapsed into ('loop', (tokens..))."""
    good, exits = success_blocks(f)
    back = _back_edges(f)
    headers = {h for _, h in back}
    results = []

    def loop_body(h):
        """tokens of one iteration of the loop headed at h (first path only), and its exit blocks."""
        body = {h}
        for src, hh in back:
            if hh != h:
                continue
            # natural loop: nodes that can reach src without passing h
            stack = [src]
            while stack:
                x = stack.pop()
                if x in body:
                    continue
                body.add(x)
                for pb, _ in f.pred(x):
                    stack.append(pb)
        toks = []
        seen = set()
        cur = h
        # walk one iteration along the first in-body successor chain
        while cur is not None and cur not in seen:
            seen.add(cur)
            ev = event_of(f, cur, f.term(cur)) if f.term(cur)["k"] == "call" else None
            if ev:
                toks.append(ev[1])
            nxt = None
            for tg, lab in f.succ(cur):
                if tg in body and tg in good and tg != h and tg not in seen:
                    if tg in headers and tg != h:
                        inner, inner_exits = loop_body(tg)
                        toks.append(("loop", tuple(inner)))
                        seen.add(tg)
                        for e in inner_exits:
                            if e in body and e not in seen:
                                nxt = e
                                break
                        if nxt is not None:
                            break
                        continue
                    nxt = tg
                    break
            cur = nxt
        ex = []
        for b in body:
            for tg, lab in f.succ(b):
                if tg not in body and tg in good:
                    ex.append(tg)
        return toks, ex

    def walk(b, acc, visited):
        if len(results) >= max_paths:
            return
        while True:
            if b in visited:
                return
            visited = visited | {b}
            if b in headers:
                toks, ex = loop_body(b)
                if toks:
                    acc = acc + [("loop", tuple(toks))]
                ex = [e for e in dict.fromkeys(ex)]
                if not ex:
                    if b in exits:
                        results.append(acc)
                    return
                if len(ex) == 1:
                    b = ex[0]
                    continue
                for e in ex:
                    walk(e, list(acc), visited)
                return
            t = f.term(b)
            if t["k"] == "call":
                ev = event_of(f, b, t)
                if ev:
                    acc = acc + [ev[1]]
            if b in exits and t["k"] in ("return",):
                results.append(acc)
                return
            succ = [tg for tg, lab in f.succ(b) if tg in good]
            if not succ:
                if b in exits or t["k"] == "return":
                    results.append(acc)
                return
            if b in exits and t["k"] != "return":
                pass
            if len(succ) == 1:
                b = succ[0]
                continue
            for tg in dict.fromkeys(succ):
                walk(tg, list(acc), visited)
            return
    walk(0, [], frozenset())
    # dedupe
    uniq = []
    for r in results:
        if r not in uniq:
            uniq.append(r)
    return uniq


def normalise(path):
    """canonical form: loop(nested T) == many T; drop zero-information tokens."""
    out = []
    for tok in path:
        if tok[0] == "loop":
            inner = normalise(list(tok[1]))
            if len(inner) == 1 and inner[0][0] in ("nested",) :
                out.append(("many", inner[0][1]))
            elif len(inner) == 1 and inner[0][0] in PRIMS:
                out.append(("many", inner[0][0]))
            elif not inner:
                continue
            else:
                out.append(("loop", tuple(inner)))
        elif tok[0] == "many":
            out.append(("many", norm_ty(tok[1])))
        elif tok[0] == "bytes":
            out.append(("bytes",))
        else:
            out.append(tok)
    return out


def fmt(path):
    def one(t):
        if t[0] == "loop":
            return "loop{" + " ".join(one(x) for x in t[1]) + "}"
        return t[0] + ("<" + t[1] + ">" if len(t) > 1 and t[0] in ("nested", "many") else "")
    return " ".join(one(t) for t in path) or "(nothing)"
