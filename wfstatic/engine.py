"""Rule engine: obligations, floors, known findings, evidence, CLI glue."""
import importlib, json, os, sys, time, traceback

from . import build, ir

VERIF = build.VERIF
EVIDENCE_DIR = os.environ.get("WF_EVIDENCE_DIR") or os.path.join(VERIF, "evidence")
KNOWN = os.path.join(VERIF, "known_findings.json")


class Ctx:
    def __init__(self, prop, tier="quick", repo=None):
        self.prop = prop
        self.tier = tier
        self.repo = repo or build.REPO
        self._progs = {}
        self.obligations = []
        self.notes = []
        self.assumptions = []
        self.floors = {}
        self.rule_texts = {}
        self.configs_used = set()
        self.facts_key = build.tree_hash(self.repo)[0]

    # -- programs -------------------------------------------------------------------------
    def prog(self, cfg="default"):
        if cfg not in self._progs:
            d = build.build(cfg, repo=self.repo)
            self._progs[cfg] = ir.Program(d)
            self.configs_used.add(cfg)
        return self._progs[cfg]

    @property
    def p(self):
        return self.prog("default")

    # -- recording ------------------------------------------------------------------------
    def rule(self, rid, text, floor=0):
        self.rule_texts[rid] = text
        self.floors[rid] = floor

    def ob(self, rule, instance, ok, how, func=None, at=None, nontrivial=True, cfg="default"):
        """record one obligation. key is line-free."""
        fkey = func.key if isinstance(func, ir.Func) else (func or "")
        key = "%s/%s/%s@%s" % (self.prop, rule, instance, fkey)
        if cfg != "default":
            key += "[%s]" % cfg
        if at is None and isinstance(func, ir.Func):
            at = func.at
        self.obligations.append({
            "rule": rule, "instance": instance, "function": fkey,
            "site": ir.line_of(at) if at else None,
            "verdict": "discharged" if ok else "violation",
            "how": how, "key": key, "nontrivial": bool(nontrivial), "cfg": cfg,
        })
        return ok

    def anchor_lost(self, rule, what, cfg="default"):
        key = "%s/%s/anchor-lost@%s" % (self.prop, rule, what)
        self.obligations.append({
            "rule": rule, "instance": "anchor-lost", "function": "", "site": None,
            "verdict": "violation", "how": "anchor lost: %s (a function, call site or constant this "
            "rule is anchored on is gone or renamed; the rule fails closed)" % what,
            "key": key, "nontrivial": False, "cfg": cfg})

    def note(self, s):
        self.notes.append(s)

    def assume(self, s):
        if s not in self.assumptions:
            self.assumptions.append(s)

    def guard(self, rule, fn, *a, **kw):
        """run one rule function; AnchorLost and unexpected shape errors fail closed."""
        try:
            fn(self, *a, **kw)
        except ir.AnchorLost as e:
            self.anchor_lost(rule, str(e))
        except (KeyError, IndexError, AssertionError, ValueError, TypeError) as e:
            tb = traceback.format_exc().strip().splitlines()
            self.anchor_lost(rule, "%s: %s (%s)" % (type(e).__name__, e, tb[-3].strip() if len(tb) > 2 else ""))


def load_known():
    if not os.path.exists(KNOWN):
        return {"open": [], "fixed": []}
    with open(KNOWN) as fh:
        return json.load(fh)


def finish(ctx, t0, seed=0):
    """apply floors + known findings, write evidence, print verdict lines; return exit code."""
    prop = ctx.prop
    # floors
    counts = {}
    for o in ctx.obligations:
        if o["instance"] != "anchor-lost":
            counts[o["rule"]] = counts.get(o["rule"], 0) + 1
    for rid, floor in ctx.floors.items():
        if counts.get(rid, 0) < floor:
            ctx.anchor_lost(rid, "instance count %d below floor %d" % (counts.get(rid, 0), floor))
    known = load_known()
    open_keys = {e["key"]: e for e in known.get("open", []) if e.get("property") == prop}
    violations, known_hit = [], []
    import re as _re
    for o in ctx.obligations:
        if o["verdict"] == "violation":
            base_key = _re.sub(r"\[(concurrent|nostd)\]$", "", o["key"])
            if base_key in open_keys:
                o["key"] = base_key
            if o["key"] in open_keys:
                o["verdict"] = "known-finding"
                known_hit.append(o)
            else:
                violations.append(o)
    stale = [k for k in open_keys if k not in {o["key"] for o in known_hit}]
    discharged = [o for o in ctx.obligations if o["verdict"] == "discharged"]
    distinct_nontrivial = len({o["key"] for o in ctx.obligations if o["nontrivial"]})
    os.makedirs(EVIDENCE_DIR, exist_ok=True)
    os.makedirs(os.path.join(EVIDENCE_DIR, "replay"), exist_ok=True)
    samples = []
    seen_rules = set()
    for o in ctx.obligations:  # one per rule first, then fill
        if o["rule"] not in seen_rules:
            seen_rules.add(o["rule"])
            samples.append(o)
    for o in ctx.obligations:
        if len(samples) >= 24:
            break
        if o not in samples:
            samples.append(o)
    funcs = sorted({o["function"] for o in ctx.obligations if o["function"]})
    ev = {
        "property_id": prop,
        "tier": ctx.tier,
        "seed": seed,
        "level": "other",
        "coverage": {
            "explanation": "Static analysis of /repo's current source (MIR facts from a rustc_private "
                           "driver, no execution). Rules applied: " +
                           " | ".join("%s: %s" % (k, v) for k, v in sorted(ctx.rule_texts.items())),
            "evaluations": len(ctx.obligations),
            "distinct_nontrivial": distinct_nontrivial,
            "rule": "one evaluation = one rule instance (obligation) decided on the current tree; "
                    "non-trivial = discharged by a named guard, dominance fact, provenance fact, "
                    "interval, schema node pair or certificate (not a mere existence check); distinct "
                    "by line-free obligation key",
            "obligations": len(ctx.obligations),
            "discharged": len(discharged),
            "samples": [{k: o[k] for k in ("rule", "instance", "function", "site", "verdict", "how")} for o in samples],
            "functions_analysed": funcs,
            "configs": sorted(ctx.configs_used),
            "facts_tree_hash": ctx.facts_key,
            "floors": ctx.floors,
            "instances_per_rule": counts,
            "known_findings_hit": [o["key"] for o in known_hit],
            "violation_keys": [o["key"] for o in violations],
            "notes": ctx.notes,
            "exhaustive": False,
        },
        "assumptions": ctx.assumptions,
        "wall_s": round(time.time() - t0, 2),
        "violations": len(violations),
    }
    with open(os.path.join(EVIDENCE_DIR, prop + ".json"), "w") as fh:
        json.dump(ev, fh, indent=1)
    for o in known_hit:
        e = open_keys[o["key"]]
        print("KNOWN-FINDING: property=%s %s %s" % (prop, o["key"], e.get("what", o["how"])))
    for k in stale:
        sys.stderr.write("note: known finding %s no longer reproduces (stale entry)\n" % k)
    rc = 0
    for i, o in enumerate(violations):
        rp = os.path.join(EVIDENCE_DIR, "replay", "%s-%d.json" % (prop, i))
        with open(rp, "w") as fh:
            json.dump(o, fh, indent=1)
        print("%s: %s [%s] %s %s -- %s" % (o["site"] or "-", prop, o["rule"], o["instance"], o["function"], o["how"]))
        print("VIOLATION property=%s replay=%s" % (prop, rp))
        rc = 1
    print("%s %s: %d obligations, %d discharged, %d known findings, %d violations, %.1fs" % (
        prop, ctx.tier, len(ctx.obligations), len(discharged), len(known_hit), len(violations), time.time() - t0))
    return rc


def selftest_obligations(ctx):
    """thorough tier: the rule set must still fire on every one-instance-broken variant recorded for
    this property (and stay silent on the behaviour-preserving ones)."""
    import glob
    from . import selftest
    if os.environ.get("WF_REPO"):
        return  # never recurse from inside a self-test run
    ctx.rule("SELFTEST", "every recorded mutant of this property is still caught under its expected key; behaviour-preserving variants stay silent", 0)
    patches = []
    for pth in sorted(glob.glob(os.path.join(VERIF, "selftest", "mutants", "*.patch")) +
                      glob.glob(os.path.join(VERIF, "seeded", "*", "patch.diff"))):
        hdr = selftest.read_header(pth)
        # the first property named in the header owns the expected key
        if ctx.prop == hdr.get("property", "").split(",")[0].strip():
            patches.append(pth)
    import concurrent.futures
    with concurrent.futures.ThreadPoolExecutor(max_workers=int(os.environ.get("WF_JOBS", "6"))) as ex:
        for name, ok, msg, dt in ex.map(lambda q: selftest.run_one(q, only_prop=ctx.prop), patches):
            ctx.ob("SELFTEST", name, ok, msg, "selftest", nontrivial=ok)


def run_property(prop, tier="quick", repo=None, seed=0):
    t0 = time.time()
    ctx = Ctx(prop, tier, repo)
    try:
        mod = importlib.import_module("wfstatic.rules.%s" % prop.lower())
        mod.run(ctx)
        if tier == "thorough":
            if hasattr(mod, "thorough"):
                mod.thorough(ctx)
            selftest_obligations(ctx)
    except Exception as e:  # build failure etc: fail closed, but as a broken check, loudly
        traceback.print_exc()
        ctx.anchor_lost("engine", "%s: %s" % (type(e).__name__, e))
    return finish(ctx, t0, seed)
