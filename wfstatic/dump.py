"""Pretty-print MIR facts of functions matching a regex (debug aid for rule authors)."""
import sys
from . import build, ir


def opstr(f, op):
    if op[0] in ("cp", "mv"):
        return ("move " if op[0] == "mv" else "") + ir.place_str(f, op[1]) + "[_%d]" % op[1][0]
    if op[0] == "k":
        c = op[1]
        if "fn" in c:
            return "fn " + (c["fn"].get("rfull") or c["fn"]["full"])
        if "v" in c:
            return "const %s: %s" % (c["v"], c["ty"])
        if "uneval" in c:
            return "const " + c["uneval"]
        return "const <%s>" % c["ty"]
    if op[0] == "pl":
        return ir.place_str(f, op[1]) + "[_%d]" % op[1][0]
    return str(op)


def rvstr(f, rv):
    k = rv[0]
    if k == "use":
        return opstr(f, rv[1])
    if k == "ref":
        return "&%s %s" % (rv[1], opstr(f, ["pl", rv[2]]))
    if k == "rawptr":
        return "&raw %s %s" % (rv[1], opstr(f, ["pl", rv[2]]))
    if k == "cast":
        return "%s as %s (%s, from %s)" % (opstr(f, rv[2]), rv[3], rv[1], rv[4])
    if k == "bin":
        return "%s(%s, %s)" % (rv[1], opstr(f, rv[2]), opstr(f, rv[3]))
    if k == "un":
        return "%s(%s)" % (rv[1], opstr(f, rv[2]))
    if k == "discr":
        return "discriminant(%s)" % opstr(f, ["pl", rv[1]])
    if k == "agg":
        a = rv[1]
        nm = a.get("adt", a.get("def", a["k"]))
        if a["k"] == "adt":
            nm += "::" + a["variant"]
        return "%s{%s}" % (nm, ", ".join(opstr(f, o) for o in rv[2]))
    if k == "repeat":
        return "[%s; %s]" % (opstr(f, rv[1]), rv[2])
    return str(rv)


def dump(f, out=sys.stdout):
    w = out.write
    w("fn %s  @ %s  argc=%d\n" % (f.key, f.at, f.argc))
    for i, l in enumerate(f.locals):
        w("    let _%d: %s%s\n" % (i, l["ty"], "  // " + l["name"] if l.get("name") else ""))
    for bi, b in enumerate(f.blocks):
        w("  bb%d%s:\n" % (bi, " (cleanup)" if b.get("cleanup") else ""))
        for s in b["s"]:
            if s["k"] == "assign":
                w("      %s[_%d] = %s   // %s %s\n" % (ir.place_str(f, s["p"]), s["p"][0], rvstr(f, s["rv"]),
                                                  ir.line_of(s["sp"]["at"]).split("/")[-1], ",".join(s["sp"].get("mac", []))))
            else:
                w("      %s\n" % s)
        t = b["t"]
        k = t["k"]
        loc = ir.line_of(t["sp"]["at"]).split("/")[-1] + " " + ",".join(t["sp"].get("mac", []))
        if k == "call":
            w("      %s = %s(%s) -> %s   // %s\n" % (opstr(f, ["pl", t["dest"]]), opstr(f, t["f"]),
                                                 ", ".join(opstr(f, a) for a in t["a"]),
                                                 "bb%s" % t["t"] if "t" in t else "!", loc))
        elif k == "switch":
            w("      switch %s [%s, else: bb%d]   // %s\n" % (opstr(f, t["d"]), ", ".join("%s: bb%d" % (v, bb) for v, bb in t["arms"]), t["else"], loc))
        elif k == "assert":
            w("      assert(%s == %s, %s(%s)) -> bb%d   // %s\n" % (opstr(f, t["c"]), t["exp"], t["ak"], ", ".join(opstr(f, a) for a in t["ao"]), t["t"], loc))
        elif k in ("goto",):
            w("      goto bb%d\n" % t["t"])
        elif k == "drop":
            w("      drop(%s) -> bb%d\n" % (opstr(f, ["pl", t["p"]]), t["t"]))
        else:
            w("      %s   // %s\n" % (k, loc))


if __name__ == "__main__":
    cfg = "default"
    args = sys.argv[1:]
    if args and args[0].startswith("--cfg="):
        cfg = args.pop(0)[6:]
    p = ir.Program(build.build(cfg))
    for pat in args:
        for f in p.fns_matching(pat):
            dump(f)
            print()
