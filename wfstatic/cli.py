import json, os, sys
from . import engine


def main(argv):
    if not argv:
        print(__doc__ or "usage: ./check <Cxx> [--tier quick|thorough] [--replay file]")
        return 2
    prop = argv[0]
    tier = os.environ.get("VERIF_TIER", "quick")
    replay = None
    i = 1
    while i < len(argv):
        if argv[i] == "--tier":
            tier = argv[i + 1]; i += 2
        elif argv[i] == "--replay":
            replay = argv[i + 1]; i += 2
        else:
            i += 1
    seed = int(os.environ.get("VERIF_SEED", "0") or 0)
    if prop == "selftest":
        from . import selftest
        return selftest.main(argv[1:])
    if replay:
        with open(replay) as fh:
            o = json.load(fh)
        print("replaying obligation %s" % o.get("key"))
        rc = engine.run_property(prop, tier, seed=seed)
        return rc
    return engine.run_property(prop, tier, seed=seed)
