"""Relational A4: agreement of two guard structures over the finite set of orderings.

A constructor and its decoder only *compare* their integer inputs with constants (and with sums of
each other).  The constants cut the input space into finitely many cells on which every guard has a
fixed truth value.  For representative points of the cells (each constant, its neighbours, the
type bounds) the accept / reject verdict of each function is decided by abstract interpretation of
its CFG with the inputs pinned (interval engine on singleton environments: comparisons become
decided, undecidable predicates keep both edges).  Nothing of winterfell is executed; the only
evaluation is of comparison guards and the integer arithmetic feeding them.
"""
import itertools
from collections import deque

from . import ir, intervals
from .ir import callee_of, op_local, op_const


def _clear(an):
    for k in ("_ef_cache", "_flow_cache", "_feas", "_acc_cache"):
        an.__dict__.pop(k, None)


def feasible_blocks(an, f, env=None):
    """blocks reachable from the entry along edges not contradicted by the (pinned) value ranges.
    Values with several definitions (booleans summarising checks) are joined over the definitions in
    feasible blocks only: the block set is computed as a decreasing fixpoint starting from all blocks."""
    if not an._has_bool_switches(f):
        return _feasible_once(an, f, env)
    prev = None
    saved = an.__dict__.get("feasible")
    try:
        for _ in range(5):
            cur = _feasible_once(an, f, env)
            if cur == prev:
                break
            prev = cur
            an.feasible = dict(saved or {})
            an.feasible[f.key] = cur
            _clear(an)
    finally:
        an.feasible = saved or {}
        _clear(an)
    return prev


def _feasible_once(an, f, env=None):
    seen = {0}
    dq = deque([0])
    while dq:
        b = dq.popleft()
        t = f.blocks[b]["t"]
        succ = f.succ(b)
        if t["k"] == "switch":
            iv = an.eval_op(f, t["d"], (b, f.INF - 1), env) if op_local(t["d"]) is not None else None
            if iv is not None and iv[1] - iv[0] < 64:
                arms = {int(v): tg for v, tg in t["arms"]}
                allowed = set()
                for v, tg in arms.items():
                    if iv[0] <= v <= iv[1]:
                        allowed.add((tg, str(v)))
                if not all(x in arms for x in range(iv[0], iv[1] + 1)):
                    allowed.add((t["else"], "else"))
                succ = [(tg, lab) for tg, lab in succ if (tg, lab) in allowed]
        for tg, lab in succ:
            if tg not in seen:
                seen.add(tg)
                dq.append(tg)
    return seen


def reject_blocks(an, f, fb):
    """feasible blocks that reject on values: explicit `Err(..)` returns and diverging calls (panics).
    `?` exits that merely propagate an I/O failure of a read are not value rejections."""
    out = set()
    for b in fb:
        t = f.blocks[b]["t"]
        if f.is_cleanup(b):
            continue
        if t["k"] == "call" and "t" not in t:
            out.add(b)
    for e in f.exits():
        if e["kind"] == "err" and e["bb"] in fb:
            out.add(e["bb"])
    return out


def verdict(an, f, accept_blocks, env=None, base_rejects=frozenset()):
    """'accept' | 'reject' | 'unknown' for the pinned inputs, relative to the reject blocks that are
    feasible at the baseline point (those depend on values that are not pinned)."""
    fb = feasible_blocks(an, f, env)
    acc = any(b in fb for b in accept_blocks)
    rej = reject_blocks(an, f, fb) - set(base_rejects)
    if not acc:
        return "reject", rej
    if not rej:
        return "accept", rej
    return "unknown", rej


def guard_constants(an, f, var_locals):
    """constants that the guards of f compare (a copy / cast / sum involving) each variable with."""
    out = {v: set() for v in var_locals}
    for g in an.guards(f):
        if g["kind"] not in ("cmp", "arm"):
            continue
        for mine, other in ((g["a"], g["b"]), (g["b"], g["a"])):
            if mine is None or other is None:
                continue
            l = op_local(mine)
            if l is None:
                continue
            oiv = an.eval_op(f, other, g["pos"]) if (other[0] == "k" or op_local(other) is not None) else None
            if oiv is None or oiv[0] != oiv[1]:
                continue
            sl = f.slice_of_operand(mine, at=g["pos"])
            for v in var_locals:
                if v in sl["locals"]:
                    out[v].add(oiv[0])
    return out


def candidates(consts, tr, extra=()):
    c = {tr[0], tr[0] + 1, tr[1], tr[1] - 1}
    for k in list(consts) + list(extra):
        for d in (-1, 0, 1):
            c.add(k + d)
    return sorted(x for x in c if tr[0] <= x <= tr[1])


class Pair:
    """a decoder D (variables = its decoded integer locals) calling a constructor C."""

    def __init__(self, an, dec, ctor, call_bb, var_locals, var_ranges, arg_offset=0):
        self.an, self.d, self.c = an, dec, ctor
        self.call_bb = call_bb
        self.vars = var_locals
        self.ranges = var_ranges
        self.t = dec.term(call_bb)
        self.arg_offset = arg_offset
        self.c_accept = [s["_pos"][0] for b in ctor.blocks if not b.get("cleanup") for s in b["s"]
                         if s["k"] == "assign" and s["rv"][0] == "agg" and s["rv"][1].get("k") == "adt"
                         and ctor.raw.get("ret", "").startswith(s["rv"][1].get("adt", "!"))] or ctor.return_blocks()

    base_rej_d = frozenset()
    base_rej_c = frozenset()

    def eval_point(self, assign):
        an = self.an
        an.overrides = {(self.d.key, l): (v, v) for l, v in assign.items()}
        _clear(an)
        vd, rd = verdict(an, self.d, [self.call_bb], None, self.base_rej_d)
        args = []
        for a in self.t["a"][self.arg_offset:]:
            iv = an.eval_op(self.d, a, (self.call_bb, self.d.INF - 1))
            args.append(iv)
        an.overrides = {}
        _clear(an)
        env = {}
        for i, iv in enumerate(args):
            tr = intervals.type_range(self.c.local_ty(i + 1)) if i + 1 <= self.c.argc else None
            if tr is None:
                continue
            if iv is None or iv[0] != iv[1]:
                return vd, None, args, rd, set()
            env[i + 1] = iv
        vc, rc = verdict(an, self.c, self.c_accept, env, self.base_rej_c)
        _clear(an)
        return vd, vc, args, rd, rc

    def sweep(self, extra_consts=None, max_points=6000, pair_distance=None):
        """evaluate singles and pairs around a baseline; yield (assign, vd, vc, args)."""
        an = self.an
        dconst = guard_constants(an, self.d, self.vars)
        cands = {}
        for v in self.vars:
            ex = (extra_consts or {}).get(v, ())
            cands[v] = candidates(dconst[v], self.ranges[v], ex)
        # baseline: a point at which both functions can reach their accepting site; the reject
        # blocks still feasible there depend on unpinned values and are ignored afterwards
        base = None
        pools = []
        for v in self.vars:
            mids = sorted(set(cands[v]) | {2, 4, 8, 16}, key=lambda x: (abs(x - 8), x))
            pools.append([x for x in mids if self.ranges[v][0] <= x <= self.ranges[v][1]][:6])
        tried = 0
        best = None
        for combo in itertools.product(*pools):
            tried += 1
            if tried > 3000:
                break
            assign = dict(zip(self.vars, combo))
            vd, vc, args, rd, rc = self.eval_point(assign)
            if vd != "reject" and vc is not None and vc != "reject":
                score = len(rd) + len(rc)
                if best is None or score < best[0]:
                    best = (score, assign, rd, rc)
                if score == 0:
                    break
        if best is None:
            return
        _, base, rd, rc = best
        self.base_rej_d, self.base_rej_c = frozenset(rd), frozenset(rc)
        n = 0
        yield base, "accept", "accept", None
        for v in self.vars:
            for x in cands[v]:
                a = dict(base)
                a[v] = x
                n += 1
                yield (a,) + self.eval_point(a)[:3]
        for (i, v), (j, w) in itertools.combinations(list(enumerate(self.vars)), 2):
            if pair_distance is not None and j - i > pair_distance:
                continue
            for x in cands[v]:
                for y in cands[w]:
                    if n > max_points:
                        return
                    a = dict(base)
                    a[v], a[w] = x, y
                    n += 1
                    yield (a,) + self.eval_point(a)[:3]


def _direct_read(f, l, depth=0):
    """the ByteReader read call whose payload local `l` holds (through `?`, copies, widening casts)."""
    if depth > 12:
        return None
    ds = f.defs(l)
    if len(ds) != 1:
        return None
    d = ds[0]
    if d["kind"] == "assign":
        rv = d["rv"]
        if rv[0] == "use":
            pl = ir.op_place(rv[1])
            return _direct_read(f, pl[0], depth + 1) if pl else None
        if rv[0] == "cast" and rv[1].startswith("IntToInt"):
            src_t, dst_t = intervals.type_range(rv[4]), intervals.type_range(rv[3])
            sl = op_local(rv[2])
            if sl is not None and src_t and dst_t and dst_t[0] <= src_t[0] and src_t[1] <= dst_t[1]:
                return _direct_read(f, sl, depth + 1)
        return None
    if d["kind"] == "call":
        t = d["term"]
        c = callee_of(t)
        if c and c.get("trait") == "winter_utils::serde::byte_reader::ByteReader" and (c.get("name") or "").startswith("read_u"):
            return d["bb"], f.local_ty(t["dest"][0])
        if ir.is_call_to(t, *ir.CARRIERS) and t["a"]:
            al = op_local(t["a"][0])
            return _direct_read(f, al, depth + 1) if al is not None else None
    return None


def decoded_vars(an, f, upto_bb):
    """user-named integer locals of decoder f holding (a widening cast of) the payload of one
    ByteReader read that dominates the call in upto_bb: {local: type range of the value read}."""
    import re
    out = {}
    for l, loc in enumerate(f.locals):
        if not loc.get("name") or loc["name"] in ("val", "residual") or intervals.type_range(loc["ty"]) is None or l <= f.argc:
            continue
        ds = f.defs(l)
        if len(ds) != 1 or ds[0]["kind"] != "assign":
            continue
        if not f.must_cross([upto_bb], cut_blocks=[ds[0]["bb"]]) and ds[0]["bb"] != upto_bb:
            continue
        r = _direct_read(f, l)
        if not r:
            continue
        m = re.search(r"Result<(u8|u16|u32|u64|usize)", r[1])
        if m:
            out[l] = intervals.type_range(m.group(1))
    return out
