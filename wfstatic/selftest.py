"""Self-test: run the property checks against one-instance-broken (and behaviour-preserving)
variants of /repo in scratch copies outside /repo and /verif; assert each firing mutant is reported
under the expected key and each silent mutant raises nothing."""
import concurrent.futures, glob, json, os, shutil, subprocess, sys, tempfile, time

from . import build

VERIF = build.VERIF
SCRATCH_ROOT = os.environ.get("WF_SCRATCH", "/var/tmp")


def copy_sources(dst):
    subprocess.check_call(["rsync", "-a", "--exclude", "target", "--exclude", ".git", build.REPO + "/", dst + "/"])


def read_header(patch):
    hdr = {}
    meta = os.path.join(os.path.dirname(patch), "meta.json")
    if os.path.basename(patch) == "patch.diff" and os.path.exists(meta):
        with open(meta) as fh:
            m = json.load(fh)
        return {"property": ",".join(m.get("checks", [m.get("property", "")])), "expect": m.get("expect", "")}
    with open(patch) as fh:
        for line in fh:
            if line.startswith("# ") and ":" in line:
                k, v = line[2:].split(":", 1)
                hdr[k.strip()] = v.strip()
            elif line.startswith(("---", "diff ")):
                break
    return hdr


def run_one(patch, keep=False, only_prop=None):
    hdr = read_header(patch)
    prop, expect = hdr["property"], hdr["expect"]
    if only_prop:
        prop = only_prop
    name = os.path.basename(patch)[:-6] if not patch.endswith("patch.diff") else "seeded/" + os.path.basename(os.path.dirname(patch))
    d = tempfile.mkdtemp(prefix="wf-mut-%s-" % name.replace("/", "_"), dir=SCRATCH_ROOT)
    t0 = time.time()
    try:
        copy_sources(d)
        r = subprocess.run(["patch", "-p1", "-s", "-i", patch], cwd=d, capture_output=True, text=True)
        if r.returncode != 0:
            return name, False, "patch does not apply: " + (r.stdout + r.stderr)[-300:], 0
        env = dict(os.environ, WF_REPO=d, WF_EVIDENCE_DIR=os.path.join(d, ".evidence"))
        outs = []
        ok = True
        for pr in prop.split(","):
            r = subprocess.run([sys.executable, os.path.join(VERIF, "check"), pr.strip(), "--tier", "quick"],
                               cwd=VERIF, env=env, capture_output=True, text=True)
            outs.append((pr.strip(), r.returncode, r.stdout + r.stderr))
        text = "\n".join(o[2] for o in outs)
        if "fact build failed" in text:
            return name, False, "mutant does not type-check", time.time() - t0
        fired = [l for l in text.splitlines() if l.startswith("VIOLATION") or " -- " in l and ": C" in l]
        if expect == "silent":
            ok = all(rc == 0 for _, rc, _ in outs)
            msg = "silent" if ok else "FALSE ALARM: " + "; ".join(fired[:3])
        elif expect == "false-alarm":
            # a behaviour-preserving change on which a check is known to alarm (documented limit, DESIGN section 16):
            # kept so that the record is revisited when the analysis learns to discharge it
            ok = True
            msg = "recorded false alarm still raised: " + "; ".join(fired[:2]) if any(rc != 0 for _, rc, _ in outs) else \
                  "recorded as a false alarm but now silent: promote to `expect: silent`"
        elif expect == "missed":
            # a recorded miss (the break lies outside the decided clause): kept so that the record is
            # re-examined if a later rule starts to fire on it
            ok = True
            msg = "known miss: nothing fires (outside the decided clause)" if all(rc == 0 for _, rc, _ in outs) else \
                  "recorded as a miss but now reported: " + "; ".join(fired[:2])
        else:
            hit = False
            for pr, rc, o in outs:
                ev = os.path.join(d, ".evidence", pr + ".json")
                if os.path.exists(ev):
                    keys = json.load(open(ev))["coverage"]["violation_keys"]
                    if any(expect in k for k in keys):
                        hit = True
            ok = hit
            msg = "caught (%s)" % expect if ok else "MISSED: expected key containing %r; got: %s" % (expect, "; ".join(fired[:4]) or "nothing")
        return name, ok, msg, time.time() - t0
    finally:
        if not keep:
            shutil.rmtree(d, ignore_errors=True)


def main(argv):
    pats = [a for a in argv if not a.startswith("-")]
    patches = sorted(glob.glob(os.path.join(VERIF, "selftest", "mutants", "*.patch")) +
                     glob.glob(os.path.join(VERIF, "seeded", "*", "patch.diff")))
    if pats:
        patches = [p for p in patches if any(x in p[len(VERIF):] for x in pats)]
    bad = 0
    with concurrent.futures.ThreadPoolExecutor(max_workers=int(os.environ.get("WF_JOBS", "4"))) as ex:
        for name, ok, msg, dt in ex.map(run_one, patches):
            print("%-44s %s  %s (%.0fs)" % (name, "ok  " if ok else "FAIL", msg, dt))
            bad += 0 if ok else 1
    print("selftest: %d mutants, %d failed" % (len(patches), bad))
    return 1 if bad else 0
