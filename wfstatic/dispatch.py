"""A10 — dispatch-table extraction: a SwitchInt on a run-time selector whose arms call instances of
one generic function; the table {selector value -> generic arguments on that arm}."""
from . import ir
from .ir import callee_of


def tables(f, min_arms=2):
    """list of dict(bb, at, selector operand, else_bb, arms={value: {callee def: [generic args]}},
    callees = defs called on >= 2 arms with differing generic args)."""
    out = []
    for bi, b in enumerate(f.blocks):
        t = b["t"]
        if t["k"] != "switch" or b.get("cleanup") or len(t["arms"]) < min_arms:
            continue
        if t.get("dty") == "bool":
            continue
        targets = {tg for _, tg in t["arms"]} | {t["else"]}
        arms = {}
        for v, tg in t["arms"]:
            region = f.reach([tg], cut_blocks=[x for x in targets if x != tg])
            calls = {}
            for rb in sorted(region):
                tt = f.term(rb)
                c = callee_of(tt)
                if c and not f.is_cleanup(rb):
                    calls.setdefault(c["def"], []).append((c["args"], rb, tt))
            arms[int(v)] = {"target": tg, "calls": calls}
        defs = {}
        for v, a in arms.items():
            for d, lst in a["calls"].items():
                defs.setdefault(d, {})[v] = lst
        callees = {}
        for d, per in defs.items():
            if len(per) >= 2 and len({tuple(x[0][0]) for x in per.values()}) >= 2:
                callees[d] = {v: lst[0][0] for v, lst in per.items()}
        if callees:
            out.append({"bb": bi, "at": t["sp"]["at"], "sel": t["d"], "else": t["else"], "arms": arms, "callees": callees, "term": t})
    return out


def else_is_reject(f, tab):
    """the otherwise arm never reaches a non-error exit (Err return, panic or unreachable)."""
    e = tab["else"]
    good_exits = [x["bb"] for x in f.exits() if x["kind"] not in ("err", "residual")]
    if f.blocks[e]["t"]["k"] == "unreachable":
        return True
    return not f.can_reach(e, good_exits)
