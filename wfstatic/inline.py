"""A1 interprocedural part: virtual inlining of private helper functions into the functions the
rules are anchored on, so that "extract a check into a helper" refactors do not change verdicts.

Only calls to private (non-`pub`) free functions / inherent methods of the same crate whose name no
rule mentions are inlined, up to depth 2; the MIR of the helper is spliced into a copy of the
caller's MIR (locals and blocks renumbered, arguments bound by assignments, `return` turned into an
assignment to the call's destination followed by a jump to the call's continuation)."""
import copy, glob, os, re

from . import ir
from .ir import callee_of

_MENTIONED = None


def mentioned_names():
    global _MENTIONED
    if _MENTIONED is None:
        words = set()
        here = os.path.dirname(os.path.abspath(__file__))
        for p in glob.glob(os.path.join(here, "rules", "*.py")) + [os.path.join(here, "patterns.py")]:
            with open(p) as fh:
                words |= set(re.findall(r"[A-Za-z_][A-Za-z0-9_]*", fh.read()))
        _MENTIONED = words
    return _MENTIONED


def _shift_place(pl, k):
    out = [pl[0] + k]
    for e in pl[1:]:
        if isinstance(e, str) and e.startswith("[_"):
            out.append("[_%d]" % (int(e[2:-1]) + k))
        else:
            out.append(e)
    return out


def _shift_op(op, k):
    if op[0] in ("cp", "mv", "pl"):
        return [op[0], _shift_place(op[1], k)]
    return op


def _shift_rv(rv, k):
    t = rv[0]
    if t in ("use", "repeat"):
        return [t, _shift_op(rv[1], k)] + rv[2:]
    if t in ("ref", "rawptr"):
        return [t, rv[1], _shift_place(rv[2], k)]
    if t == "cast":
        return [t, rv[1], _shift_op(rv[2], k)] + rv[3:]
    if t == "bin":
        return [t, rv[1], _shift_op(rv[2], k), _shift_op(rv[3], k)]
    if t == "un":
        return [t, rv[1], _shift_op(rv[2], k)]
    if t == "discr":
        return [t, _shift_place(rv[1], k)]
    if t == "agg":
        return [t, rv[1], [_shift_op(o, k) for o in rv[2]]]
    return rv


def _subst_str(x, sub):
    if not isinstance(x, str) or not sub:
        return x
    pat = re.compile(r"(?<![\w:])(%s)(?![\w])" % "|".join(re.escape(k) for k in sorted(sub, key=len, reverse=True)))
    return pat.sub(lambda m: sub[m.group(1)], x)


def _instantiate_callee(nb, sub):
    """a call inside a spliced generic helper: write the callee with the helper's type parameters instantiated
    (`<P as ToElements<B>>::to_elements` becomes `<<AIR as Air>::PublicInputs as ToElements<..>>::to_elements`)."""
    t = nb["t"]
    if t.get("k") not in ("call", "tailcall") or t["f"][0] != "k" or not t["f"][1].get("fn"):
        return
    fn = dict(t["f"][1]["fn"])
    for key in ("full", "rfull"):
        if fn.get(key):
            fn[key] = _subst_str(fn[key], sub)
    if fn.get("args"):
        fn["args"] = [_subst_str(a, sub) for a in fn["args"]]
    t["f"] = ["k", dict(t["f"][1], fn=fn)]


def _shift_block(b, k, boff):
    nb = {"s": [], "t": None}
    if b.get("cleanup"):
        nb["cleanup"] = True
    for s in b["s"]:
        ns = dict(s)
        ns.pop("_pos", None)
        if s["k"] == "assign":
            ns["p"] = _shift_place(s["p"], k)
            ns["rv"] = _shift_rv(s["rv"], k)
        elif s["k"] == "setdiscr":
            ns["p"] = _shift_place(s["p"], k)
        nb["s"].append(ns)
    t = dict(b["t"])
    t.pop("_bb", None)
    for key in ("t", "else"):
        if key in t and isinstance(t[key], int):
            t[key] = t[key] + boff
    if "arms" in t:
        t["arms"] = [[v, tg + boff] for v, tg in t["arms"]]
    for key in ("d", "c", "f"):
        if key in t and isinstance(t[key], list):
            t[key] = _shift_op(t[key], k)
    for key in ("a", "ao"):
        if key in t:
            t[key] = [_shift_op(o, k) for o in t[key]]
    for key in ("dest", "p"):
        if key in t and isinstance(t[key], list):
            t[key] = _shift_place(t[key], k)
    nb["t"] = t
    return nb


def inlinable(prog, f, t):
    c = callee_of(t)
    if not c or c.get("trait") or "t" not in t:
        return None
    key = c.get("rdef") or c["def"]
    h = prog.funcs.get(key)
    if h is None or h is f or h.crate != f.crate or not h.blocks or len(h.blocks) > 80:
        return None
    if h.raw.get("kind") not in ("Fn", "AssocFn") or h.raw.get("impl_trait") or h.raw.get("in_trait"):
        return None
    if not str(h.raw.get("vis", "")).startswith("Restricted"):
        return None
    if (h.name or "") in mentioned_names() or key in getattr(prog, "_no_inline", ()):
        return None
    if len(t["a"]) != h.argc:
        return None
    return h


COMBINATORS = {
    # (adt, method) -> (variant that carries the payload, its index, the other variant, its index, wrap result?)
    ("core::result::Result", "and_then"): ("Ok", 0, "Err", 1, False),
    ("core::result::Result", "map"): ("Ok", 0, "Err", 1, True),
    ("core::option::Option", "and_then"): ("Some", 1, "None", 0, False),
    ("core::option::Option", "map"): ("Some", 1, "None", 0, True),
}


def desugar_combinators(prog, f):
    """`r.and_then(helper)` / `r.map(helper)` with a private function item as the argument is the match it
    stands for: `match r { Ok(v) => helper(v), Err(e) => Err(e) }` (resp. `Ok(helper(v))`).  Written out as
    blocks so that the helper call is an ordinary call site (spliced like any other)."""
    todo = []
    for bi, t in f.calls():
        c = callee_of(t) or {}
        if f.is_cleanup(bi) or "t" not in t or len(t["a"]) != 2 or c.get("krate") != "core":
            continue
        adt = next((a_ for (a_, m_) in COMBINATORS if m_ == c.get("name") and str(c.get("def", "")).startswith(a_)), None)
        if adt is None or t["a"][1][0] != "k" or not t["a"][1][1].get("fn"):
            continue
        rl = ir.op_place(t["a"][0])
        if not rl or len(rl) != 1:
            continue
        fake = {"k": "call", "f": ["k", {"fn": t["a"][1][1]["fn"]}], "a": [["mv", [0]]], "t": t["t"], "dest": t["dest"], "sp": t["sp"]}
        if inlinable(prog, f, fake) is None:
            continue
        todo.append((bi, adt, c["name"], t["a"][1][1]["fn"], rl[0]))
    if not todo:
        return f
    raw = copy.deepcopy({k: v for k, v in f.raw.items()})
    mir = raw["mir"]
    for b in mir["blocks"]:
        b["t"].pop("_bb", None)
        for s_ in b["s"]:
            s_.pop("_pos", None)
    for bi, adt, meth, fn, r in todo:
        some, some_i, none, none_i, wrap = COMBINATORS[(adt, meth)]
        call = mir["blocks"][bi]["t"]
        sp, cont, dest = call["sp"], call["t"], call["dest"]
        h = prog.funcs[fn.get("rdef") or fn["def"]]
        n = len(mir["locals"])
        d_l, v_l, e_l, o_l = n, n + 1, n + 2, n + 3
        mir["locals"] += [{"ty": "isize"}, {"ty": h.local_ty(1)}, {"ty": "?"}, {"ty": h.raw.get("ret", "?")}]
        nb = len(mir["blocks"])
        b_some, b_none, b_unr, b_wrap = nb, nb + 1, nb + 2, nb + 3
        full = mir["locals"][dest[0]].get("ty", adt) if len(dest) == 1 else adt
        mir["blocks"][bi]["s"].append({"k": "assign", "p": [d_l], "rv": ["discr", [r]], "sp": sp})
        mir["blocks"][bi]["t"] = {"k": "switch", "d": ["mv", [d_l]], "dty": "isize", "arms": [[str(some_i), b_some], [str(none_i), b_none]],
                                  "else": b_unr, "sp": sp}
        payload = [r, "@%d:%s" % (some_i, some), ".0:0"]
        mir["blocks"].append({"s": [{"k": "assign", "p": [v_l], "rv": ["use", ["mv", payload]], "sp": sp}],
                              "t": {"k": "call", "f": ["k", {"fn": fn}], "a": [["mv", [v_l]]], "dest": [o_l] if wrap else dest,
                                    "t": b_wrap if wrap else cont, "sp": sp}})
        if none == "Err":
            stm = [{"k": "assign", "p": [e_l], "rv": ["use", ["mv", [r, "@%d:%s" % (none_i, none), ".0:0"]]], "sp": sp},
                   {"k": "assign", "p": dest, "rv": ["agg", {"k": "adt", "adt": adt, "full": full, "variant": "Err", "vi": none_i}, [["mv", [e_l]]]], "sp": sp}]
        else:
            stm = [{"k": "assign", "p": dest, "rv": ["agg", {"k": "adt", "adt": adt, "full": full, "variant": "None", "vi": none_i}, []], "sp": sp}]
        mir["blocks"].append({"s": stm, "t": {"k": "goto", "t": cont, "sp": sp}})
        mir["blocks"].append({"s": [], "t": {"k": "unreachable", "sp": sp}})
        mir["blocks"].append({"s": [{"k": "assign", "p": dest, "rv": ["agg", {"k": "adt", "adt": adt, "full": full, "variant": some, "vi": some_i}, [["mv", [o_l]]]], "sp": sp}],
                              "t": {"k": "goto", "t": cont, "sp": sp}})
    nf = ir.Func(raw, prog)
    return nf


def inline_helpers(prog, f, depth=2):
    """returns f itself if nothing is inlinable, else a new Func with helpers spliced in."""
    if depth <= 0 or not f.blocks:
        return f
    f = desugar_combinators(prog, f)
    sites = [(bi, t, inlinable(prog, f, t)) for bi, t in f.calls() if not f.is_cleanup(bi)]
    sites = [(bi, t, h) for bi, t, h in sites if h is not None]
    if not sites:
        return f
    raw = copy.deepcopy({k: v for k, v in f.raw.items()})
    mir = raw["mir"]
    for b in mir["blocks"]:
        b["t"].pop("_bb", None)
        for s in b["s"]:
            s.pop("_pos", None)
    ret_sites = []
    for bi, t, h in sites:
        h2 = inline_helpers(prog, h, depth - 1)
        k = len(mir["locals"])
        boff = len(mir["blocks"])
        mir["locals"] += copy.deepcopy(h2.locals)
        call = mir["blocks"][bi]["t"]
        cont = call["t"]
        dest = call["dest"]
        # bind arguments
        for i, a in enumerate(call["a"]):
            mir["blocks"][bi]["s"].append({"k": "assign", "p": [k + 1 + i], "rv": ["use", a], "sp": call["sp"]})
        mir["blocks"][bi]["t"] = {"k": "goto", "t": boff, "sp": call["sp"], "inlined": h.key}
        for hb in h2.blocks:
            nb = _shift_block(hb, k, boff)
            nb["origin"] = hb.get("origin") or h.key
            names = h.raw.get("generics") or []
            cargs = (callee_of(call) or {}).get("args") or []
            outer = dict(zip(names, cargs)) if len(names) == len(cargs) else {}
            if "subst" not in nb:
                nb["subst"] = outer
            elif outer:
                nb["subst"] = {k_: _subst_str(v_, outer) for k_, v_ in nb["subst"].items()}
            if outer:
                _instantiate_callee(nb, outer)
            if nb["t"]["k"] == "return":
                nb["s"].append({"k": "assign", "p": dest, "rv": ["use", ["mv", [k]]], "sp": nb["t"]["sp"]})
                nb["t"] = {"k": "goto", "t": cont, "sp": nb["t"]["sp"]}
                ret_sites.append((len(mir["blocks"]), k, cont))
            mir["blocks"].append(nb)
    _propagate_variants(mir, ret_sites)
    nf = ir.Func(raw, prog)
    nf.inlined = [h.key for _, _, h in sites]
    return nf


def _variant_assigned(blk, k0):
    t = blk["t"]
    if t["k"] == "call" and t.get("dest") == [k0]:
        c = callee_of(t)
        if c and c.get("name") == "from_residual":
            return "Err"        # `?` inside the helper: the residual (Err / None) is returned
        return None
    for st in reversed(blk["s"]):
        if st["k"] == "assign" and st["p"] == [k0] and st["rv"][0] == "agg":
            return st["rv"][1].get("variant")
        if st["k"] == "assign" and st["p"] and st["p"][0] == k0:
            return None
    return None


def _retarget(t, old, new, force=False):
    if (force or t.get("t") == old) and t["k"] in ("goto", "call", "assert", "drop"):
        t["t"] = new
        return True
    return False


def _propagate_variants(mir, ret_sites):
    """path splitting at inlined `return Ok(..)` / `return Err(..)` sites whose continuation is the
    caller's `?`: the continuation (Try::branch call + switch on its discriminant) is cloned per
    return path and the clone's switch is replaced by a jump to the arm the known variant selects,
    so that a comparison inside the helper is seen to lead either to the error exit or onwards.
    The variant is taken from the return block itself or, when several paths share one return block,
    from each predecessor that assigns the return place."""
    blocks = mir["blocks"]

    def clone(b):
        c = copy.deepcopy(b)
        c["t"].pop("_bb", None)
        for x in c["s"]:
            x.pop("_pos", None)
        return c

    for rb, k0, cont in ret_sites:
        cb = blocks[cont]
        t = cb["t"]
        c = callee_of(t) if t["k"] == "call" else None
        if not c or c.get("name") != "branch" or "t" not in t:
            continue
        sb = blocks[t["t"]]
        st_ = sb["t"]
        if st_["k"] != "switch" or not any(x["k"] == "assign" and x["rv"][0] == "discr" for x in sb["s"]):
            continue

        def arm_for(variant):
            want = "0" if variant in ("Ok", "Some") else "1"
            for v, tg in st_.get("arms", []):
                if str(v) == want:
                    return tg
            return st_.get("else")

        def split_from(src_block_index, variant):
            target = arm_for(variant)
            if target is None:
                return None
            c1, c2 = clone(cb), clone(sb)
            i1, i2 = len(blocks), len(blocks) + 1
            c1["t"]["t"] = i2
            c2["t"] = {"k": "goto", "t": target, "sp": st_["sp"], "split": variant}
            blocks.append(c1)
            blocks.append(c2)
            return i1

        v0 = _variant_assigned(blocks[rb], k0)
        if v0 in ("Ok", "Err", "Some", "None"):
            i1 = split_from(rb, v0)
            if i1 is not None:
                blocks[rb]["t"]["t"] = i1
            continue
        # shared return block: split per assigning block, following the straight-line chain
        # (storage / drop-flag bookkeeping) between the assignment and the return block
        if any(st["k"] == "assign" and st["p"] and st["p"][0] == k0 for st in blocks[rb]["s"][:-1]):
            continue

        def succs(b):
            t = b["t"]
            out = []
            if "t" in t and isinstance(t["t"], int):
                out.append(t["t"])
            if t["k"] == "switch":
                out = [tg for _, tg in t.get("arms", [])] + ([t["else"]] if "else" in t else [])
            return out
        n0 = len(blocks)
        for ab in range(n0):
            v = _variant_assigned(blocks[ab], k0)
            if v not in ("Ok", "Err", "Some", "None") or ab == rb:
                continue
            chain = []
            nx = succs(blocks[ab])
            if len(nx) != 1:
                continue
            b = nx[0]
            ok = True
            while b != rb:
                if len(chain) > 8 or b >= n0:
                    ok = False
                    break
                sb_ = succs(blocks[b])
                if len(sb_) != 1 or any(st["k"] == "assign" and st["p"] and st["p"][0] == k0 for st in blocks[b]["s"]) or \
                        (blocks[b]["t"]["k"] == "call" and blocks[b]["t"].get("dest") == [k0]):
                    ok = False
                    break
                chain.append(b)
                b = sb_[0]
            if not ok:
                continue
            i1 = split_from(ab, v)
            if i1 is None:
                continue
            # clone chain + return block, link them, end in the split continuation
            prev_idx = None
            first_idx = None
            for cb_i in chain + [rb]:
                cl = clone(blocks[cb_i])
                idx = len(blocks)
                blocks.append(cl)
                if first_idx is None:
                    first_idx = idx
                if prev_idx is not None:
                    _retarget(blocks[prev_idx]["t"], None, idx, force=True)
                prev_idx = idx
            _retarget(blocks[prev_idx]["t"], None, i1, force=True)
            _retarget(blocks[ab]["t"], nx[0], first_idx)
