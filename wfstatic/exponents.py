"""Abstract interpretation of monomial exponents.

Every field element handled by the S-box code is a power x^e of the element it started from.  The
interpreter walks the MIR of a function with each element-typed local abstracted to its exponent e
(arrays: one exponent per constant index, with a default), and applies
    square -> 2e,  a * b -> e_a + e_b,  a *= b -> e_a += e_b,  helper calls -> recursion,
    iter_mut / zip / enumerate / for_each / for-loops over a slice -> element-wise application,
    for _ in 0..M (M a const generic) -> M-fold application.
Nothing is executed: the only arithmetic is on exponents.  Anything outside this vocabulary raises
Unknown and the calling rule reports that it cannot decide.
"""
import re

from . import ir
from .ir import callee_of, op_local, op_const, op_place

MUL = "core::ops::arith::Mul::mul"
MUL_ASSIGN = "core::ops::arith::MulAssign::mul_assign"


class Unknown(Exception):
    pass


class Frame:
    def __init__(self, f, generics):
        self.f = f
        self.vals = {}
        self.generics = generics


def arr_len(ty):
    m = re.search(r";\s*(\w+)\]\s*$", ty.strip().rstrip(")"))
    return m.group(1) if m else None


class Interp:
    def __init__(self, prog, max_depth=12):
        self.p = prog
        self.max_depth = max_depth
        self.steps = 0

    # -- values ------------------------------------------------------------------------------------
    def uniform(self, v):
        if v is None:
            raise Unknown("value is not a power of the input")
        if v[0] == "e":
            return v[1]
        if v[0] == "arr":
            _, default, over, n = v
            vals = set(over.values())
            if n is None or len(over) < n:
                vals.add(default)
            if len(vals) != 1:
                raise Unknown("array elements carry different exponents %s" % sorted(vals))
            return vals.pop()
        if v[0] == "ref":
            return self.uniform(self.load(v))
        raise Unknown("not an element value: %s" % (v[0],))

    def load(self, ref):
        _, fr, l = ref
        return fr.vals.get(l)

    def store(self, ref, val):
        _, fr, l = ref
        fr.vals[l] = val

    def const_int(self, fr, op):
        c = op_const(op)
        if c is not None:
            if "v" in c and str(c["v"]).isdigit():
                return int(c["v"])
            if c.get("tyconst") in fr.generics:
                return fr.generics[c["tyconst"]]
            return None
        v = self.read(fr, op_place(op))
        return v[1] if v and v[0] == "int" else None

    # -- places ------------------------------------------------------------------------------------
    def read(self, fr, pl):
        v = fr.vals.get(pl[0])
        for e in pl[1:]:
            v = self.project(fr, v, e)
        return v

    def project(self, fr, v, e):
        if v is None:
            return None
        if e == "*":
            if v[0] != "ref":
                raise Unknown("deref of a non-reference")
            return self.load(v)
        if isinstance(e, str) and e.startswith("@"):
            return ("variant", v[1]) if v[0] == "some" else v
        if isinstance(e, str) and e.startswith("."):
            idx = int(e[1:].split(":")[0])
            if v[0] == "variant":
                return v[1]
            if v[0] == "tuple":
                return v[1][idx]
            if v[0] in ("e", "arr"):
                return v
            return None
        if isinstance(e, str) and e.startswith("["):
            if v[0] == "arr":
                k = None
                if e.startswith("[_"):
                    iv = fr.vals.get(int(e[2:-1]))
                    k = iv[1] if iv and iv[0] == "int" else None
                elif e[1:-1].isdigit():
                    k = int(e[1:-1])
                if k is not None:
                    return ("e", v[2].get(k, v[1]))
                return ("e", self.uniform(v))
            if v[0] == "e":
                return v
            if v[0] == "ref":
                return self.project(fr, self.load(v), e)
            return None
        return None

    def write(self, fr, pl, val):
        if len(pl) == 1:
            fr.vals[pl[0]] = val
            return
        # resolve the container to write into
        base = fr.vals.get(pl[0])
        holder = ("ref", fr, pl[0])
        for e in pl[1:-1]:
            if e == "*":
                if base is None or base[0] != "ref":
                    raise Unknown("write through a non-reference")
                holder = base
                base = self.load(base)
            else:
                raise Unknown("nested projection write %s" % (pl,))
        last = pl[-1]
        if last == "*":
            if base is None or base[0] != "ref":
                raise Unknown("write through a non-reference")
            self.store(base, val)
            return
        if isinstance(last, str) and last.startswith("["):
            n = self.uniform(val) if val is not None else None
            if n is None:
                raise Unknown("non-element stored into an array")
            k = None
            if last.startswith("[_"):
                iv = fr.vals.get(int(last[2:-1]))
                k = iv[1] if iv and iv[0] == "int" else None
            elif last[1:-1].isdigit():
                k = int(last[1:-1])
            if base is None or base[0] not in ("arr", "e"):
                raise Unknown("indexed write into a non-array")
            if base[0] == "e":
                base = ("arr", base[1], {}, None)
            if k is None:
                raise Unknown("write at a non-constant index")
            over = dict(base[2])
            over[k] = n
            self.store(holder, ("arr", base[1], over, base[3]))
            return
        raise Unknown("unsupported write %s" % (pl,))

    def operand(self, fr, op):
        if op[0] in ("cp", "mv"):
            return self.read(fr, op[1])
        if op[0] == "k":
            c = op[1]
            if "v" in c and str(c["v"]).isdigit():
                return ("int", int(c["v"]))
            if c.get("tyconst") in fr.generics:
                return ("int", fr.generics[c["tyconst"]])
            if str(c.get("uneval_def", "")).endswith("::ONE"):
                return ("e", 0)
            return None
        return None

    # -- statements --------------------------------------------------------------------------------
    def rvalue(self, fr, rv, dest_ty):
        k = rv[0]
        if k == "use":
            return self.operand(fr, rv[1])
        if k in ("ref", "rawptr"):
            pl = rv[2]
            if len(pl) == 1:
                return ("ref", fr, pl[0])
            # &mut *x  /  &(*x)  -> the same reference; &mut (*x)[..] etc: keep the base reference
            v = fr.vals.get(pl[0])
            for e in pl[1:]:
                if e == "*":
                    if v is None or v[0] != "ref":
                        raise Unknown("reborrow of a non-reference")
                    nxt = self.load(v)
                    if nxt is not None and nxt[0] == "ref":
                        v = nxt
                    # else: v stays the reference to the storage
                else:
                    # reference to an element of an array: a temporary holding that element
                    cur = self.load(v) if v and v[0] == "ref" else v
                    el = self.project(fr, cur, e)
                    tmp = Frame(fr.f, fr.generics)
                    tmp.vals[0] = el
                    return ("ref", tmp, 0)
            return v
        if k == "cast":
            return self.operand(fr, rv[2])
        if k == "agg":
            a = rv[1]
            if a.get("k") == "closure":
                if rv[2]:
                    raise Unknown("closure with captures")
                return ("closure", a.get("def"))
            if a.get("k") == "adt" and a.get("adt") == "core::ops::range::Range":
                lo, hi = self.const_int(fr, rv[2][0]), self.const_int(fr, rv[2][1])
                if lo is None or hi is None:
                    raise Unknown("range with non-constant bounds")
                return ("range", max(0, hi - lo))
            if a.get("k") == "tuple":
                return ("tuple", [self.operand(fr, o) for o in rv[2]])
            return None
        if k == "repeat":
            v = self.operand(fr, rv[1])
            return ("arr", v[1], {}, None) if v and v[0] == "e" else None
        if k == "bin":
            a, b = self.operand(fr, rv[2]), self.operand(fr, rv[3])
            if a and b and a[0] == "int" and b[0] == "int" and a[1] is not None and b[1] is not None:
                if rv[1].startswith("Add"):
                    r = a[1] + b[1]
                elif rv[1].startswith("Sub"):
                    r = a[1] - b[1]
                elif rv[1] in ("Lt", "Le", "Gt", "Ge", "Eq", "Ne"):
                    return None
                else:
                    return ("int", None)
                return ("tuple", [("int", r), None]) if "WithOverflow" in rv[1] else ("int", r)
            return None
        return None

    # -- calls -------------------------------------------------------------------------------------
    def elem_of(self, v):
        """abstract element yielded by iterating v: (value handed to the closure, write-back reference or None)."""
        if v is None:
            raise Unknown("iteration over an unknown value")
        if v[0] == "iter":
            target = v[1]
            tmp = Frame(None, {})
            tmp.vals[0] = ("e", self.uniform(target))
            return ("ref", tmp, 0), [(tmp, target)]
        if v[0] == "enum":
            it, wb = self.elem_of(v[1])
            return ("tuple", [("int", None), it]), wb
        if v[0] == "zip":
            a, wa = self.elem_of(v[1])
            b, wb = self.elem_of(v[2])
            return ("tuple", [a, b]), wa + wb
        if v[0] in ("e", "arr"):
            return ("e", self.uniform(v)), []
        if v[0] == "ref":
            inner = self.load(v)
            if inner is not None and inner[0] in ("e", "arr"):
                tmp = Frame(None, {})
                tmp.vals[0] = ("e", self.uniform(inner))
                return ("ref", tmp, 0), []
            return self.elem_of(inner)
        raise Unknown("iteration over %s" % (v[0],))

    def write_back(self, wbs):
        for tmp, target in wbs:
            n = self.uniform(tmp.vals[0])
            cur = self.load(target)
            ln = cur[3] if cur is not None and cur[0] == "arr" else None
            self.store(target, ("arr", n, {}, ln) if cur is not None and cur[0] == "arr" else ("e", n))

    def call(self, fr, t, depth):
        c = callee_of(t)
        if c is None:
            raise Unknown("indirect call")
        name, d = c.get("name"), c["def"]
        args = [self.operand(fr, a) for a in t["a"]]
        if d == MUL or (name == "mul" and "arith::Mul" in d):
            return ("e", self.uniform(args[0]) + self.uniform(args[1]))
        if d == MUL_ASSIGN or name == "mul_assign":
            if args[0] is None or args[0][0] != "ref":
                raise Unknown("mul_assign through a non-reference")
            self.store(args[0], ("e", self.uniform(self.load(args[0])) + self.uniform(args[1])))
            return None
        if name == "square":
            return ("e", 2 * self.uniform(args[0]))
        if name in ("iter_mut", "iter"):
            if args[0] is None or args[0][0] != "ref":
                raise Unknown("%s on a non-reference" % name)
            return ("iter", args[0])
        if name in ("into_iter", "by_ref"):
            return args[0]
        if name == "enumerate":
            return ("enum", args[0])
        if name == "zip":
            return ("zip", args[0], args[1])
        if name in ("clone", "deref", "deref_mut", "borrow", "borrow_mut", "as_mut", "as_ref", "from", "into"):
            return args[0]
        if name == "for_each":
            clo = args[1]
            if clo is None or clo[0] != "closure":
                raise Unknown("for_each with an unknown closure")
            item, wbs = self.elem_of(args[0])
            self.run(clo[1], [None, item], {}, depth + 1)
            self.write_back(wbs)
            return None
        # helper functions of the crate and small field helpers: recursion
        targets = self.p.call_targets(c)
        key = c.get("rdef") or d
        if key not in self.p.funcs and targets and len(targets) == 1:
            key = targets[0]
        g = self.p.funcs.get(key)
        if g is not None and g.blocks and (g.crate == "winter_crypto" or name in ("cube", "exp7")):
            gens = {}
            names = g.raw.get("generics") or []
            cargs = c.get("args") or []
            for nm, av in zip(names, cargs):
                if str(av).isdigit():
                    gens[nm] = int(av)
            return self.run(key, args, gens, depth + 1)
        raise Unknown("call to %s is outside the exponent vocabulary" % (c.get("rfull") or c["full"]))

    # -- functions ---------------------------------------------------------------------------------
    def run(self, key, args, generics, depth=0):
        g = self.p.funcs.get(key)
        if g is None or not g.blocks:
            raise Unknown("no MIR for %s" % key)
        if depth > self.max_depth:
            raise Unknown("recursion too deep")
        fr = Frame(g, generics)
        for i, a in enumerate(args[:g.argc]):
            fr.vals[i + 1] = a
        self.walk(fr, 0, None, depth)
        return fr.vals.get(0)

    def walk(self, fr, bb, stop, depth):
        from .rules.c03 import for_loops
        f = fr.f
        loops = {L["header"]: L for L in for_loops(f)}
        while True:
            self.steps += 1
            if self.steps > 200000:
                raise Unknown("too many steps")
            if bb == stop:
                return
            b = f.blocks[bb]
            if b.get("cleanup"):
                raise Unknown("reached a cleanup block")
            if bb in loops and stop != bb:
                bb = self.loop(fr, loops[bb], depth)
                continue
            for s in b["s"]:
                if s["k"] == "assign":
                    self.write(fr, s["p"], self.rvalue(fr, s["rv"], f.local_ty(s["p"][0])))
            t = b["t"]
            k = t["k"]
            if k == "goto":
                bb = t["t"]
            elif k == "call":
                if "t" not in t:
                    raise Unknown("diverging call")
                v = self.call(fr, t, depth)
                if t.get("dest"):
                    self.write(fr, t["dest"], v)
                bb = t["t"]
            elif k in ("assert", "drop"):
                bb = t["t"]
            elif k == "return":
                return
            else:
                raise Unknown("unsupported control flow (%s) at %s" % (k, ir.line_of(t["sp"]["at"])))

    def loop(self, fr, L, depth):
        f = fr.f
        hb = f.blocks[L["header"]]
        # statements of the header run once per iteration (they only re-borrow the iterator)
        for s in hb["s"]:
            if s["k"] == "assign":
                self.write(fr, s["p"], self.rvalue(fr, s["rv"], ""))
        t = hb["t"]
        it = self.operand(fr, t["a"][0])
        while it is not None and it[0] == "ref":
            it = self.load(it)
        some = [x for x in L["some"] if x in L["body"]]
        none = [x for x in L["none"]]
        if len(some) != 1 or len(none) != 1:
            raise Unknown("loop shape")
        if it is None:
            raise Unknown("loop over an unknown iterator")
        if it[0] == "range":
            n = it[1]
            if n > 4096:
                raise Unknown("loop count too large")
            for _ in range(n):
                self.write(fr, t["dest"], ("some", ("int", None)))
                self.walk(fr, some[0], L["header"], depth)
        else:
            item, wbs = self.elem_of(it)
            self.write(fr, t["dest"], ("some", item))
            self.walk(fr, some[0], L["header"], depth)
            self.write_back(wbs)
        return none[0]


def power_of(prog, key, generics=None, array_len=None):
    """exponent e such that function `key`, applied to a `&mut [B; N]` state (or a by-value element)
    holding x, leaves x^e: returns int, raises Unknown."""
    it = Interp(prog)
    g = prog.funcs[key]
    top = Frame(None, {})
    pty = (g.raw.get("params") or [""])[0]
    if pty.startswith("&"):
        n = arr_len(pty)
        if n and n.isdigit():
            array_len = int(n)
        elif n:
            # a named constant of the enclosing module(s)
            parts = key.split("::")
            for cut in range(len(parts) - 1, 1, -1):
                c = prog.consts.get("::".join(parts[:cut] + [n]))
                if c and isinstance(c.get("value"), dict) and "scalar" in c["value"]:
                    array_len = int(c["value"]["scalar"])
                    break
        top.vals[0] = ("arr", 1, {}, array_len)
        it.run(key, [("ref", top, 0)], generics or {})
        return it.uniform(top.vals[0])
    r = it.run(key, [("e", 1)], generics or {})
    return it.uniform(r)
