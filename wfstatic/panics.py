"""A5 — panic-site inventory over the call graph from untrusted-input entry points, with
discharge by guard intervals (A3/A4), a few relational patterns, a reviewed table, or a known
finding."""
import json, os
from collections import deque

from . import ir, intervals
from .ir import callee_of, op_const, op_local, op_place

# std leaves that may panic: name -> type/path fragments one of which must occur in the callee path
MAY_PANIC = {
    "unwrap": ("Option", "Result"), "expect": ("Option", "Result"),
    "unwrap_err": ("Result",), "expect_err": ("Result",),
    "remove": ("alloc::vec::Vec", "VecDeque"), "swap_remove": ("alloc::vec::Vec",),
    "insert": ("alloc::vec::Vec",), "split_off": ("alloc::vec::Vec",), "drain": ("alloc::vec::Vec",),
    "swap": ("core::slice",), "copy_from_slice": ("core::slice",), "clone_from_slice": ("core::slice",),
    "split_at": ("core::slice",), "split_at_mut": ("core::slice",),
    "chunks": ("core::slice",), "chunks_mut": ("core::slice",), "chunks_exact": ("core::slice",),
    "chunks_exact_mut": ("core::slice",), "windows": ("core::slice",),
    "rotate_left": ("core::slice",), "rotate_right": ("core::slice",),
    "step_by": ("iter",), "pow": ("core::num",), "ilog2": ("core::num",), "ilog": ("core::num",),
    "ilog10": ("core::num",), "next_power_of_two": ("core::num",), "div_ceil": ("core::num",),
    "borrow_mut": ("core::cell",), "borrow": ("core::cell::RefCell",),
    "index": ("Index",), "index_mut": ("IndexMut",),
    "with_capacity": ("alloc::vec::Vec", "String"), "reserve": ("alloc::vec::Vec",),
    "reserve_exact": ("alloc::vec::Vec",), "resize": ("alloc::vec::Vec",), "from_elem": ("alloc::vec",),
    "repeat": ("alloc::slice", "alloc::str"),
}
INT_TYPES = {"u8", "u16", "u32", "u64", "u128", "usize", "i8", "i16", "i32", "i64", "i128", "isize"}
OP_TRAIT_KINDS = {"div": "DivisionByZero", "rem": "RemainderByZero", "add": "Overflow:Add", "sub": "Overflow:Sub", "mul": "Overflow:Mul",
                  "div_assign": "DivisionByZero", "rem_assign": "RemainderByZero"}
IGNORED_ASSERTS = ("MisalignedPointerDereference", "NullPointerDereference", "InvalidEnumConstruction")
ALLOC_LIMIT = 1 << 32


def macro_kind(mac):
    for m in mac or []:
        b = m.split("::")[-1]
        if b in ("assert", "assert_eq", "assert_ne", "debug_assert", "debug_assert_eq", "debug_assert_ne",
                 "panic", "unimplemented", "unreachable", "todo"):
            return b
    return None


def _names_of(f, ops, _depth=0, locals_too=True):
    out = set()
    for o in ops:
        l = op_local(o)
        if l is None:
            c = op_const(o)
            if c is not None and "v" in c:
                out.add(c["v"])
            elif c is not None and c.get("tyconst"):
                out.add(c["tyconst"])
            continue
        pl = op_place(o)
        for fld in ir.place_fields(pl):
            if fld:
                out.add("." + fld)
        for x in f.copy_chain(l):
            n = f.local_name(x)
            if n and locals_too:
                out.add(n)
            for d in f.defs(x):
                if d["kind"] == "assign":
                    for s in d["srcs"]:
                        p2 = op_place(s) if s[0] in ("cp", "mv") else (s[1] if s[0] == "pl" else None)
                        if p2:
                            for fld in ir.place_fields(p2):
                                if fld:
                                    out.add("." + fld)
                            n2 = f.local_name(p2[0])
                            if n2 and locals_too:
                                out.add(n2)
                        elif s[0] == "k" and "v" in s[1]:
                            out.add(s[1]["v"])
                elif d["kind"] == "call":
                    c = callee_of(d["term"])
                    if c and c.get("name"):
                        out.add(c["name"] + "()")
                        if c["name"] in ("len", "deref", "is_empty") and d["term"]["a"] and _depth < 3:
                            inner = _names_of(f, [d["term"]["a"][0]], _depth + 1, locals_too)
                            for tok in inner.split(","):
                                if tok and not tok.endswith("()"):
                                    out.add(tok)
    return ",".join(sorted(out))[:80]


def sites_of(f):
    """panic sites of one function (non-cleanup blocks)."""
    out = []
    for bi, b in enumerate(f.blocks):
        if b.get("cleanup"):
            continue
        t = b["t"]
        k = t["k"]
        if k == "assert":
            if t["ak"] in IGNORED_ASSERTS:
                continue
            out.append({"kind": t["ak"], "bb": bi, "at": t["sp"]["at"], "term": t, "ops": t.get("ao", []),
                        "mac": macro_kind(t["sp"].get("mac"))})
        elif k == "call":
            c = callee_of(t)
            if c is None:
                continue
            name = c.get("name") or ""
            d = c["def"]
            if "t" not in t:
                mk = macro_kind(t["sp"].get("mac"))
                # panics inside core's own precondition checks are covered by the call site kinds
                out.append({"kind": "diverge:" + (mk or name), "bb": bi, "at": t["sp"]["at"], "term": t, "ops": [],
                            "mac": mk, "detail": d})
                continue
            if d.startswith("core::ops::arith::") and name in OP_TRAIT_KINDS and len(t["a"]) == 2:
                # operator traits on integers taken by reference (`&usize / usize`): the arithmetic and its
                # overflow / zero-divisor panic happen inside core, not as a MIR operation
                selfty = (c.get("args") or [""])[0].lstrip("&").replace("mut ", "").strip()
                if selfty in INT_TYPES:
                    kind = OP_TRAIT_KINDS[name]
                    ops = [t["a"][1]] if kind in ("DivisionByZero", "RemainderByZero") else list(t["a"])
                    out.append({"kind": kind, "bb": bi, "at": t["sp"]["at"], "term": t, "ops": ops, "mac": None,
                                "detail": c.get("rfull") or c["full"], "opcall": True})
                    continue
            if c["krate"] in ("core", "alloc", "std") and name in MAY_PANIC:
                full = (c.get("rfull") or "") + " " + c["full"] + " " + d
                if any(p in full for p in MAY_PANIC[name]):
                    out.append({"kind": "call:" + name, "bb": bi, "at": t["sp"]["at"], "term": t, "ops": list(t["a"]),
                                "mac": macro_kind(t["sp"].get("mac")), "detail": c.get("rfull") or c["full"]})
    for s in out:
        s["origin"] = f.blocks[s["bb"]].get("origin")
    cnt = {}
    for s in out:
        s["asig"] = _names_of(f, s["ops"], locals_too=False) if s["ops"] else (s.get("detail", "").split("::")[-1] if s["kind"].startswith("diverge") else "")
        s["sig"] = _names_of(f, s["ops"]) if s["ops"] else (s.get("detail", "").split("::")[-1] if s["kind"].startswith("diverge") else "")
        kk = (s["kind"], s["sig"])
        s["ord"] = cnt.get(kk, 0)
        cnt[kk] = s["ord"] + 1
        s["id"] = "%s#%s#%d" % (s["kind"], s["sig"], s["ord"])
    return out


# -- taint ---------------------------------------------------------------------------------------

def taint(prog, entry_keys, reach):
    """per function: set of tainted locals (data-dependent on entry parameters / decoded input)."""
    tainted = {k: set() for k in reach}
    tparams = {k: set() for k in reach}
    for k in entry_keys:
        if k in reach:
            f = prog.funcs[k]
            tparams[k] = set(range(1, f.argc + 1))
    changed = True
    rounds = 0
    while changed and rounds < 12:
        changed = False
        rounds += 1
        for k in reach:
            f = prog.funcs.get(k)
            if f is None or not f.blocks:
                continue
            T = set(tainted[k]) | set(tparams[k])
            if f.raw.get("kind") == "Closure":
                parent = f.raw.get("root")
                if parent in tainted and tainted[parent]:
                    T |= set(range(1, f.argc + 1))
            grew = True
            while grew:
                grew = False
                for bi, b in enumerate(f.blocks):
                    for s in b["s"]:
                        if s["k"] != "assign":
                            continue
                        tgt = s["p"][0]
                        if tgt in T:
                            continue
                        for src in ir.rv_operands(s["rv"]):
                            pl = op_place(src) if src[0] in ("cp", "mv") else (src[1] if src[0] == "pl" else None)
                            if pl and (pl[0] in T or any(isinstance(e, str) and e.startswith("[_") and int(e[2:-1]) in T for e in pl[1:])):
                                T.add(tgt)
                                grew = True
                                break
                    t = b["t"]
                    if t["k"] == "call":
                        any_t = any((op_local(a) in T) for a in t["a"] if op_local(a) is not None)
                        if any_t:
                            if t.get("dest") and t["dest"][0] not in T:
                                T.add(t["dest"][0])
                                grew = True
                            for a in t["a"]:
                                l = op_local(a)
                                if l is not None:
                                    f.defs(0)
                                    for o in f._mutref_origins(l, f._defs, set()):
                                        if o not in T:
                                            T.add(o)
                                            grew = True
            if T != tainted[k]:
                tainted[k] = T
                changed = True
            # propagate to callees
            for bi, t in f.calls():
                c = callee_of(t)
                if not c:
                    continue
                for tk in prog.call_targets(c):
                    if tk not in reach:
                        continue
                    g = prog.funcs[tk]
                    for i, a in enumerate(t["a"]):
                        l = op_local(a)
                        if l is not None and l in T and (i + 1) <= g.argc and (i + 1) not in tparams[tk]:
                            tparams[tk].add(i + 1)
                            changed = True
    return tainted


# -- discharge -------------------------------------------------------------------------------------

def _op_ty(f, op):
    l = op_local(op)
    if l is not None:
        pl = op_place(op)
        if len(pl) == 1:
            return f.local_ty(l)
        return ""
    c = op_const(op)
    return (c or {}).get("ty", "")


def _fmt(iv):
    if iv is None:
        return "?"

    def one(v):
        if v >= 1 << 20:
            b = v.bit_length()
            return "2^%d%s" % (b, "" if v == 1 << (b - 1) else "-") if v in (1 << (b - 1), (1 << b) - 1) else str(v)
        return str(v)
    return "[%s, %s]" % (one(iv[0]), one(iv[1]))


def _is_len_of(f, op, pos):
    """if `op` is len()/PtrMetadata of some container local, return the set of container origin locals."""
    l = op_local(op)
    if l is None:
        return None
    for x in f.copy_chain(l):
        for d in f.defs(x):
            if d["kind"] == "assign" and d["rv"][0] == "un" and d["rv"][1] == "PtrMetadata":
                src = op_local(d["rv"][2])
                return _container_roots(f, src)
            if d["kind"] == "call" and (callee_of(d["term"]) or {}).get("name") == "len" and d["term"]["a"]:
                return _container_roots(f, op_local(d["term"]["a"][0]))
    return None


def _container_roots(f, l):
    """locals a slice/vec reference may denote (through refs, derefs, Deref::deref, as_slice..)."""
    out = set()
    todo = [l]
    while todo:
        x = todo.pop()
        if x is None or x in out:
            continue
        out.add(x)
        for d in f.defs(x):
            if d["kind"] == "assign" and d["rv"][0] in ("use", "ref", "rawptr"):
                pl = op_place(d["rv"][1]) if d["rv"][0] == "use" else d["rv"][2]
                if pl:
                    todo.append(pl[0])
            elif d["kind"] == "assign" and d["rv"][0] == "cast":
                todo.append(op_local(d["rv"][2]))
            elif d["kind"] == "call" and (callee_of(d["term"]) or {}).get("name") in (
                    "deref", "deref_mut", "as_slice", "as_mut_slice", "as_ref", "as_mut", "borrow", "borrow_mut", "index", "index_mut") and d["term"]["a"]:
                if (callee_of(d["term"]) or {}).get("name") in ("index", "index_mut"):
                    continue
                todo.append(op_local(d["term"]["a"][0]))
    return out


LEN_MUTATORS = {"push", "pop", "resize", "resize_with", "truncate", "extend", "extend_from_slice", "append", "clear", "insert",
                "remove", "swap_remove", "drain", "retain", "dedup", "split_off", "set_len", "push_str"}


def _value_terms(f, op):
    """canonical terms equal to the integer denoted by `op`: ('c', constant identity), ('len', container local),
    ('v', single-definition local)."""
    c = op_const(op)
    if c is not None:
        ident = c.get("uneval") or c.get("uneval_def") or c.get("tyconst")
        if ident:
            return {("c", str(ident))}
        return {("c", str(c.get("v")), str(c.get("ty")))} if c.get("v") is not None else set()
    l = op_local(op)
    if l is None or len(op_place(op)) != 1:
        return set()
    out = set()
    for x in f.copy_chain(l):
        if len(f.defs(x)) <= 1:
            out.add(("v", x))
        for d in f.defs(x):
            if d["kind"] == "assign" and d["rv"][0] == "use" and op_const(d["rv"][1]) is not None and len(f.defs(x)) == 1:
                out |= _value_terms(f, d["rv"][1])
    roots = _is_len_of(f, op, None)
    for r in roots or ():
        out.add(("len", r))
    return out


def _length_terms(f, op, depth=0):
    """canonical terms equal to the length of the slice / Vec denoted by `op` (a sub-slice `base[..e]` has length e
    whenever the indexing itself did not panic)."""
    l = op_local(op)
    if l is None or depth > 4:
        return set()
    out = set()
    roots = _container_roots(f, l)
    for r in roots:
        out.add(("len", r))
        # ("call-mut" pseudo-definitions = the container lent mutably to a call: a slice cannot change its length
        # that way, a Vec only through one of LEN_MUTATORS, checked below)
        ds = [d for d in f.defs(r) if d.get("p") and len(d["p"]) == 1 and d["kind"] in ("assign", "call")]
        if len(ds) != 1 or ds[0]["kind"] != "call":
            continue
        t = ds[0]["term"]
        nm = (callee_of(t) or {}).get("name")
        if nm == "from_elem" and len(t["a"]) == 2:
            # vec![x; n]: length n as long as nothing resizes the vector
            mutated = any((callee_of(t2) or {}).get("name") in LEN_MUTATORS and t2["a"] and op_local(t2["a"][0]) is not None and
                          r in _container_roots(f, op_local(t2["a"][0])) for b2, t2 in f.calls() if not f.is_cleanup(b2))
            if not mutated:
                out |= _value_terms(f, t["a"][1])
        if nm in ("index", "index_mut") and len(t["a"]) == 2 and op_local(t["a"][1]) is not None:
            for x in f.copy_chain(op_local(t["a"][1])):
                for d in f.defs(x):
                    if d["kind"] == "assign" and d["rv"][0] == "agg" and d["rv"][1].get("adt") == "core::ops::range::RangeTo":
                        out |= _value_terms(f, d["rv"][2][0])
    return out


def _guarded_le(an, f, small, big, pos):
    """is there a dominating comparison establishing x <= y (or x < y) with x in `small` and y in `big` (term sets)?"""
    for g in an.guards(f):
        if g["kind"] != "cmp":
            continue
        ta, tb = _value_terms(f, g["a"]), _value_terms(f, g["b"])
        for edges, rel in ((g["true_edges"], g["op"]), (g["false_edges"], intervals.CMP_NEG[g["op"]])):
            if not edges or not an._edge_dominates(f, edges, pos):
                continue
            if rel in ("Lt", "Le") and ta & small and tb & big:
                return "dominated by the guard `range end %s collection length`" % ("<" if rel == "Lt" else "<=")
            if rel in ("Gt", "Ge") and tb & small and ta & big:
                return "dominated by the guard `collection length %s range end`" % (">" if rel == "Gt" else ">=")
    return None


def _range_loop_bound(an, f, idx_op, pos):
    """if idx is the item of `for idx in a..b`, return (loop, end operand, end position)."""
    from .rules.c03 import for_loops
    l = op_local(idx_op)
    if l is None:
        return None
    chain = f.copy_chain(l)
    for L in for_loops(f):
        if not (L["item_locals"] & chain) or pos[0] not in L["body"]:
            continue
        # iterator = into_iter(Range{start,end})
        sl = f.backward_slice([L["iter_local"]], at=(L["header"], 0))
        for agg in sl["aggs"]:
            pass
        for x in sl["locals"]:
            for d in f.defs(x):
                if d["kind"] == "assign" and d["rv"][0] == "agg" and d["rv"][1].get("adt", "").startswith("core::ops::range::Range"):
                    ops = d["rv"][2]
                    if len(ops) == 2:
                        return L, ops[0], ops[1], (d["bb"], d["si"])
    return None


def _index_lt_len(an, f, idx_op, len_roots, pos, len_op=None):
    """relational discharge of idx < len(container)."""
    li = op_local(idx_op)
    if li is None:
        return None
    # (1) dominating guard  idx < len' / idx >= len' -> leaves  with len' = len of the same container
    for g in an.guards(f):
        if g["kind"] != "cmp":
            continue
        la, lb = op_local(g["a"]), op_local(g["b"])
        for mine, other, swapped in ((la, g["b"], False), (lb, g["a"], True)):
            if mine is None or not an.same_value(f, mine, g["pos"], li, pos):
                continue
            oroots = _is_len_of(f, other, g["pos"]) if other[0] != "k" else None
            same_len = bool(oroots and len_roots and (oroots & len_roots))
            if not same_len and len_op is not None and op_local(other) is not None and op_local(len_op) is not None:
                same_len = an.same_value(f, op_local(other), g["pos"], op_local(len_op), pos)
            if not same_len:
                continue
            for edges, rel in ((g["true_edges"], g["op"]), (g["false_edges"], intervals.CMP_NEG[g["op"]])):
                if swapped:
                    rel = intervals.CMP_SWAP[rel]
                if rel == "Lt" and edges and an._edge_dominates(f, edges, pos):
                    return "dominated by the guard `index < len` on the same container"
    # (2) index is the counter of `for i in a..len(container)` (or a..n with n <= len by a guard)
    r = _range_loop_bound(an, f, idx_op, pos)
    if r:
        L, start, end, epos = r
        eroots = _is_len_of(f, end, epos) if end[0] != "k" else None
        if eroots and len_roots and (eroots & len_roots):
            return "index is the counter of a `for i in _..len(container)` loop over the same container"
        if len_op is not None and op_local(end) is not None and op_local(len_op) is not None and \
                an.same_value(f, op_local(end), epos, op_local(len_op), pos):
            return "index is the counter of a range loop bounded by the same length value"
    return None


def discharge(an, f, s, reach_feasible=None):
    """try to discharge one site automatically; returns (ok, how)."""
    kind = s["kind"]
    pos = (s["bb"], f.INF - 1)
    t = s["term"]

    def ev(op, _d=0):
        v = an.eval_op(f, op, pos)
        if v is None and op_local(op) is not None and _d < 4:
            # a reference to an integer (operator traits taken by reference): the referent
            ty = f.local_ty(op_local(op)).strip()
            if ty.startswith("&") and len(op_place(op) or [0, 0]) == 1:
                for dd in f.defs(op_local(op)):
                    if dd["kind"] == "assign" and dd["rv"][0] == "ref":
                        return an.eval_place(f, dd["rv"][2], (dd["bb"], dd.get("si", 0)), None, 0, None)
                    if dd["kind"] == "assign" and dd["rv"][0] == "use":
                        return ev(dd["rv"][1], _d + 1)
                return intervals.type_range(ty.lstrip("&").replace("mut ", "").strip())
        return v

    if not feasible(an, f, s["bb"]):
        return True, "site is unreachable: a dominating comparison is decided by the value ranges"
    if kind.startswith("Overflow:"):
        op = kind.split(":")[1]
        a, b = ev(s["ops"][0]), ev(s["ops"][1])
        ty = _op_ty(f, s["ops"][0]) or _op_ty(f, s["ops"][1])
        tr = intervals.type_range(ty)
        bits = intervals.type_bits(ty)
        if op in ("Shl", "Shr"):
            if b is not None and bits and 0 <= b[0] and b[1] < bits:
                return True, "shift amount in %s < %d bits" % (_fmt(b), bits)
            return False, "shift amount range %s may reach the bit width %s" % (_fmt(b), bits)
        if a is None or b is None or tr is None:
            return False, "operand ranges unknown"
        if op == "Add":
            ok = a[1] + b[1] <= tr[1] and a[0] + b[0] >= tr[0]
        elif op == "Sub":
            ok = a[0] - b[1] >= tr[0] and a[1] - b[0] <= tr[1]
            if not ok:
                # relational: a - b with a dominating guard a >= b / a > b
                la, lb = op_local(s["ops"][0]), op_local(s["ops"][1])
                if la is not None and lb is not None:
                    for g in an.guards(f):
                        if g["kind"] != "cmp":
                            continue
                        ga, gb = op_local(g["a"]), op_local(g["b"])
                        if ga is None or gb is None:
                            continue
                        for (x, y, sw) in ((ga, gb, False), (gb, ga, True)):
                            if an.same_value(f, x, g["pos"], la, pos) and an.same_value(f, y, g["pos"], lb, pos):
                                for edges, rel in ((g["true_edges"], g["op"]), (g["false_edges"], intervals.CMP_NEG[g["op"]])):
                                    if sw:
                                        rel = intervals.CMP_SWAP[rel]
                                    if rel in ("Ge", "Gt") and edges and an._edge_dominates(f, edges, pos):
                                        return True, "dominated by the guard lhs >= rhs"
        elif op == "Mul":
            c = [a[0] * b[0], a[0] * b[1], a[1] * b[0], a[1] * b[1]]
            ok = max(c) <= tr[1] and min(c) >= tr[0]
        else:
            ok = False
        if ok:
            return True, "%s of %s and %s stays inside %s" % (op, _fmt(a), _fmt(b), ty)
        return False, "%s of %s and %s can leave %s" % (op, _fmt(a), _fmt(b), ty)
    if kind == "BoundsCheck":
        ln, idx = s["ops"][0], s["ops"][1]
        a, b = ev(ln), ev(idx)
        if a is not None and b is not None and b[1] < a[0]:
            return True, "index %s < length %s" % (_fmt(b), _fmt(a))
        roots = _is_len_of(f, ln, pos)
        how = _index_lt_len(an, f, idx, roots, pos, len_op=ln)
        if how:
            return True, how
        return False, "index %s not shown below length %s" % (_fmt(b), _fmt(a))
    if kind in ("DivisionByZero", "RemainderByZero"):
        # the assert message carries the dividend; the divisor is the operand compared with 0 in the
        # assert's condition `!(divisor == 0)`
        d = None
        cl = op_local(t["c"]) if "c" in t else None
        if s.get("opcall"):
            d = s["ops"][0]
        if cl is not None:
            for dd in f.defs(cl):
                if dd["kind"] == "assign" and dd["rv"][0] == "bin" and dd["rv"][1] == "Eq":
                    d = dd["rv"][2] if (op_const(dd["rv"][3]) or {}).get("v") == "0" else dd["rv"][3]
        if d is None:
            return False, "divisor not identified"
        c = op_const(d)
        if c is not None and c.get("tyconst"):
            return True, "divisor is the const generic `%s` (instantiated with non-zero literals only, see C08.R1)" % c["tyconst"]
        a = ev(d)
        if a is not None and (a[0] >= 1 or a[1] <= -1):
            return True, "divisor in %s is non-zero" % _fmt(a)
        return False, "divisor range %s includes 0" % _fmt(a)
    if kind == "OverflowNeg":
        return False, "negation may overflow"
    if kind.startswith("call:"):
        name = kind[5:]
        args = s["ops"]
        if name in ("with_capacity", "reserve", "reserve_exact", "resize", "from_elem", "repeat"):
            n_op = {"with_capacity": 0, "reserve": 1, "reserve_exact": 1, "resize": 1, "from_elem": 1, "repeat": 1}[name]
            if n_op < len(args):
                a = ev(args[n_op])
                if a is not None and a[1] <= ALLOC_LIMIT:
                    return True, "allocation size in %s is bounded (<= 2^32 elements)" % _fmt(a)
                return False, "allocation size range %s is not bounded" % _fmt(a)
        if name == "pow" and len(args) == 2:
            a, b = ev(args[0]), ev(args[1])
            ty = _op_ty(f, args[0])
            tr = intervals.type_range(ty)
            if a and b and tr and a[0] >= 0 and b[1] < 1024 and a[1] ** b[1] <= tr[1]:
                return True, "%s ** %s fits %s" % (_fmt(a), _fmt(b), ty)
            return False, "pow(%s, %s) can overflow %s" % (_fmt(a), _fmt(b), ty)
        if name in ("ilog2", "ilog", "ilog10") and args:
            a = ev(args[0])
            if a is not None and a[0] >= 1:
                return True, "argument in %s is positive" % _fmt(a)
            return False, "ilog2 argument range %s includes 0" % _fmt(a)
        if name == "next_power_of_two" and args:
            a = ev(args[0])
            bits = intervals.type_bits(_op_ty(f, args[0])) or 64
            if a is not None and a[1] <= 1 << (bits - 1):
                return True, "argument %s <= 2^%d" % (_fmt(a), bits - 1)
            return False, "next_power_of_two argument %s may exceed 2^%d" % (_fmt(a), bits - 1)
        if name in ("chunks", "chunks_mut", "chunks_exact", "chunks_exact_mut", "windows", "step_by", "div_ceil") and len(args) >= 2:
            a = ev(args[1])
            if a is not None and a[0] >= 1:
                return True, "size/divisor argument in %s is non-zero" % _fmt(a)
            return False, "size/divisor argument range %s includes 0" % _fmt(a)
        if name in ("index", "index_mut") and len(args) == 2:
            ity = _op_ty(f, args[1])
            if ity == "usize":
                roots = _container_roots(f, op_local(args[0]))
                how = _index_lt_len(an, f, args[1], roots, pos)
                if how:
                    return True, how
                b = ev(args[1])
                return False, "index %s into a collection of unknown length" % _fmt(b)
            if "Range" in ity:
                rng = an._range_of(f, args[1], pos, None, 0, frozenset())
                ln = an.len_of(f, args[0], pos)
                if rng and ln:
                    kind_, s0, e0 = rng
                    if kind_ == "to" and e0 and e0[1] <= ln[0]:
                        return True, "range end %s <= length %s" % (_fmt(e0), _fmt(ln))
                    if kind_ == "range" and s0 and e0 and s0[1] <= e0[0] and e0[1] <= ln[0]:
                        return True, "range %s..%s inside length %s" % (_fmt(s0), _fmt(e0), _fmt(ln))
                    if kind_ == "from" and s0 and s0[1] <= ln[0]:
                        return True, "range start %s <= length %s" % (_fmt(s0), _fmt(ln))
                # relational: `..len / k` and `len / k..` of the collection's own length
                try:
                    from .rules.c14 import sym as _sym
                    base_sym = _sym(f, args[0])
                    for x in f.copy_chain(op_local(args[1])):
                        for d in f.defs(x):
                            if d["kind"] == "assign" and d["rv"][0] == "agg" and d["rv"][1].get("adt") in ("core::ops::range::RangeTo", "core::ops::range::RangeFrom"):
                                e = _sym(f, d["rv"][2][0])
                                if e[0] == "bin" and e[1] == "Div" and e[2] == ("len", base_sym) and e[3][0] == "k" and e[3][1] >= 1:
                                    return True, "range bound is the collection's own length divided by %d" % e[3][1]
                except Exception:
                    pass
                # relational: `..e` with e <= len(collection) by a dominating comparison on the same quantities
                for x in f.copy_chain(op_local(args[1])):
                    for d in f.defs(x):
                        if d["kind"] == "assign" and d["rv"][0] == "agg" and d["rv"][1].get("adt") == "core::ops::range::RangeTo":
                            how = _guarded_le(an, f, _value_terms(f, d["rv"][2][0]), _length_terms(f, args[0]), pos)
                            if how:
                                return True, how
                return False, "range index not shown inside the collection"
        if name in ("copy_from_slice", "clone_from_slice") and len(args) == 2:
            a, b = an.len_of(f, args[0], pos), an.len_of(f, args[1], pos)
            if a and b and a[0] == a[1] == b[0] == b[1]:
                return True, "both slices have length %d" % a[0]
            if _length_terms(f, args[0]) & _length_terms(f, args[1]):
                return True, "both slices have the same symbolic length (a `..n` sub-slice and a slice of length n)"
            return False, "slice lengths %s and %s not shown equal" % (_fmt(a), _fmt(b))
        if name in ("unwrap", "expect") and args:
            # <&[T] as TryInto<[T; N]>>::try_into(..).unwrap(): fine when the slice length is N
            l0 = op_local(args[0])
            if l0 is not None:
                for x in f.copy_chain(l0):
                    for d in f.defs(x):
                        if d["kind"] == "call" and (callee_of(d["term"]) or {}).get("name") == "try_into":
                            src = an.len_of(f, d["term"]["a"][0], (d["bb"], f.INF - 1))
                            dst_ty = f.local_ty(d["term"]["dest"][0])
                            import re as _re
                            m = _re.search(r"Result<\[[^;]+; (\d+)\]", dst_ty)
                            if m and src and src[0] == src[1] == int(m.group(1)):
                                return True, "slice of length %d converted into an array of the same length" % src[0]
        return False, "needs a reason (%s)" % s.get("detail", name)
    if kind.startswith("diverge:"):
        return False, "explicit panic path (%s) is reachable" % kind[8:]
    return False, "unhandled site kind"


def feasible(an, f, target_bb):
    """is target_bb reachable from the entry along edges not contradicted by value ranges?"""
    key = ("feas", f.key)
    cache = an.__dict__.setdefault("_feas", {})
    if key not in cache:
        seen = {0}
        dq = deque([0])
        while dq:
            b = dq.popleft()
            t = f.blocks[b]["t"]
            succ = f.succ(b)
            if t["k"] == "switch":
                allowed = None
                dl = op_local(t["d"])
                if dl is not None:
                    iv = an.eval_op(f, t["d"], (b, f.INF - 1))
                    if iv is not None:
                        arms = {int(v): tgt for v, tgt in t["arms"]}
                        allowed = set()
                        for v, tgt in arms.items():
                            if iv[0] <= v <= iv[1]:
                                allowed.add((tgt, str(v)))
                        # else edge feasible unless the interval is fully covered by the arms
                        covered = all(x in arms for x in range(iv[0], iv[1] + 1)) if iv[1] - iv[0] < 64 else False
                        if not covered:
                            allowed.add((t["else"], "else"))
                if allowed is not None:
                    succ = [(tg, lab) for tg, lab in succ if (tg, lab) in allowed]
            for tg, lab in succ:
                if tg not in seen:
                    seen.add(tg)
                    dq.append(tg)
        cache[key] = seen
    return target_bb in cache[key]


# -- `requires` facts of reviewed-table entries --------------------------------------------------

def _tokens(f, op):
    return set(_names_of(f, [op]).split(","))


FACTS = {}


def check_requires(prog, site_func, site, req):
    """re-verify the guard a reviewed reason relies on; returns (ok, how)."""
    from .patterns import cmp_sites, cmp_reject_relation, _SWAP
    if isinstance(req, list):
        hows = []
        for r in req:
            ok, how = check_requires(prog, site_func, site, r)
            if not ok:
                return False, how
            hows.append(how)
        return True, "; ".join(hows)
    kind = req.get("kind")
    if kind == "fact":
        fn = FACTS.get(req["name"])
        if fn is None:
            import importlib
            importlib.import_module("wfstatic.rules." + req["name"].split(".")[0])
            fn = FACTS.get(req["name"])
        if fn is None:
            return False, "unknown fact %s" % req["name"]
        return fn(prog)
    if kind == "dom-guard":
        # the site lies behind the edge on which `lhs rel rhs` holds (a comparison in the site's own function)
        from .patterns import _NEG
        f = site_func
        lhs, rhs, rel = req["lhs"], req["rhs"], req["rel"]

        def has(tokens, want):
            return any(want == x or want == x.lstrip(".") or want + "()" == x for x in tokens)
        for cs in cmp_sites(f):
            ta, tb = _tokens(f, cs["a"]), _tokens(f, cs["b"])
            for sw in (False, True):
                x, y = (tb, ta) if sw else (ta, tb)
                if not (has(x, lhs) and has(y, rhs)):
                    continue
                op = _SWAP[cs["op"]] if sw else cs["op"]
                for c in f.bool_checks_of_local(cs["local"]):
                    edges = c["true_edges"] if op == rel else (c["false_edges"] if _NEG[op] == rel else [])
                    if edges and f.must_cross([site["bb"]], cut_edges=edges):
                        return True, "behind the edge where %s %s %s" % (lhs, rel, rhs)
        return False, "the site is no longer behind a branch establishing %s %s %s" % (lhs, rel, rhs)
    if kind == "callee-ok-nonempty":
        # every Ok exit of the named function lies behind a rejecting is_empty() test
        g = prog.funcs.get(req["func"])
        if g is None:
            return False, "function %s not found" % req["func"]
        return check_requires(prog, site_func, site, {"kind": "pred-guard", "func": req["func"], "pred": "is_empty", "count": 1})
    if kind == "ok-edge-of":
        f = site_func
        edges = []
        for bi, t in f.calls_named(req["callee_name"]):
            for c in f.result_checks(bi):
                edges += c["pass_edges"]
        if edges and f.must_cross([site["bb"]], cut_edges=edges):
            return True, "behind the Ok edge of %s()?" % req["callee_name"]
        # `check(..).map(|()| site)` / `.and_then(|..| site)`: the site sits in a closure that Result::map / and_then
        # runs only on the Ok value of that call
        if "{closure" in f.key:
            from .patterns import closure_site
            cs = closure_site(prog, f)
            if cs:
                parent, st = cs
                cl_local = st["p"][0]
                for bi, t in parent.calls():
                    c = callee_of(t) or {}
                    if parent.is_cleanup(bi) or c.get("name") not in ("map", "and_then") or c.get("krate") != "core" or \
                            "result::Result" not in str(c.get("def", "")) or len(t["a"]) != 2:
                        continue
                    if op_local(t["a"][1]) is None or cl_local not in parent.copy_chain(op_local(t["a"][1])) | {op_local(t["a"][1])}:
                        continue
                    recv = op_local(t["a"][0])
                    for x in (parent.copy_chain(recv) | {recv}) if recv is not None else ():
                        for d in parent.defs(x):
                            if d["kind"] == "call" and (callee_of(d["term"]) or {}).get("name") == req["callee_name"]:
                                return True, "inside the closure that Result::%s runs on the Ok value of %s()" % (c["name"], req["callee_name"])
        return False, "the site is no longer behind the Ok edge of %s()" % req["callee_name"]
    g = prog.funcs.get(req.get("func", ""))
    if g is None:
        return False, "guard function %s not found" % req.get("func")
    try:
        g = prog.fn(g.key)      # private helpers holding the guard are spliced in
    except Exception:
        pass
    oks = g.ok_exit_blocks()
    if kind == "err-guard":
        lhs, rhs, rel = req["lhs"], req["rhs"], req["rel"]
        cands = []
        for s in cmp_sites(g):
            cands.append((s, s["a"], s["b"], None))
        for bi, t in g.calls():
            c = callee_of(t)
            if c and c.get("name") in ("eq", "ne") and len(t["a"]) == 2 and t.get("dest"):
                cands.append(({"local": t["dest"][0], "op": "Eq" if c["name"] == "eq" else "Ne", "a": t["a"][0], "b": t["a"][1],
                               "at": t["sp"]["at"], "bb": bi}, t["a"][0], t["a"][1], bi))
        for s, a, b, _ in cands:
            ta, tb = _tokens(g, a), _tokens(g, b)

            def has(tokens, want):
                return any(want == x or want == x.lstrip(".") or want + "()" == x for x in tokens)
            for sw in (False, True):
                x, y = (tb, ta) if sw else (ta, tb)
                if has(x, lhs) and has(y, rhs):
                    ok, how, r = cmp_reject_relation(g, s, targets=oks)
                    if not ok:
                        from .rules.c03 import for_loops
                        for L in for_loops(g):
                            if s["bb"] in L["body"]:
                                ok, how, r = cmp_reject_relation(g, s, targets=oks, per_iteration=L)
                                if ok:
                                    break
                    if ok and (_SWAP[r] if sw else r) == rel:
                        return True, "guard `%s %s %s => Err` in %s" % (lhs, rel, rhs, g.key.split("::")[-1])
        return False, "guard `%s %s %s => Err` not found in %s" % (lhs, rel, rhs, g.key)
    if kind == "pred-guard":
        n = 0

        def false_means_reject(target, depth=0, seen=None):
            """the predicate was false and control reached `target`: does the function reject?  Either no
            accepting exit is reachable, or a boolean summary is set to false on the way and the
            function rejects (directly or through further summaries) when that boolean is false."""
            seen = seen if seen is not None else set()
            if depth > 6 or target in seen:
                return False
            seen.add(target)
            if not g.can_reach(target, oks):
                return True
            b = target
            for _ in range(6):
                blk = g.blocks[b]
                for st in blk["s"]:
                    if st["k"] == "assign" and len(st["p"]) == 1 and st["rv"][0] == "use" and st["rv"][1][0] == "k" and \
                            g.local_ty(st["p"][0]) == "bool" and str(st["rv"][1][1].get("v")) in ("0", "false"):
                        y = st["p"][0]
                        sw = []
                        for bi2, blk2 in enumerate(g.blocks):
                            t2 = blk2["t"]
                            if t2["k"] == "switch" and not blk2.get("cleanup") and op_local(t2["d"]) is not None and y in g.copy_chain(op_local(t2["d"])):
                                sw.append((bi2, [tg for tg, lab in g.succ(bi2) if lab == "0"]))
                        if sw and all(tg_list and all(false_means_reject(tg, depth + 1, seen) for tg in tg_list) for _, tg_list in sw):
                            return True
                succ = g.succ(b)
                if len(succ) != 1:
                    break
                b = succ[0][0]
            return False
        for bi, t in g.calls_named(req["pred"]):
            for c in g.bool_checks_of(bi):
                if c["false_edges"] and all(not g.can_reach(tt, oks) for _, tt in c["false_edges"]) or \
                        c["true_edges"] and all(not g.can_reach(tt, oks) for _, tt in c["true_edges"]):
                    n += 1
                    break
                if c["false_edges"] and all(false_means_reject(tt) for _, tt in c["false_edges"]):
                    n += 1
                    break
        if n >= req.get("count", 1):
            return True, "%d rejecting %s() tests in %s" % (n, req["pred"], g.key.split("::")[-1])
        return False, "expected %d rejecting %s() tests in %s, found %d" % (req.get("count", 1), req["pred"], g.key, n)
    return False, "unknown requires kind %s" % kind


# -- the inventory ---------------------------------------------------------------------------------

def root_key(k):
    return k.split("::{closure")[0]


def load_table(path):
    if not os.path.exists(path):
        return {}
    with open(path) as fh:
        d = json.load(fh)
    return {e["key"]: e for e in d.get("sites", [])}


_FP_CACHE = {}


def stable_key(prog, k):
    """function key with closure ordinals replaced by a content fingerprint (the set of callee names
    and named locals of the closure body), so inserting another closure earlier in the parent
    function does not shift the keys of reviewed sites."""
    if "{closure#" not in k:
        return k
    if k in _FP_CACHE:
        return _FP_CACHE[k]
    import hashlib, re
    parts = k.split("::")
    out = []
    prefix = []
    for part in parts:
        prefix.append(part)
        m = re.match(r"^\{closure#(\d+)\}$", part)
        if m:
            f = prog.funcs.get("::".join(prefix))
            names = set()
            if f is not None:
                for bi, t in f.calls():
                    c = callee_of(t)
                    if c and c.get("name"):
                        names.add(c["name"])
                names |= {l.get("name") for l in f.locals if l.get("name")}
            fp = hashlib.sha1(",".join(sorted(names)).encode()).hexdigest()[:6]
            out.append("{closure~%s}" % fp)
        else:
            out.append(part)
    r = "::".join(out)
    _FP_CACHE[k] = r
    return r


def inventory(prog, entry_keys, stop, table, scope_crates=None):
    """Enumerate and try to discharge every panic site reachable from the entries.

    Returns list of dict(func, site, verdict in auto/table/untainted/open, how, key, path)."""
    entry_keys = [k for k in entry_keys if k in prog.funcs]
    reach = prog.reachable_from(entry_keys, stop=stop)
    keys = [k for k in reach if not stop(k) and (scope_crates is None or prog.funcs[k].crate in scope_crates)]
    an = intervals.Analysis(prog)
    an.compute_param_env(entry_keys, set(keys))
    tn = taint(prog, entry_keys, set(keys))
    out = []
    # site keys: root function (closure segments dropped) + kind + operand signature + ordinal among
    # equal signatures over the root function and its closures.  Two signatures are computed: the
    # full one (with local variable names; descriptive, used as the primary key) and a name-free one
    # (fields, callee names, constants): a table entry whose full key no longer exists is matched
    # through the name-free key, so renaming locals keeps reviewed reasons attached.
    counters, acounters, kcounters = {}, {}, {}
    staged = []
    # private helpers that are spliced into every caller in scope (inline.py) are analysed there, with
    # the caller's guards in view, and not a second time on their own
    from . import inline as _inline
    callers_of = {}
    for k in keys:
        for bi, t in prog.funcs[k].calls():
            c = callee_of(t)
            if c:
                tk = c.get("rdef") or c["def"]
                if tk in prog.funcs:
                    callers_of.setdefault(tk, []).append((k, t))
    spliced = set()
    for hk, sites_ in callers_of.items():
        if hk in keys and all(_inline.inlinable(prog, prog.funcs[ck], t) is not None for ck, t in sites_):
            spliced.add(hk)
    spliced = {hk for hk in spliced if hk not in entry_keys}
    # helpers that a reviewed reason refers to by name (ok-edge-of / err-guard / pred-guard) stay calls
    named, named_keys = set(), set()
    for e in table.values():
        rq = e.get("requires")
        for q in (rq if isinstance(rq, list) else [rq] if rq else []):
            if q.get("callee_name"):
                named.add(q["callee_name"])
            if q.get("func"):
                named_keys.add(q["func"])
    spliced = {hk for hk in spliced if hk not in named_keys and (prog.funcs[hk].name or "") not in named}
    no_inl = getattr(prog, "_no_inline", set()) | {hk for hk in callers_of if (prog.funcs[hk].name or "") in named or hk in named_keys}
    if no_inl != getattr(prog, "_no_inline", set()):
        prog._no_inline = no_inl
        prog.__dict__.pop("_inlined", None)
    for k in sorted(keys, key=lambda kk: (root_key(kk), kk)):
        if root_key(k) in spliced:
            continue
        f = prog.fn(k) if "{closure" not in k else prog.funcs[k]
        for s in sites_of(f):
            ck = (root_key(k), s["kind"], s["sig"])
            s["ord"] = counters.get(ck, 0)
            counters[ck] = s["ord"] + 1
            s["id"] = "%s#%s#%d" % (s["kind"], s["sig"], s["ord"])
            ak = (root_key(k), s["kind"], s["asig"])
            ao = acounters.get(ak, 0)
            acounters[ak] = ao + 1
            s["akey"] = "%s#%s#%s#%d" % (root_key(k), s["kind"], s["asig"], ao)
            kk = (root_key(k), s["kind"])
            ko = kcounters.get(kk, 0)
            kcounters[kk] = ko + 1
            s["kkey"] = "%s#%s#@%d" % (root_key(k), s["kind"], ko)
            staged.append((k, f, s, "%s#%s" % (root_key(k), s["id"])))
    present = {key for _, _, _, key in staged}
    alt_index, kind_index = {}, {}
    for e in table.values():
        if e.get("alt"):
            alt_index.setdefault(e["alt"], e)
        if e.get("kalt"):
            kind_index.setdefault(e["kalt"], e)
    table = dict(table)
    for k, f, s, key in staged:
        s["nkind"] = kcounters[(root_key(k), s["kind"])]
        if True:
            if key not in table:
                cand = alt_index.get(s["akey"])
                if cand is None or cand["key"] in present:
                    # last resort: same root function, same kind, same position among the sites of
                    # that kind, and the number of such sites is unchanged (the operand expression was
                    # rewritten, e.g. `&usize / usize` through the operator trait vs a plain division)
                    cand = kind_index.get(s["kkey"])
                    if cand is not None and cand.get("nkind") != s["nkind"]:
                        cand = None
                if cand is not None and cand["key"] not in present:
                    table[key] = cand
            ok, how = discharge(an, f, s)
            rec = {"func": k, "site": s, "key": key, "akey": s["akey"], "kkey": s["kkey"], "nkind": s["nkind"], "origin": s.get("origin"), "at": s["at"], "path": ir.Program.path_to(reach, k)}
            if ok:
                rec.update(verdict="auto", how=how)
            elif key in table and ("requires" not in table[key] or check_requires(prog, f, s, table[key]["requires"])[0]):
                extra = ""
                if "requires" in table[key]:
                    extra = " [re-verified: %s]" % check_requires(prog, f, s, table[key]["requires"])[1]
                rec.update(verdict="table", how="reviewed: " + table[key]["reason"] + extra)
            elif key in table:
                rec.update(verdict="open", how="reviewed reason no longer holds: %s (%s)" % (
                    check_requires(prog, f, s, table[key]["requires"])[1], table[key]["reason"][:80]))
            else:
                ops_tainted = any(op_local(o) in tn.get(k, set()) for o in s["ops"] if op_local(o) is not None)
                if s["ops"] and not ops_tainted and not s["kind"].startswith("diverge"):
                    rec.update(verdict="untainted", how="operands are not data-dependent on the entry points' inputs (%s)" % how)
                else:
                    rec.update(verdict="open", how=how)
            out.append(rec)
    return out, keys, an
