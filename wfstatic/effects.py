"""Effect tables for leaves outside the workspace: ambient inputs (time, randomness, environment,
thread identity, hash-map iteration order, interior-mutable shared state) and schedule-dependent
parallel combinators."""
from . import ir
from .ir import callee_of

AMBIENT_PREFIXES = (
    "std::time::", "std::env::", "std::process::id", "std::thread::current", "std::thread::ThreadId",
    "std::thread::available_parallelism", "rand::", "rand_core::", "rand_chacha::", "getrandom::",
    "std::collections::hash::map::RandomState", "std::hash::random::", "std::sys::random",
    "std::collections::hash::map::HashMap", "std::collections::hash::set::HashSet",
    "std::fs::", "std::net::", "std::io::stdin", "core::sync::atomic::", "std::sync::",
    "std::thread::spawn", "std::thread::sleep", "core::ptr::addr", "core::hint::black_box",
    "winter_rand_utils::",
)
# rayon::current_num_threads is reported separately (C06.R4), not as an ambient input

SCHEDULE_DEPENDENT = (
    "find_any", "find_map_any", "position_any", "any", "all", "try_for_each", "try_for_each_with",
    "try_for_each_init", "try_fold", "try_fold_with", "try_reduce", "try_reduce_with", "while_some",
    "panic_fuse", "collect_into_hash", "reduce_with", "find_first", "find_last",
)


def ambient_calls(prog, keys):
    """(function key, site, callee) for every call to an ambient-input leaf in the given functions."""
    out = []
    for k in sorted(keys):
        f = prog.funcs.get(k)
        if f is None:
            continue
        for bi, t in f.calls():
            c = callee_of(t)
            if not c:
                continue
            for d in (c["def"], c.get("rdef") or ""):
                if d.startswith(AMBIENT_PREFIXES):
                    out.append((k, ir.line_of(t["sp"]["at"]), d))
                    break
        # pointer -> integer casts (address-dependent data)
        for b in f.blocks:
            for s in b["s"]:
                if s["k"] == "assign" and s["rv"][0] == "cast" and "PointerExposeProvenance" in s["rv"][1]:
                    out.append((k, ir.line_of(s["sp"]["at"]), "pointer-to-integer cast"))
    return out
