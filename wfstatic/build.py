"""Build (or reuse) MIR/const fact files for /repo's current working tree.

Facts are produced by the rustc_private driver in /verif/driver injected through
RUSTC_WORKSPACE_WRAPPER under `cargo +nightly check`.  The cache key is a hash over the content
of every source/manifest file of the repository, so facts are always those of the current tree.
"""
import hashlib, os, subprocess, sys, json, shutil, fcntl, time, glob

VERIF = os.path.dirname(os.path.dirname(os.path.abspath(__file__)))
REPO = os.environ.get("WF_REPO", "/repo")
CACHE = os.environ.get("WF_CACHE", os.path.join(VERIF, ".cache"))
DRIVER = os.path.join(VERIF, "driver", "target", "release", "wf-facts-driver")
SLOTS = int(os.environ.get("WF_TARGET_SLOTS", "4"))

CONFIGS = {
    # cfg id -> cargo arguments
    "default": ["--workspace"],
    "concurrent": ["--workspace", "--features", "examples/concurrent"],
    "nostd": ["-p", "winter-utils", "-p", "winter-math", "-p", "winter-crypto", "-p", "winter-fri",
              "-p", "winter-air", "-p", "winter-verifier", "--no-default-features"],
}

EXPECTED_CRATES = {
    "default": ["winter_utils", "winter_math", "winter_crypto", "winter_fri", "winter_air",
                "winter_prover", "winter_verifier"],
    "concurrent": ["winter_utils", "winter_math", "winter_crypto", "winter_fri", "winter_air",
                   "winter_prover", "winter_verifier"],
    "nostd": ["winter_utils", "winter_math", "winter_crypto", "winter_fri", "winter_air",
              "winter_verifier"],
}


def tree_hash(repo=None):
    repo = repo or REPO
    h = hashlib.sha256()
    files = []
    for root, dirs, fs in os.walk(repo):
        dirs[:] = sorted(d for d in dirs if d not in ("target", ".git"))
        for f in sorted(fs):
            if f.endswith(".rs") or f in ("Cargo.toml", "Cargo.lock", "rust-toolchain.toml"):
                files.append(os.path.join(root, f))
    for p in files:
        h.update(os.path.relpath(p, repo).encode())
        h.update(b"\0")
        with open(p, "rb") as fh:
            h.update(hashlib.sha256(fh.read()).digest())
    # the driver itself is part of the key: a rebuilt driver invalidates facts
    try:
        with open(DRIVER, "rb") as fh:
            h.update(hashlib.sha256(fh.read()).digest())
    except OSError:
        pass
    return h.hexdigest()[:24], len(files)


def sysroot():
    return subprocess.check_output(["rustc", "+nightly", "--print", "sysroot"], text=True).strip()


def ensure_driver():
    if os.path.exists(DRIVER):
        return
    subprocess.check_call(["cargo", "+nightly", "build", "--release", "--offline"],
                          cwd=os.path.join(VERIF, "driver"))


def facts_dir(cfg, key):
    return os.path.join(CACHE, "facts", key, cfg)


def build(cfg="default", repo=None, quiet=True):
    """Return the directory holding fact JSON files for `cfg` at the repo's current tree."""
    repo = repo or REPO
    ensure_driver()
    key, nfiles = tree_hash(repo)
    out = facts_dir(cfg, key)
    stamp = os.path.join(out, "COMPLETE")
    if os.path.exists(stamp):
        try:
            os.utime(os.path.dirname(out), None)
        except OSError:
            pass
        return out
    os.makedirs(CACHE, exist_ok=True)
    # one of a few reusable target dirs (registry dependencies stay compiled; workspace members
    # are forced to rebuild by deleting their fingerprints, so the wrapper always runs)
    lock = None
    slot = 0
    while lock is None:
        for slot in range(SLOTS):
            fh = open(os.path.join(CACHE, "target-%s-%d.lock" % (cfg, slot)), "w")
            try:
                fcntl.flock(fh, fcntl.LOCK_EX | fcntl.LOCK_NB)
                lock = fh
                break
            except OSError:
                fh.close()
        if lock is None:
            time.sleep(0.5)
            if os.path.exists(stamp):
                return out
    try:
        if os.path.exists(stamp):
            return out
        target = os.path.join(CACHE, "target-%s-%d" % (cfg, slot))
        for fp in glob.glob(os.path.join(target, "debug", ".fingerprint", "*")):
            base = os.path.basename(fp)
            if base.startswith(("winter", "examples")):
                shutil.rmtree(fp, ignore_errors=True)
        tmp_out = out + ".tmp%d" % os.getpid()
        shutil.rmtree(tmp_out, ignore_errors=True)
        shutil.rmtree(out, ignore_errors=True)
        os.makedirs(tmp_out, exist_ok=True)
        env = dict(os.environ)
        env.update({
            "CARGO_INCREMENTAL": "0",
            "LD_LIBRARY_PATH": sysroot() + "/lib",
            "RUSTFLAGS": "-Zmir-opt-level=0 -Awarnings",
            "CARGO_NET_OFFLINE": "true",
            "WF_FACTS_DIR": tmp_out,
            "WF_FACTS_CFG": cfg,
            "RUSTC_WORKSPACE_WRAPPER": DRIVER,
            "CARGO_TARGET_DIR": target,
        })
        env.pop("RUSTUP_TOOLCHAIN", None)
        t0 = time.time()
        cmd = ["cargo", "+nightly", "check", "--offline"] + CONFIGS[cfg]
        p = subprocess.run(cmd, cwd=repo, env=env, stdout=subprocess.PIPE,
                           stderr=subprocess.STDOUT, text=True)
        if p.returncode != 0:
            sys.stderr.write(p.stdout[-6000:])
            shutil.rmtree(tmp_out, ignore_errors=True)
            raise RuntimeError("fact build failed for cfg %s (tree does not type-check?)" % cfg)
        have = {os.path.basename(f).split("-")[0] for f in glob.glob(os.path.join(tmp_out, "*.json"))}
        missing = [c for c in EXPECTED_CRATES[cfg] if c not in have]
        if missing:
            shutil.rmtree(tmp_out, ignore_errors=True)
            shutil.rmtree(target, ignore_errors=True)
            raise RuntimeError("fact files missing for crates %s (cfg %s)" % (missing, cfg))
        os.makedirs(os.path.dirname(out), exist_ok=True)
        os.rename(tmp_out, out)
        with open(stamp, "w") as fh:
            json.dump({"tree": key, "files_hashed": nfiles, "cfg": cfg,
                       "build_s": round(time.time() - t0, 1)}, fh)
        # bound the cache: drop fact trees that have not been touched for six hours
        now = time.time()
        for old in glob.glob(os.path.join(CACHE, "facts", "*")):
            try:
                if os.path.basename(old) != key and now - os.path.getmtime(old) > 6 * 3600:
                    shutil.rmtree(old, ignore_errors=True)
            except OSError:
                pass
        return out
    finally:
        fcntl.flock(lock, fcntl.LOCK_UN)
        lock.close()


if __name__ == "__main__":
    cfgs = sys.argv[1:] or ["default"]
    for c in cfgs:
        t = time.time()
        d = build(c)
        print(c, d, "%.1fs" % (time.time() - t))
