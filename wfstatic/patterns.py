"""Reusable rule building blocks on top of ir.Func."""
from . import ir
from .ir import AnchorLost, callee_of, callee_keys, is_call_to, op_place, op_local, op_const, op_const_int

VERIFY_MANY = "winter_crypto::commitment::VectorCommitment::verify_many"
HASH_ELEMENTS = "winter_crypto::hash::ElementHasher::hash_elements"
RESEED = "winter_crypto::random::RandomCoin::reseed"
DRAW = "winter_crypto::random::RandomCoin::draw"
DRAW_INTEGERS = "winter_crypto::random::RandomCoin::draw_integers"
CHECK_LEADING_ZEROS = "winter_crypto::random::RandomCoin::check_leading_zeros"
PARTIAL_EQ = ("core::cmp::PartialEq::eq", "core::cmp::PartialEq::ne")


def calls_to(f, keys, minimum=1, what=None):
    if isinstance(keys, str):
        keys = (keys,)
    out = f.calls_to(*keys)
    if len(out) < minimum:
        raise AnchorLost("%s: expected >=%d call(s) to %s, found %d" % (f.key, minimum, what or keys[0], len(out)))
    return out


def arg_slice(f, term, idx, **kw):
    """slice of the idx-th argument of a call terminator, as read at the call."""
    if "at" not in kw and "_bb" in term:
        kw["at"] = (term["_bb"], f.INF)
    return f.slice_of_operand(term["a"][idx], **kw)


def slice_const_ints(sl):
    out = set()
    for c in sl["consts"]:
        if c is not None and "v" in c:
            out.add(int(c["v"]))
    return out


def slice_field_bases(sl):
    """field name -> set of base locals it is read from in the slice."""
    out = {}
    for pl in sl["places"]:
        for name in ir.place_fields(pl):
            out.setdefault(name, set()).add(pl[0])
    return out


def closure_calls(prog, closure_keys, callee_keys_wanted):
    """calls to any of the wanted callees inside the given closure bodies (and nested closures)."""
    found = []
    todo = list(closure_keys)
    seen = set()
    while todo:
        k = todo.pop()
        if k in seen or k not in prog.funcs:
            continue
        seen.add(k)
        cf = prog.funcs[k]
        for bi, t in cf.calls():
            if is_call_to(t, *callee_keys_wanted):
                found.append((cf, bi, t))
        todo.extend(cf.closure_defs())
    return found


def check_result_guard(f, call_bb, targets=None, start=0, extra_cut_edges=()):
    """Decide whether the Result produced at call_bb guards `targets` (default: all Ok-exits).

    Returns (ok, how).  ok requires: the result reaches a discriminant switch through carriers
    only; no fail edge of that switch can reach a target; with the pass edges (plus extra_cut_edges)
    removed no target is reachable from `start`; and targets are reachable at all.
    """
    if targets is None:
        targets = f.ok_exit_blocks()
    if not targets:
        return False, "function has no accepting exit to guard"
    checks = f.result_checks(call_bb)
    t = f.term(call_bb)
    cname = (callee_of(t) or {}).get("name", "?")
    if not checks:
        if delegated_result_guard(f, call_bb):
            return True, "the function returns %s()'s result through .map / .map_err only: Ok only if %s() returned Ok" % (cname, cname)
        return False, "result of %s() at %s is never tested (dropped, `let _`, `.ok()` or unwrapped)" % (
            cname, ir.line_of(t["sp"]["at"]))
    pass_edges, fail_edges = [], []
    for c in checks:
        pass_edges += c["pass_edges"]
        fail_edges += c["fail_edges"]
    for (sb, tgt) in fail_edges:
        blk = f.blocks[tgt]
        if blk["t"]["k"] == "unreachable":
            continue
        if f.can_reach(tgt, targets):
            return False, "the error edge bb%d->bb%d of the test on %s() can still reach an accepting exit" % (sb, tgt, cname)
    if not f.can_reach(start, targets):
        return False, "accepting exit unreachable from bb%d (vacuous)" % start
    if not f.must_cross(targets, cut_edges=list(pass_edges) + list(extra_cut_edges), start=start):
        return False, "an accepting exit is reachable without passing the Ok edge of %s() (%s)" % (
            cname, ir.line_of(t["sp"]["at"]))
    return True, "every accepting exit lies behind the Ok edge of %s()? at %s; Err edge returns" % (
        cname, ir.line_of(checks[0]["at"]))


def check_bool_guard(f, bool_local_or_call_bb, targets=None, start=0, is_call=True, reject_when=None):
    """The bool (result of a comparison call or a BinaryOp local) must be branched on, one edge
    must be a reject edge (cannot reach a target) and all targets lie behind the other edge.
    reject_when: True/False/None = which truth value must be the rejecting one (None = either)."""
    if targets is None:
        targets = f.ok_exit_blocks()
    chk = f.bool_checks_of(bool_local_or_call_bb) if is_call else f.bool_checks_of_local(bool_local_or_call_bb)
    if not chk:
        return False, "comparison result is never branched on"
    for c in chk:
        t_reach = any(f.can_reach(t, targets) for (_, t) in c["true_edges"])
        f_reach = any(f.can_reach(t, targets) for (_, t) in c["false_edges"])
        if t_reach and f_reach:
            continue
        if not t_reach and not f_reach:
            continue
        rejecting = True if not t_reach else False
        if reject_when is not None and rejecting != reject_when:
            return False, "branch at %s rejects on the %s edge, expected the %s edge" % (
                ir.line_of(c["at"]), rejecting, reject_when)
        pass_edges = c["false_edges"] if rejecting else c["true_edges"]
        if f.must_cross(targets, cut_edges=pass_edges, start=start) and f.can_reach(start, targets):
            return True, "branch at %s: %s edge rejects, every accepting exit lies behind the other edge" % (
                ir.line_of(c["at"]), "true" if rejecting else "false")
    return False, "no branch on this comparison both rejects on one edge and dominates the accepting exits"


def option_switches_on_field(f, field):
    """switches on discriminant(<place reading `field`>) -> list of dict(bb, some_edges, none_edges)."""
    out = []
    for bi, b in enumerate(f.blocks):
        for s in b["s"]:
            direct = s["k"] == "assign" and s["rv"][0] == "discr" and field in ir.place_fields(s["rv"][1])
            via = False
            if s["k"] == "assign" and s["rv"][0] == "discr" and not direct and len(s["rv"][1]) == 1:
                # `if let Some(x) = self.field.as_ref()`: the discriminant of an Option obtained from the
                # field through as_ref / as_mut / as_deref (shape-preserving views)
                for d in f.defs(s["rv"][1][0]):
                    if d["kind"] == "call" and (callee_of(d["term"]) or {}).get("name") in ("as_ref", "as_mut", "as_deref", "as_deref_mut") and d["term"]["a"]:
                        sl = f.slice_of_operand(d["term"]["a"][0], at=(d["bb"], f.INF))
                        if any(field in ir.place_fields(pl) for pl in sl["places"]):
                            via = True
            if direct or via:
                dl = s["p"][0]
                for u in f.uses(dl):
                    if u["kind"] == "switch":
                        sb = u["bb"]
                        some, none = [], []
                        for tgt, lab in f.succ(sb):
                            (some if lab == "1" else none).append((sb, tgt))
                        out.append({"bb": sb, "some_edges": some, "none_edges": none})
    return out


def ok_payload_slice(f):
    """slice of the operands of every `_0 = Ok(..)` aggregate."""
    locs = []
    ops = []
    for e in f.exits():
        if e["kind"] == "ok":
            st = f.blocks[e["bb"]]["s"][e["si"]]
            for o in st["rv"][2]:
                ops.append(o)
                pl = op_place(o)
                if pl:
                    locs.append(pl[0])
    sl = {"locals": set(), "calls": set(), "places": [], "consts": [], "args": set(), "closures": set(), "aggs": []}
    for e in f.exits():
        if e["kind"] == "ok":
            st = f.blocks[e["bb"]]["s"][e["si"]]
            one = f.backward_slice([op_local(o) for o in st["rv"][2] if op_local(o) is not None], at=(e["bb"], e["si"]))
            for k in ("locals", "calls", "args", "closures"):
                sl[k] |= one[k]
            for k in ("places", "consts", "aggs"):
                sl[k] += one[k]
    for o in ops:
        pl = op_place(o)
        if pl:
            sl["places"].append(pl)
    # a Result returned through Err-preserving combinators: `r.map(|..| payload).map_err(..)`; the Ok
    # payload is produced by the `map` closure from its captures
    for e in f.exits():
        if not e["kind"].startswith("call:"):
            continue
        t = f.term(e["bb"])
        seen = set()
        while t is not None and (callee_of(t) or {}).get("name") in ERR_PRESERVING and t.get("_bb") not in seen:
            seen.add(t.get("_bb"))
            if callee_of(t)["name"] == "map" and len(t["a"]) == 2 and op_local(t["a"][1]) is not None:
                one = f.slice_of_operand(t["a"][1], at=(t["_bb"], f.INF))
                for k in ("locals", "calls", "args", "closures"):
                    sl[k] |= one[k]
                for k in ("places", "consts", "aggs"):
                    sl[k] += one[k]
            nxt = None
            rl = op_local(t["a"][0]) if t["a"] else None
            if rl is not None:
                for x in f.copy_chain(rl):
                    for d in f.defs(x):
                        if d["kind"] == "call":
                            nxt = d["term"]
            t = nxt
    return sl


ERR_PRESERVING = ("map", "map_err")


def delegated_result_guard(f, call_bb):
    """the Result of the call at call_bb is returned through Err-preserving combinators only
    (`.map(..)`, `.map_err(..)`): the function can return Ok only if that call returned Ok."""
    t = f.term(call_bb)
    if not t.get("dest"):
        return False
    cur = {t["dest"][0]}
    frontier = set(cur)
    for _ in range(6):
        nxt = set()
        for bi, t2 in f.calls():
            c = callee_of(t2)
            if c and c.get("name") in ERR_PRESERVING and t2["a"] and op_local(t2["a"][0]) is not None and \
                    f.copy_chain(op_local(t2["a"][0])) & frontier and t2.get("dest"):
                if t2["dest"] == [0]:
                    # every accepting exit must be this delegated return
                    oks = f.ok_exit_blocks()
                    return all(b == bi for b in oks)
                nxt.add(t2["dest"][0])
        if not nxt:
            break
        frontier = nxt
    return False


def call_before(f, bb_a, bb_b):
    """True iff every path from entry to bb_b passes through bb_a (bb_a dominates bb_b)."""
    if bb_a == bb_b:
        return True
    return f.must_cross([bb_b], cut_blocks=[bb_a])


def dominates_edge(f, edges, bb):
    return f.must_cross([bb], cut_edges=edges)


# -- integer / value comparisons (MIR BinaryOp) ----------------------------------------------

_NEG = {"Eq": "Ne", "Ne": "Eq", "Lt": "Ge", "Ge": "Lt", "Gt": "Le", "Le": "Gt"}
_SWAP = {"Eq": "Eq", "Ne": "Ne", "Lt": "Gt", "Gt": "Lt", "Le": "Ge", "Ge": "Le"}
_SYM = {"Eq": "==", "Ne": "!=", "Lt": "<", "Le": "<=", "Gt": ">", "Ge": ">="}


def cmp_sites(f):
    """all `x = BinaryOp(cmp, a, b)` statements: list of dict(bb, local, op, a, b, at)."""
    out = []
    for bi, b in enumerate(f.blocks):
        for s in b["s"]:
            if s["k"] == "assign" and s["rv"][0] == "bin" and s["rv"][1] in _NEG:
                out.append({"bb": bi, "local": s["p"][0], "op": s["rv"][1], "a": s["rv"][2], "b": s["rv"][3],
                            "at": s["sp"]["at"]})
    return out


def cmp_reject_relation(f, site, targets=None, start=0, per_iteration=None):
    """For a comparison site that is branched on with one rejecting edge, return
    (ok, how, rel) where rel is the operator such that the function REJECTS iff `a rel b`.
    per_iteration: a loop dict -> the pass edge must lie on every iteration instead of dominating
    the accepting exits from the entry."""
    if targets is None:
        targets = f.ok_exit_blocks()
    chk = f.bool_checks_of_local(site["local"])
    for c in chk:
        t_reach = any(f.can_reach(t, targets) for (_, t) in c["true_edges"])
        f_reach = any(f.can_reach(t, targets) for (_, t) in c["false_edges"])
        if t_reach == f_reach:
            continue
        rejecting_truth = not t_reach
        pass_edges = c["false_edges"] if rejecting_truth else c["true_edges"]
        if per_iteration is not None:
            L = per_iteration
            dom = all(not f.can_reach(s, [L["header"]], cut_edges=pass_edges) for s in L["some"])
            where = "on every iteration of the loop at %s" % ir.line_of(f.term(L["header"])["sp"]["at"])
        else:
            dom = f.must_cross(targets, cut_edges=pass_edges, start=start) and f.can_reach(start, targets)
            where = "dominating every accepting exit"
        if not dom:
            return False, "the branch at %s does not lie %s" % (ir.line_of(c["at"]), where), None
        rel = site["op"] if rejecting_truth else _NEG[site["op"]]
        return True, "branch at %s %s; rejects iff lhs %s rhs" % (ir.line_of(c["at"]), where, _SYM[rel]), rel
    return False, "comparison at %s is not branched on with a rejecting edge" % ir.line_of(site["at"]), None


def rel_matches(rel, want, swapped):
    """does `a rel b` equal the wanted relation (given whether operands are swapped wrt the rule)?"""
    if rel is None:
        return False
    return (_SWAP[rel] if swapped else rel) == want


# -- closure captures ----------------------------------------------------------------------------------

def closure_site(prog, cf):
    """(parent function, aggregate statement) creating closure `cf`."""
    parent = prog.funcs.get(cf.raw.get("parent", ""))
    if parent is None:
        return None
    for b in parent.blocks:
        for s in b["s"]:
            if s["k"] == "assign" and s["rv"][0] == "agg" and s["rv"][1].get("k") == "closure" and s["rv"][1].get("def") == cf.key:
                return parent, s
    return None


def upvar_origins(prog, cf, sl, _depth=0):
    """for a slice computed inside closure `cf`: the (function, locals) in enclosing functions that
    the captured variables it reads derive from.  Returns list of (func, set of locals)."""
    out = []
    idxs = set()
    for pl in sl["places"]:
        if pl[0] == 1:
            for e in pl[1:]:
                if isinstance(e, str) and e.startswith("."):
                    idxs.add(int(e[1:].split(":")[0]))
                    break
    site = closure_site(prog, cf)
    if not site or not idxs:
        return out
    parent, st = site
    for k in sorted(idxs):
        if k >= len(st["rv"][2]):
            continue
        op = st["rv"][2][k]
        psl = parent.slice_of_operand(op, at=st["_pos"])
        out.append((parent, psl["locals"]))
        if parent.raw.get("kind") == "Closure" and 1 in psl["locals"] and _depth < 4:
            out += upvar_origins(prog, parent, psl, _depth + 1)
    return out
