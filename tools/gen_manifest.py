#!/usr/bin/env python3
"""Regenerate /verif/MANIFEST.json from the table below (kept in one place so it stays valid)."""
import json, os

HERE = os.path.dirname(os.path.dirname(os.path.abspath(__file__)))

CLAIMED = {
    # id: (technique, level text, level note, design ref)
    "C01": ("interval inclusion between producer and consumer limits (A4), sibling shape comparison of the prover's and verifier's row-hash code over resolved callees / generic arguments / captured variables, dispatch-table extraction (A10)",
            "Decides three necessary conditions for honest proofs to verify: what the prover can emit (unique query count, segment "
            "widths) fits what Table::from_bytes accepts; RowMatrix::commit_to_rows and the verifier's hash_row apply the same "
            "partition rule with the element type and width of each table; prover and verifier map every FieldExtension variant "
            "to the extension type of the matching degree behind that type's is_supported(). That the prover's numbers satisfy "
            "the verifier's equations is value-level and not decided.",
            "rustc MIR incl. resolved generic arguments; interval engine", "DESIGN.md section 4, C01"),
    "C02": ("MIR dominance chain over resolved public-coin / channel events, must-pass-through guards, def-use provenance in verify, perform_verification, evaluate_constraints",
            "Decides that the checks soundness rests on lie on every accepting path of verify -> perform_verification for all "
            "three extension arms: options validated first; coin seed binds context and public inputs; every challenge drawn "
            "after the coin absorbed what it must bind; OOD consistency comparison between evaluate_constraints(..) and H(z) "
            "from the proof; proof-of-work threshold before the query draw with the same nonce; reader results propagated; "
            "acceptance = FRI verdict over the DEEP composition of commitment-checked data; evaluate_constraints combines "
            "transition and all boundary groups. Numerical correctness of the evaluated constraints is not decided.",
            "rustc nightly MIR; Python CFG/slice engine; user Air implementation evaluates the intended constraints",
            "DESIGN.md section 4, C02"),
    "C03": ("MIR must-pass-through (edge-cut reachability) + def-use provenance on the verifier channels",
            "Decides, for all inputs at once, that every datum revealed after the query positions are fixed "
            "(trace rows, constraint rows, FRI layer values, FRI remainder) reaches the verifier only behind "
            "the Ok edge of a commitment check over that very datum and a commitment absorbed before the "
            "positions were drawn. A structural necessary condition; binding of the hash/Merkle scheme is assumed.",
            "rustc nightly type checker + MIR construction; the Python dominance/slice engine; hash and vector "
            "commitment binding (cryptographic)", "DESIGN.md section 4, C03"),
    "C04": ("field-liveness over the call graph from verify (A9), guard re-verification for length / leftover checks, narrowing-cast range checks on every construction path",
            "Decides the necessary condition that no parsed proof content is dead or silently truncated on the accepting path: "
            "every field of the proof component structs is read on the verification path; the FRI layer count, trace query set "
            "count, query byte length, opening-proof domains and inner blob leftovers are compared and rejected with an error; "
            "narrowed integers are bounded on every construction path. That the remaining checks reject every altered value is "
            "behavioural (C02/C03/C09 decide that those checks are in place).",
            "rustc MIR; call graph with trait dispatch over-approximation", "DESIGN.md section 4, C04"),
    "C05": ("call-graph panic-site inventory from the untrusted-input entry points, discharged by guard intervals (A3), struct-field invariants (A4), callee Ok-postconditions, relational index patterns, and a reviewed table whose relied-upon guards are re-verified on every run",
            "Enumerates every panic / abort / unbounded-allocation site (MIR Assert terminators, diverging calls, may-panic std calls, "
            "allocation sizes) reachable from Proof::from_bytes, every Deserializable::read_from, the batch Merkle functions, "
            "AirContext::new* and winter_verifier::verify, and decides each one: proved in range by intervals over all inputs, "
            "covered by a reviewed reason (with its guard re-checked), or reported. Two genuine API-level defects are recorded as "
            "known findings. Termination of decoding loops and the bodies of field arithmetic / hash permutations / user Air code "
            "are outside the decided clause.",
            "rustc MIR incl. overflow/bounds Assert terminators; the may-panic table for core/alloc leaves; reviewed reasons in "
            "wfstatic/tables/panic_sites.json; user Air implementations do not panic", "DESIGN.md section 4, C05"),
    "C06": ("effect analysis and rayon-combinator classification over the MIR of the `concurrent` build, capture analysis of closures handed to rayon, chunk-offset provenance through closure upvars, MIR diff between the two builds",
            "Decides the schedule clause on the concurrent build: no ambient input reachable from the prover; every rayon combinator "
            "is indexed/order-preserving except find_any in grind_query_seed whose result reaches only pow_nonce; parallel closures "
            "capture no shared mutable state (three unsafe re-borrows reviewed and stated as assumptions); chunk offsets are index * "
            "the value that sizes the chunks; cfg-dependent functions are exactly parallel-combinator code. Equality of parallel and "
            "serial *values* and the async variant are not decided.",
            "rustc MIR of both feature configurations; classification table of rayon combinators", "DESIGN.md section 4, C06"),
    "C07": ("codec schema extraction (A6): ordered byte-level I/O events along every success path of write_into / read_from with loops collapsed and byte widths compared; length-prefix linkage; enum tag tables; constructor-vs-decoder interval inclusion (A4); writer narrowing casts",
            "Decides writer/reader schema agreement for all 40 (Serializable, Deserializable) pairs of the workspace, that length "
            "prefixes are the length of / size the following blob, that enum tags equal the discriminants, that every integer range "
            "a public constructor accepts is let through by the decoder, and that writer narrowing casts are in range. Equality "
            "of decoded values for interior inputs is behavioural and not decided.",
            "rustc MIR; interval engine; reviewed reasons for writer casts in rules/c07.py", "DESIGN.md section 4, C07"),
    "C08": ("dispatch-table extraction (A10) on the four folding-factor dispatch sites, accepted-set extraction from constructor guards, shared-callee checks on prover and verifier layer loops",
            "Decides the dispatch/limit clause: folding factor k selects the N = k instantiation on the prover (build_layer, "
            "query_layer) and the verifier (verify_generic, read_layer_queries, get_query_values) for exactly the set "
            "{2,4,8,16} that FriOptions::new and ProofOptions::new accept; both sides fold positions with the same function, "
            "shrink the domain once per layer and share num_fri_layers. The algebra of folding is value-level and not decided.",
            "rustc MIR incl. const-generic arguments", "DESIGN.md section 4, C08"),
    "C09": ("MIR must-pass-through (per-iteration and function-level edge cuts), comparison-direction canonicalisation, def-use provenance on FriVerifier::{new,verify,verify_generic}",
            "Decides that each rejection check the FRI verifier's soundness rests on (length mismatch, unsupported folding "
            "factor, per-layer commitment opening, per-layer folding consistency, degree truncation, remainder degree bound, "
            "remainder evaluation at every query, remainder commitment) lies on every accepting path / every loop iteration, "
            "rejects in the right direction and is wired to the commitment-checked data. Does not decide the probability of "
            "catching a far function (cryptographic) nor the algebra of folding (value-level).",
            "rustc nightly MIR; Python CFG/slice engine; value-level correctness of get_query_values/interpolate_batch/eval assumed",
            "DESIGN.md section 4, C09"),
    "C11": ("compiler-evaluated constants + exact number theory (primality certificates, factorisation of M-1, element orders) and MIR guard analysis of every element decoder",
            "Proves, from the constants the compiler evaluates on the current tree, that each modulus is prime (deterministic "
            "Miller-Rabin / Lucas-Pratt certificate), MODULUS_BITS and TWO_ADICITY are right, the generator has order M-1, the "
            "two-adic root and all its 2^k-th powers have the exact orders, Montgomery words/helper constants are what they "
            "claim; and decides that every element decoder constructs an element only behind `value >= MODULUS => reject` or "
            "delegates to such a decoder, little-endian only. Irreducibility of extension polynomials / Frobenius constants is "
            "not decided (they live in arithmetic code).",
            "rustc const evaluator; Python big-integer arithmetic; Sorenson-Webster bound for deterministic Miller-Rabin", "DESIGN.md section 4, C11"),
    "C15": ("MIR branch/dominance rules on hash_elements of every byte-digest ElementHasher, constant evaluation of IS_CANONICAL, range/length extraction for merge_with_int buffers and the 24-byte truncation",
            "Decides the representation clause: raw element memory is hashed only on the IS_CANONICAL edge (and IS_CANONICAL is "
            "true exactly for fields whose as_int is the identity), the other edge hashes the canonical serialisation; "
            "merge_with_int hashes digest || value.to_le_bytes() in a buffer of digest_len + 8; merge/merge_many hash the "
            "concatenated digests; Blake3_192 truncates to 24 bytes everywhere. Equality with the primitive needs execution.",
            "rustc MIR and constant evaluation", "DESIGN.md section 4, C15"),
    "C19": ("MIR must-pass-through guards on MerkleTree::verify/verify_batch/get_root/into_openings/map_indexes + the A5 panic inventory restricted to the batch Merkle entry points",
            "Decides that single and batch verification accept only behind the root comparison over values derived from leaf, "
            "proof nodes and (by control) the index, that get_root/into_openings validate indexes through map_indexes(..)? whose "
            "range and duplicate checks are present, and that no panic site reachable from the batch-proof functions on "
            "arbitrary malformed input is left undischarged. Collision resistance is assumed.",
            "rustc MIR; reviewed reasons for relational index bounds in wfstatic/tables/panic_sites.json", "DESIGN.md section 4, C19"),
    "C20": ("call-graph effect analysis (ambient inputs) + MIR provenance/guard rules on DefaultRandomCoin",
            "Decides determinism structurally (no ambient input reachable; state is seed+counter), that draw_integers masks "
            "next()-bytes with domain_size-1 behind a power-of-two assertion, pushes a value only while len != num_values and "
            "rejects short draws (exact count for every request including 0), and that reseed/next/check_leading_zeros/draw "
            "have the documented shapes. Statistical quality is not decided.",
            "rustc MIR; effect table for std/core/rayon leaves; hash functions behave as functions", "DESIGN.md section 4, C20"),
    "C24": ("MIR field-to-result provenance over the to_elements chain, interval proof of bit-packing disjointness from struct-field invariants, guard re-verification on every Context construction path",
            "Decides that each listed context parameter is a field flowing into the seed element vector, proves (for all field values "
            "admitted by the constructors) that every `buf << k | x` packing step has x < 2^k and loses no bits, that the layout "
            "branch is decided by a packed value, and that narrowing `as u32` casts are in range on every construction path of "
            "Context. The zero-padding of variable-length fields without their length is reported (two known findings).",
            "rustc MIR; interval engine; injectivity of E::from(u32) on values < 2^32 (C11)", "DESIGN.md section 4, C24"),
    "C25": ("MIR provenance of stored security values (cmp::min with the collision-resistance parameter) and must-pass-through guards per match arm of AcceptableOptions::validate",
            "Proves for all inputs that stored conjectured/proven security values are results of cmp::min(_, collision_resistance) "
            "(and conjectured = min(field_security, _) - 1), and decides that each validate arm accepts only behind "
            "is_at_least(matching estimate, own threshold) or option-set membership. Monotonicity is value-level and not decided.",
            "rustc MIR; core::cmp::min semantics", "DESIGN.md section 4, C25"),
    "C26": ("A5 panic inventory from SliceReader / ByteReader provided methods / primitive Deserializable impls",
            "Decides the error-not-panic clause: every panic / overflow / allocation site reachable from the primitive decoders on "
            "arbitrary bytes is proved in range, covered by a re-verified reviewed reason (check_eor guards), or reported. "
            "Also decides the vint64 length table: usize_encoded_len depends on its argument only through leading_zeros, and its result on each of the 65 leading-zero classes (abstractly evaluated) equals the documented vint64 length; write_usize is wired to it. "
            "The shift arithmetic and value equality of round trips are value-level and not decided.",
            "rustc MIR; reviewed reasons in wfstatic/tables/panic_sites.json", "DESIGN.md section 4, C26"),
    "C28": ("the C01.R2 sibling comparison evaluated on the default and the concurrent build's MIR",
            "Decides the partition-rule clause only: row commitments are built from per-row digests under the partition rule the "
            "verifier applies (same partition_size::<T>, same branch, per-chunk hash_elements, merge_many, buffer length, batch "
            "offset used for the row index, V::new over the filled digest vector), in both builds. That rows equal polynomial "
            "values is numerical and not decided.",
            "rustc MIR of both feature configurations", "DESIGN.md section 4, C28"),
    "C14": ("symbolic reading of MIR integer operands (pointer / length / capacity of raw-parts casts), dominance of comparison edges, closure provenance",
            "Decides five structural clauses of the batch utilities, each a necessary condition of the documented behaviour: (R1) group_slice_elements / flatten_slice_elements / "
            "flatten_vector_elements re-own the source's pointer with length (and capacity) scaled by the const generic N, the dividing cast only behind a divisibility test, the "
            "source vector wrapped in ManuallyDrop and never dropped; (R2) transpose_slice allocates len / N rows behind the divisibility test, writes entry j for j in 0..N and reads "
            "the source at an index depending on row, column and row count; (R3) batch closures start from the batch offset (base.exp(batch_offset); values[offset..offset + batch.len()]), "
            "which the default-feature tests cannot observe; (R4) serial_batch_inversion tests for ZERO in both passes, multiplies only by non-zero inputs, stores ZERO for a zero input and "
            "inverts once between the passes; (R5) add_in_place / mul_acc assert equal lengths before zip. Thorough tier repeats the rules on the concurrent build. "
            "The element-wise values (powers, inverses, sums) and the transposed order itself are numerical and not decided.",
            "rustc MIR of both feature configurations; field arithmetic exact (C10); rayon batches disjoint and ordered (C06)", "DESIGN.md section 4, C14"),
    "C21": ("region analysis by the edges of is_single() / is_periodic(), symbolic reading of the callback's step argument and loop bounds, sibling comparison of apply and get_num_steps",
            "Decides the step-set clauses: (R1) Assertion::apply invokes its callback once per region with (first_step, values[0]); (first_step + stride * i, values[0]) for i in 0..trace_length / stride; "
            "(first_step + stride * i, values[i]) over all of values, with no truncating adapter; (R2) get_num_steps returns 1, the very bound of apply's periodic loop, and values.len() in the same regions; "
            "(R3) both validate the trace length first and diverge on an error. Exactness of validate_trace_length and of the overlaps_with case analysis is arithmetic over run-time integers and not decided.",
            "rustc MIR; is_single / is_periodic read as stride == NO_STRIDE / stride != NO_STRIDE && values.len() == 1", "DESIGN.md section 4, C21"),
    "C22": ("provenance of prepare_assertions' result (sorted container), field-pair analysis of `Ord for Assertion`, dominance of the overlap loop over set insertion, argument wiring of group_constraints",
            "Decides only the last sentence of the property (coefficient assignment independent of the order in which the AIR lists its assertions) through the four links it needs: "
            "(R1) prepare_assertions returns its inputs in the order of a sorted set (or sorts before returning); (R2) Ord for Assertion compares stride, first_step and column, field against "
            "the same field, with no constant result; (R3) every insertion into the set lies behind a diverging overlaps_with loop over the set's elements (column filter only), so no "
            "assertion comparing Equal to an earlier one is dropped silently; (R4) BoundaryConstraints::new passes the prepared vectors and the coefficient halves split at the main count, "
            "zipped by position. That the constraints vanish exactly on the asserted cells, and the divisor degrees, are numerical and not decided.",
            "rustc MIR; BTreeSet iterates in Ord order; overlaps_with is true for equal (column, first_step, stride) (C21, not decided)", "DESIGN.md section 4, C22"),
    "C29": ("must-pass-through / every-iteration rules over the MIR of Trace::validate and its callbacks, symbolic reading of the step range, provenance of compared cells",
            "Decides the coverage clauses: Trace::validate skips nothing the property quantifies over. (R1) every main assertion, and every auxiliary assertion when an auxiliary trace is "
            "supplied, is applied over length() steps by a callback that compares the asserted value with the trace cell (assertion's column, callback's step) of the matching segment and "
            "diverges on a difference; (R2) the step loop runs over 0..length() - num_transition_exemptions(), reads the frame at the step, calls the evaluator and compares every evaluation "
            "with ZERO, for the main and the auxiliary chain, the latter entered whenever the trace is multi-segment; (R3) the domain point advances once per iteration and the periodic values "
            "are recomputed from it before the evaluators; (R4) read_aux_frame reads rows row_idx and (row_idx + 1) % num_rows. No test can see a weakening of these (validate only rejects, and "
            "tests feed it valid traces). That the evaluators are the AIR's constraints, Assertion::apply's step set, and equality of trace tables built in different ways are not decided.",
            "rustc MIR; Air::* evaluators are user code; Assertion::apply enumerates the asserted steps (C21)", "DESIGN.md section 4, C29"),
    "C23": ("symbolic reading of MIR operands (range bounds, call arguments), closure provenance, field-to-result provenance",
            "Decides the shape clauses behind the property's first sentence: (R1) ConstraintDivisor::from_transition(n, k) has numerator [(n, ONE)] and exemption points "
            "((n - k)..n).map(|step| get_trace_domain_value_at(n, step)) with no truncating adapter; (R2) get_trace_domain_value_at(n, step) = get_root_of_unity(ilog2(n)).exp(step); "
            "(R3) TransitionConstraints::new builds and stores the divisor from context.trace_len() and context.num_transition_exemptions(), the count Trace::validate exempts (C29.R2); "
            "(R4) degree() = numerator degree - exemptions.len(), evaluate_at divides the numerator by the product of (x - e) over all exemptions. Evaluation degrees, minimum blowup "
            "factors, the number of composition columns and the periodic column polynomials are numerical and not decided.",
            "rustc MIR; get_root_of_unity is a primitive root of the stated order (C11.R1)", "DESIGN.md section 4, C23"),
    "C16": ("abstract interpretation of the S-box code over monomial exponents (exponents.py) + call-order / constant rules",
            "Decides three structural clauses of the Rescue hashers (Rp62_248, Rp64_256, RpJive64_256): (R1) the exponent to which apply_sbox raises every state element, "
            "computed by interpreting its MIR with each element abstracted to its exponent (square -> 2e, product -> sum, helper calls and element-wise iterator "
            "combinators followed, `for _ in 0..M` unrolled from the const generic), is the smallest k >= 3 coprime to p - 1, and the exponent E of the unrolled addition "
            "chain in apply_inv_sbox satisfies k * E = 1 (mod p - 1): exact inverse; (R2) a round is S-box, MDS, +ARK1[round], inverse S-box, MDS, +ARK2[round] and the "
            "permutation applies rounds 0..NUM_ROUNDS; (R3) for the sponge variants merge writes 2 * DIGEST_SIZE into the capacity cell that hash_elements initialises with "
            "the length and absorbs both digests. The MDS matrix, the round constants and the Jive summation are not compared with published values, and equality with a "
            "reference permutation on every state is not decided.",
            "rustc MIR; evaluated constants; C11's modulus table", "DESIGN.md section 4, C16"),
    "C17": ("dataflow / control-dependence rules over the MIR of the six hashers' Hasher and ElementHasher impls",
            "Decides necessary conditions of length and range separation: (R1) the Rescue sponges store a value derived from the input's len() "
            "(or a domain flag control-dependent on it, together with an end marker at the running position) into the state before the first permutation; "
            "(R2) hash(bytes) terminates the last byte chunk with a 1 right after its data; (R3) merge_with_int absorbs the value, branches on value < MODULUS "
            "(the field's own modulus), writes different domain constants into a common state cell on the two branches and absorbs value / MODULUS in the large one; "
            "(R4) the byte hashers pass the whole input to the hash function and hash seed || value.to_le_bytes() of fixed width; (R5) merge_many is the hash of the "
            "concatenated digests. That distinct sponge inputs give distinct digests (collision freedom of the permutation / BLAKE3 / SHA3) is not decided.",
            "rustc MIR; evaluated constants (Range<usize> layout constants decoded from their bytes)", "DESIGN.md section 4, C17"),
    "C27": ("A5 panic inventory over ReadAdapter's ByteReader methods + fill-postcondition / EOF-origin / raw-sink rules",
            "Decides four structural clauses of the streaming reader: (R1) no undischarged panic site reachable from its ByteReader methods "
            "(arithmetic, indexing, RefCell borrows, explicit panics; reviewed reasons re-verified each run); (R2, R3) buffer_at_least(count) returns Ok only "
            "past `count == 0 || buffer().len() >= count` with count never reassigned, and callers consume exactly what they asked for; (R4) raw-memory "
            "sinks are bounded by the source's length, a dominating comparison or the fill postcondition; (R5) UnexpectedEOF is produced only where the "
            "stream reported end of input. That the values returned equal SliceReader's for every chunking is a refinement between two stateful machines and is not decided.",
            "rustc MIR; reviewed reasons in wfstatic/tables/panic_sites.json", "DESIGN.md section 4, C27"),
}

NOT_APPLICABLE = {
    "C10": "Exactness of modular arithmetic over all 2^64/2^128 representations needs bit-precise reasoning (solver or exhaustive execution); guard/interval analysis cannot relate Montgomery reduction to z mod M.",
    "C12": "FFT = naive evaluation is value-level; the only structural clause (schedule independence of the parallel code) is decided under C06.",
    "C13": "Polynomial helper results are numerical; no invariant of the control-flow graph implies them.",
    "C18": "Root/opening consistency and parallel = sequential build are numerical; the rejection/no-panic part is C19.",
}

# claimed in DESIGN.md but not built yet: listed as not applicable *for now* with that reason
PENDING = {}


def main():
    all_ids = ["C%02d" % i for i in range(1, 30)]
    checks = []
    for pid in all_ids:
        if pid in CLAIMED:
            tech, text, note, ref = CLAIMED[pid]
            checks.append({
                "property_id": pid,
                "quick_cmd": "./check %s --tier quick" % pid,
                "thorough_cmd": "./check %s --tier thorough" % pid,
                "evidence_file": "/verif/evidence/%s.json" % pid,
                "replay_cmd_template": "./check %s --replay {path}" % pid,
                "engine": "wfstatic",
                "level_claimed": {"category": "other", "text": text, "design_ref": ref},
                "level_note": note,
                "technique": "static analysis: " + tech,
            })
    na = []
    for pid in all_ids:
        if pid in CLAIMED:
            continue
        if pid in NOT_APPLICABLE:
            na.append({"property_id": pid, "reason": NOT_APPLICABLE[pid]})
        else:
            na.append({"property_id": pid, "reason": PENDING.get(pid, "static check designed (DESIGN.md section 4) but not built yet; not claimed until it runs")})
    m = {
        "version": 1,
        "setup_cmd": "cd /verif/driver && CARGO_NET_OFFLINE=true cargo +nightly build --release --offline && cd /verif && python3 -m compileall -q wfstatic",
        "hooks": {
            "guard": "--cfg winterfell_verif",
            "enable": "none needed: the rustc_private driver observes the unmodified program (no instrumentation in /repo)",
            "baseline_off_cmd": "cd /repo && cargo test --workspace --no-fail-fast --offline",
            "source_commits": [],
            "add_only": True,
        },
        "engines": [{
            "name": "wfstatic",
            "path": "/verif/wfstatic",
            "serves_properties": sorted(CLAIMED),
            "kind_free_text": "repository-specific static analysis: rustc_private MIR/const fact extractor (driver/) + Python rule engine (CFG reachability with edge cuts, def-use slices, guard intervals, codec schema extraction, constant number theory)",
        }],
        "checks": checks,
        "not_applicable": na,
        "notes": "All checks decide structural clauses of their property from /repo's current source without executing it; see DESIGN.md for what each clause does and does not establish. Facts are rebuilt whenever the content hash of /repo's sources changes.",
    }
    with open(os.path.join(HERE, "MANIFEST.json"), "w") as fh:
        json.dump(m, fh, indent=1)
    print("MANIFEST.json: %d checks, %d not_applicable" % (len(checks), len(na)))


if __name__ == "__main__":
    main()
