#!/usr/bin/env python3
"""Regenerate wfstatic/tables/panic_sites.json from the reviewed reasons below.

Each SPEC line is (function-key regex, site-id regex, reason[, requires]).  The regexes are only an
authoring aid: the generated table lists every site by its exact key with its reason (no
wildcards are stored), and sites that match no line stay open.  `requires` names a guard the
engine re-verifies on every run (panics.check_requires); if the guard disappears the entry no
longer discharges the site.
"""
import json, os, re, sys
sys.path.insert(0, os.path.dirname(os.path.dirname(os.path.abspath(__file__))))
from wfstatic import build, ir, panics
from wfstatic.rules import c05, c19, c26, c27

R_SLICE_POS = "SliceReader invariant pos <= source.len(): pos is advanced only after check_eor succeeded"
CHECK_EOR = {"kind": "ok-edge-of", "callee_name": "check_eor"}

RA_ = "winter_utils::serde::byte_reader::ReadAdapter::<'a>::"

SPEC = [
    # ---- ReadAdapter (C27) -------------------------------------------------------------------
    (r"ReadAdapter<'_> as .*ByteReader>::check_eor$", r"Overflow:Add", "sum of two byte-slice lengths (each at most isize::MAX)"),
    (r"ReadAdapter<'_> as .*ByteReader>::peek_u8::\{closure", r"BoundsCheck", "applied by map() to the Ok payload of non_empty_reader_buffer(), which returns Ok only for a non-empty buffer",
     {"kind": "pred-guard", "func": RA_ + "non_empty_reader_buffer", "pred": "is_empty", "count": 1}),
    (r"ReadAdapter<'_> as .*ByteReader>::read_slice$", r"Overflow:Add|call:index", "buffer_at_least(len)? returned Ok: buf.len() - pos >= len, so pos + len <= buf.len() <= isize::MAX",
     [{"kind": "ok-edge-of", "callee_name": "buffer_at_least"}, {"kind": "fact", "name": "c27.fill_post"}]),
    (r"ReadAdapter::<'a>::has_remaining_capacity$", r"Overflow:Sub", "buffer() is a suffix of buf, so its length is at most buf.len() <= buf.capacity()"),
    (r"ReadAdapter::<'a>::(non_empty_reader_buffer|reader_buffer)$", r"call:borrow", "the reader's RefCell is borrowed only in these two private helpers; no Ref escapes a method and no second borrow is reachable while one is alive",
     {"kind": "fact", "name": "c27.no_ref_conflict"}),
    (r"ReadAdapter::<'a>::pop$", r"Overflow:Add", "taken only when non_empty_buffer().map(..) is Some: the unread part is non-empty, so pos < buf.len()",
     {"kind": "ok-edge-of", "callee_name": "map"}),
    (r"ReadAdapter::<'a>::pop::\{closure", r"BoundsCheck", "applied by map() to a payload that is a non-empty slice (non_empty_buffer filters empty slices; non_empty_reader_buffer_mut returns Ok only when !buf.is_empty())",
     {"kind": "pred-guard", "func": RA_ + "non_empty_reader_buffer_mut", "pred": "is_empty", "count": 1}),
    (r"ReadAdapter::<'a>::read_exact$", r"Overflow:Add#\.pos,N,self#0", "arm `n if n >= N`: buf.len() - pos = n >= N",
     {"kind": "dom-guard", "lhs": "len", "rel": "Ge", "rhs": "N"}),
    (r"ReadAdapter::<'a>::read_exact$", r"Overflow:Add#buf,len\(\),m,n,reader_buf", "sum of two byte-slice lengths (each at most isize::MAX)"),
    (r"ReadAdapter::<'a>::read_exact$", r"diverge:panic", "non_empty_reader_buffer_mut()? returned Ok on this path, so the reader buffer is non-empty and nothing has consumed it since",
     [{"kind": "ok-edge-of", "callee_name": "non_empty_reader_buffer_mut"}, {"kind": "pred-guard", "func": RA_ + "non_empty_reader_buffer_mut", "pred": "is_empty", "count": 1}]),
    (r"ReadAdapter::<'a>::read_exact$", r"Overflow:Sub#N,buf,len\(\),n", "reached only when the arm `n if n >= N` did not match: n < N",
     {"kind": "dom-guard", "lhs": "len", "rel": "Lt", "rhs": "N"}),
    (r"ReadAdapter::<'a>::read_exact$", r"Overflow:Add#\.pos,buf,len\(\),n,self", "n = buffer().len() = buf.len() - pos, so pos + n = buf.len()"),
    (r"ReadAdapter::<'a>::read_exact$", r"diverge:assert|Overflow:Add#\.pos,N,self#1", "buffer_at_least(N)? returned Ok: buf.len() - pos >= N",
     [{"kind": "ok-edge-of", "callee_name": "buffer_at_least"}, {"kind": "fact", "name": "c27.fill_post"}]),
    # ---- winter_utils::serde --------------------------------------------------------------
    (r"SliceReader<'_> as .*ByteReader>::read_u8$", r"BoundsCheck|Overflow:Add", "check_eor(1)? succeeded: pos + 1 <= source.len()", CHECK_EOR),
    (r"SliceReader<'_> as .*ByteReader>::peek_u8$", r"BoundsCheck", "check_eor(1)? succeeded: pos < source.len()", CHECK_EOR),
    (r"SliceReader<'_> as .*ByteReader>::read_slice$", r"Overflow:Add|call:index", "check_eor(len)? succeeded: pos + len <= source.len()", CHECK_EOR),
    (r"SliceReader<'_> as .*ByteReader>::read_array$", r"Overflow:Add|call:index|call:copy_from_slice", "check_eor(N)? succeeded: pos + N <= source.len(); both slices have length N", CHECK_EOR),
    (r"SliceReader<'_> as .*ByteReader>::check_eor$", r"Overflow:Sub", R_SLICE_POS),
    (r"ByteReader::read_usize$", r"call:copy_from_slice", "length = trailing_zeros(first byte) + 1 in [1, 8] on this branch (the 9-byte case is handled above); read_slice(length) returned exactly `length` bytes and encoded[..length] has the same length"),
    (r"<\[T; C\] as winter_utils::serde::Deserializable>::read_from::\{closure#0\}$", r"diverge:panic", "try_into of a Vec with exactly C elements (read_many(C) succeeded) into [T; C] cannot fail; the closure is the unreachable error arm"),
    (r"<u(8|16|32|64|128) as winter_utils::Randomizable>::from_random_bytes$", r"call:index|BoundsCheck", "guarded by `if let Some/len check` on VALUE_SIZE in the same function: returns None when the source is shorter",),
    (r"winter_utils::group_slice_elements$", r".*", "N is a const generic instantiated with non-zero literals only (folding factors, C08.R1); callers pass slices whose length is a multiple of N (FRI layer values parsed in multiples of folding_factor, FriProofLayer::parse)"),
    (r"winter_utils::uninit_vector$", r".*", "length comes from the callers' own vectors, not from decoded integers"),
    # ---- field element decoders -----------------------------------------------------------
    (r"TryFrom<&\[u8\]>>::try_from$", r"call:expect", "both length checks above return Err unless bytes.len() == ELEMENT_BYTES, so the slice-to-array conversion cannot fail"),
    (r"StarkField::from_bytes_with_padding$", r"diverge:assert|call:resize|diverge:panic",
     "reached only from Context::to_elements / TraceInfo::to_elements with chunks shorter than ELEMENT_BYTES: modulus halves of the AIR's own field (verify compares the modulus first) and metadata chunks of ELEMENT_BYTES - 1 bytes; a chunk shorter than the element padded with zeros is below the modulus",
     [{"kind": "err-guard", "func": "winter_verifier::verify", "lhs": "get_modulus_le_bytes", "rel": "Ne", "rhs": "field_modulus_bytes"},
      {"kind": "fact", "name": "c05.padding_chunks"}]),
    # ---- air::proof ---------------------------------------------------------------------------
    (r"Context as .*ToElements<E>>::to_elements$", r"call:split_at", "split_at(len / 2) with len / 2 <= len"),
    (r"Context::num_modulus_bits$", r"Overflow", "num_bits starts at 8 * len(modulus bytes) with len <= 255 (u8 length prefix) and loses at most 8 per byte visited"),
    (r"Context as .*Deserializable>::read_from$", r"Overflow:Mul", "evaluated only after `trace_info.length() > u32::MAX` returned Err (|| short-circuit): length <= 2^32 and blowup <= 128"),
    (r"TraceInfo as .*ToElements<E>>::to_elements$", r"call:chunks", "chunk size ELEMENT_BYTES - 1 >= 7 for every supported field"),
    (r"TraceInfo::new_multi_segment$", r"diverge:assert#panic_fmt#[01245]",
     "TraceInfo::read_from validates the same conditions before calling (width sum <= 255, rands == 0 for an empty aux segment, rands <= 255, exponent in [3, 63] so the length is a power of two >= 8, metadata length <= 65535 by its u16 prefix); other callers are the user's",
     {"kind": "err-guard", "func": "<winter_air::air::trace_info::TraceInfo as winter_utils::serde::Deserializable>::read_from", "lhs": "full_trace_width", "rel": "Gt", "rhs": "255"}),
    (r"ProofOptions::new$", r"diverge:assert#panic_fmt#[269]",
     "ProofOptions::read_from rejects non-powers-of-two (blowup, folding factor, remainder degree + 1) before calling new",
     {"kind": "pred-guard", "func": "<winter_air::options::ProofOptions as winter_utils::serde::Deserializable>::read_from", "pred": "is_power_of_two", "count": 3}),
    (r"Queries::parse$", r"diverge:assert#panic_fmt#0", "domain_size = air.lde_domain_size() = trace_length * blowup, both powers of two by their constructors"),
    (r"Queries::parse$", r"diverge:assert#panic_fmt#2", "values_per_query is a segment width >= 1 (main width >= 1; aux parsed only when is_multi_segment; composition columns >= 1)"),
    (r"Queries::parse$", r"Overflow:Mul", "ELEMENT_BYTES <= 48, values_per_query <= 255 columns (composition columns bounded by the AIR), num_queries <= 255"),
    (r"Table::<E>::from_bytes$", r"diverge:assert#panic_fmt#3", "num_cols is a segment width <= 255 (TraceInfo) or the AIR's number of composition columns (bounded by its constraint degrees; honest proofs of the same AIR exercise the same value)"),
    (r"Table::<E>::num_rows$", r"DivisionByZero", "row_width = num_cols > 0 asserted by from_bytes, the only constructor"),
    (r"Table::<E>::merge$", r".*", "called with exactly one table (TraceQueries::new pushes one aux table)"),
    (r"OodFrame::parse$", r"call:split_off", "read_many returned exactly width * 2 elements, so split_off(width) is in range"),
    (r"TraceOodFrame::<E>::(main|aux)_frame$", r"call:index", "rows hold main + aux width elements (OodFrame::parse) and main_trace_width is the same TraceInfo's main width"),
    (r"(Trace|Quotient)OodFrame::<E>::new$", r"diverge:assert_eq", "OodFrame::parse splits a vector of 2 * width elements into two halves of equal length"),
    (r"Commitments::parse$", r"Overflow:Add", "num_fri_layers <= log2(domain size) <= 64"),
    (r"security::ConjecturedSecurity::compute$|security::proven_security_protocol", r"Overflow:Mul#base_field_bits", "base_field_bits = 8 * modulus bytes <= 2040, degree <= 3"),
    (r"security::proven_security_protocol", r"Overflow:Mul#blowup", "trace length <= 2^32 (Context::read_from / Context::new) and blowup <= 128"),
    (r"security::ProvenSecurity::compute$", r"call:expect", "range 3..m_max is non-empty: compute_upper_m(trace length >= 8) > 3"),
    (r"security::compute_upper_m$", r"diverge:assert", "h > 0: trace length >= 8"),
    (r"Proof::proven_security$", r"Overflow:Add", "width <= 255, blowup <= 128"),
    # ---- air::air (provided methods on proof-supplied parameters) ---------------------------
    (r"AirContext::<B>::new_multi_segment$", r"diverge:assert#panic_fmt#[0-5]", "conditions on the AIR's own degree vectors and assertion counts (constants of the user's Air::new), not on proof data"),
    (r"AirContext::<B>::new_multi_segment$", r"Overflow:Mul", "trace length * blowup <= u32::MAX: the TraceInfo/ProofOptions pair comes from a Context that passed Context::new / Context::read_from",
     {"kind": "err-guard", "func": "<winter_air::proof::context::Context as winter_utils::serde::Deserializable>::read_from", "lhs": "length", "rel": "Gt", "rhs": "4294967295"}),
    (r"AirContext::<B>::lde_domain_size$", r"Overflow:Mul", "trace length * blowup <= u32::MAX by Context::read_from / Context::new",
     {"kind": "err-guard", "func": "<winter_air::proof::context::Context as winter_utils::serde::Deserializable>::read_from", "lhs": "length", "rel": "Gt", "rhs": "4294967295"}),
    (r"AirContext::<B>::num_assertions$", r"Overflow:Add", "assertion counts come from the user's AIR (vector lengths)"),
    (r"AirContext::<B>::num_constraint_composition_columns$", r"Overflow:Sub", "exemptions < trace length / 2 (set_num_transition_exemptions asserts), highest degree >= divisor degree by construction of the degrees (AIR-side data)"),
    (r"coefficients::.*::draw_(linear|algebraic|horner)$", r"Overflow:Add", "constraint counts are lengths of the AIR's own vectors"),
    (r"coefficients::.*::new$", r"call:split_off", "called with a vector of exactly num_transition + num_boundary (resp. trace_width + constraints) coefficients drawn just above"),
    (r"winter_air::air::Air::evaluate_aux_transition$", r"diverge:panic", "default body of a user hook: reached only when the AIR declares aux columns without overriding it (AIR-side defect, not input dependent)"),
    (r"winter_air::air::Air::get_aux_rand_elements$", r".*", "num_rand_elements <= 255"),
    (r"winter_air::options::PartitionOptions::(partition_size|num_partitions)", r".*", "EXTENSION_DEGREE in {1,2,3}; num_partitions >= 1 and hash_rate >= 1 by the constructor"),
    # ---- crypto::merkle ---------------------------------------------------------------------
    (r"BatchMerkleProof::<H>::(get_root|into_openings)$", r"call:with_capacity", "capacity = number of caller-supplied indexes (memory already held by the caller)"),
    (r"BatchMerkleProof::<H>::(get_root|into_openings)$", r"call:index#\.0,\.nodes", "i enumerates the normalized indexes whose count was just checked to equal self.nodes.len()",
     {"kind": "err-guard", "func": "@self", "lhs": "indexes", "rel": "Ne", "rhs": "nodes"}),
    (r"BatchMerkleProof::<H>::(get_root|into_openings)$", r"call:index#0,index\(\)", "guarded by `self.nodes[i].is_empty() -> Err` on the same branch"),
    (r"BatchMerkleProof::<H>::(get_root|into_openings)$", r"Overflow:Add#\.0,1,index", "index is a normalized (even) leaf index below 2^depth <= 2^63 (map_indexes succeeded)"),
    (r"BatchMerkleProof::<H>::(get_root|into_openings)$", r"Overflow:Add#\.0,index,offset", "offset = 2^depth with depth <= 63 and index < 2^depth (map_indexes succeeded): sum < 2^64"),
    (r"BatchMerkleProof::<H>::into_openings$", r"Overflow:Add#\.0,(1,)?i#", "i < 2^depth and depth <= 63 after map_indexes succeeded (the loop was moved below the validation)"),
    (r"BatchMerkleProof::<H>::(get_root|into_openings)$", r"call:index#.*indexes", "guarded by the loop condition i < indexes.len() and by `i + 1 < indexes.len()` for the look-ahead"),
    (r"BatchMerkleProof::<H>::(get_root|into_openings)$", r"call:index(_mut)?#.*proof_pointers", "proof_pointers has one entry per first-level node pair; upper levels never have more entries than the first (each level merges or keeps nodes)"),
    (r"BatchMerkleProof::<H>::(get_root|into_openings)$", r"call:index#\.nodes", "same bound as proof_pointers[i]: nodes.len() == number of first-level pairs (checked above)"),
    (r"BatchMerkleProof::<H>::(get_root|into_openings)$", r"call:index#index\(\),pointer", "guarded by `self.nodes[i].len() <= pointer -> Err` just above"),
    (r"BatchMerkleProof::<H>::(get_root|into_openings)$", r"Overflow:Add#1,index_mut", "pointer < nodes[i].len() on this branch"),
    (r"merkle::proofs::get_proof$", r".*", "called by into_openings after map_indexes validated depth <= 63 and index < 2^depth"),
    (r"merkle::normalize_indexes$", r"Overflow:Sub", "index - (index & 1) >= 0"),
    (r"merkle::map_indexes$", r".*", "2^depth with depth < usize::BITS (checked on entry)"),
    (r"DefaultRandomCoin::<H>::next$", r"Overflow:Add", "counter is reset on every reseed and incremented at most 1000 times per draw"),
    (r"DefaultRandomCoin<H> as .*RandomCoin>::draw$", r"call:index", "E::ELEMENT_BYTES <= 32 = digest byte length for every supported field over every supported hasher (byte digests are 32 bytes)"),
    (r"DefaultRandomCoin<H> as .*RandomCoin>::draw_integers$", r"diverge:assert#panic_fmt#0", "domain_size = lde_domain_size = trace length * blowup, both powers of two"),
    (r"DefaultRandomCoin<H> as .*RandomCoin>::draw_integers$", r"diverge:assert#panic_fmt#1", "VerifierChannel::new rejects num_queries >= lde_domain_size before the coin is used",
     {"kind": "err-guard", "func": "winter_verifier::channel::VerifierChannel::<E, H, V>::new", "lhs": "num_queries", "rel": "Ge", "rhs": "lde_domain_size"}),
    (r"ByteDigest<N> as .*Digest>::as_bytes$", r".*", "N in {24, 32} <= 32"),
    # ---- fri -------------------------------------------------------------------------------------
    (r"FriProofLayer::parse$", r"Overflow:Mul#folding_factor#0", "ELEMENT_BYTES <= 48 and folding factor <= 16"),
    (r"FriProofLayer::parse$", r"DivisionByZero", "num_query_bytes = ELEMENT_BYTES * folding_factor >= 16"),
    (r"FriProofLayer::parse$", r"call:from_elem|call:with_capacity|Overflow:Mul#folding_factor,num_queries", "num_queries = values.len() / num_query_bytes: bounded by the bytes already held in memory"),
    (r"FriProof::num_remainder_elements$", r"DivisionByZero", "ELEMENT_BYTES >= 8"),
    (r"FriProof::parse_layers$", r"diverge:assert", "domain size and folding factor come from validated options (powers of two, folding factor in [2,16])"),
    (r"FriProof::num_partitions$", r"call:pow", "exponent <= 63: read_from rejects larger values and FriProof::new stores trailing_zeros of a non-zero usize"),
    (r"FriOptions::new$", r"diverge:assert", "ProofOptions::to_fri_options passes a power-of-two blowup and a folding factor in {2,4,8,16} (ProofOptions invariants)"),
    (r"FriOptions::num_fri_layers$", r".*", "folding_factor in {2,4,8,16}; remainder degree <= 255 and blowup <= 128"),
    (r"fri::utils::map_positions_to_indexes$", r"DivisionByZero", "num_partitions = 2^k >= 1 and folding factor >= 2"),
    (r"fri::utils::map_positions_to_indexes$", r"Overflow", "partition_idx < num_partitions and local_idx < partition_size: the result is below the target domain size"),
    (r"fri::folding::fold_positions$", r"RemainderByZero", "target domain = layer domain / folding factor >= 1: FriVerifier::new rejects (DegreeTruncation) unless the degree bound of every verified layer is a non-zero multiple of the folding factor, and the layer domain is that bound times the blowup factor",
     {"kind": "pred-guard", "func": "winter_fri::verifier::FriVerifier::<E, C, H, R, V>::new", "pred": "is_multiple_of", "count": 1}),
    (r"fri::folding::fold_positions$", r".*", "folding factor >= 2"),
    (r"FriVerifier::<E, C, H, R, V>::new$", r"Overflow:Mul", "max_poly_degree < 2^32 (trace length bound) and blowup <= 128"),
    (r"FriVerifier::<E, C, H, R, V>::new$", r"call:with_capacity", "capacity = number of commitments parsed from the proof (bytes already held)"),
    (r"FriVerifier::<E, C, H, R, V>::new$", r"Overflow:Sub#1,(layer_commitments,)?len", "inside the loop over layer_commitments, so len >= 1"),
    (r"FriVerifier::<E, C, H, R, V>::new$", r"Overflow:Sub#1,max_degree_plus_1", "DegreeTruncation payload: max_degree_plus_1 is not a multiple of the folding factor here, hence non-zero"),
    (r"FriVerifier::<E, C, H, R, V>::verify_generic$", r"call:index#\.0,\.layer_(commitments|alphas)", "depth < num_fri_layers and Commitments::parse read exactly num_fri_layers + 1 commitments (one alpha each)"),
    (r"FriVerifier::<E, C, H, R, V>::verify_generic$", r"Overflow:Sub", "DegreeTruncation / RemainderDegreeMismatch payloads: max_degree_plus_1 >= 1 (it is (max_poly_degree + 1) / N^k with exact divisions)"),
    (r"FriVerifier::<E, C, H, R, V>::verify_generic::\{closure#0\}$", r"Overflow:Mul", "domain_size / N * i < domain_size"),
    (r"FriVerifier::<E, C, H, R, V>::verify_generic::\{closure#2\}$", r"call:unwrap", "collecting exactly N folding roots into [E; N]"),
    (r"fri::verifier::get_query_values(::\{closure#\d+\})*$", r"(DivisionByZero|RemainderByZero)#(position|row_length)?#", "row_length = layer domain / N >= 1: FriVerifier::new rejects (DegreeTruncation) unless the degree bound of every verified layer is a non-zero multiple of the folding factor",
     {"kind": "pred-guard", "func": "winter_fri::verifier::FriVerifier::<E, C, H, R, V>::new", "pred": "is_multiple_of", "count": 1}),
    (r"fri::verifier::get_query_values$", r"DivisionByZero", "N is a const generic in {2,4,8,16}"),
    (r"fri::verifier::get_query_values$", r"call:unwrap|BoundsCheck", "every position folds to one of folded_positions (fold_positions of the same list) and values has one row per folded position (read_layer_queries checked the opening against them)"),
    (r"DefaultVerifierChannel<E, H, V> as .*VerifierChannel<E>>::", r".*", "test/standalone channel: not used by winter_verifier::verify (which uses winter_verifier::channel::VerifierChannel)"),
    # ---- verifier ------------------------------------------------------------------------------
    (r"winter_verifier::channel::VerifierChannel<E, H, V> as .*::(read_fri_layer_commitments|take_fri_remainder)$", r"call:expect", "protocol order: taken exactly once (FriVerifier::new / verify_generic)"),
    (r"winter_verifier::channel::VerifierChannel<E, H, V> as .*::take_next_fri_layer_(proof|queries)$", r"call:remove", "VerifierChannel::new checked that the proof carries exactly num_fri_layers layers, and verify_generic takes one per layer",
     {"kind": "err-guard", "func": "winter_verifier::channel::VerifierChannel::<E, H, V>::new", "lhs": "fri_layer_proofs", "rel": "Ne", "rhs": "num_fri_layers"}),
    (r"VerifierChannel::<E, H, V>::read_(ood_trace_frame|ood_constraint_frame|constraint_evaluations|queried_trace_states)$", r"call:expect", "protocol order: each reader is called exactly once by perform_verification"),
    (r"VerifierChannel::<E, H, V>::read_queried_trace_states$", r"call:index", "trace_commitments has num_segments entries (Commitments::parse) and query_proofs one entry per segment (TraceQueries::new); index 1 is used only when aux states exist"),
    (r"winter_verifier::channel::TraceQueries::<E, H, V>::new$", r"diverge:assert_eq|call:remove", "Proof::read_from reads exactly trace_info.num_segments() trace query sets"),
    (r"winter_verifier::channel::hash_row$", r".*", "partition_size >= 1: PartitionOptions::partition_size returns max(ceil(cols / partitions), min size) with cols >= 1, or the row width itself"),
    (r"winter_verifier::evaluator::evaluate_constraints$", r"call:from_elem", "constraint counts are lengths of the AIR's own degree vectors"),
    (r"winter_verifier::evaluator::evaluate_constraints$", r"call:expect", "aux frame present iff the trace is multi-segment, in which case perform_verification drew the aux random elements"),
    (r"winter_verifier::evaluator::evaluate_constraints", r"DivisionByZero", "periodic column polys have at least 2 values (get_periodic_column_polys asserts)"),
    (r"winter_verifier::perform_verification$", r"BoundsCheck", "Commitments::parse returned exactly num_trace_segments >= 1 trace commitments; index 1 only on the multi-segment branch"),
    (r"winter_verifier::perform_verification$", r"call:expect", "get_aux_rand_elements fails only if the coin cannot draw an element in 1000 tries"),
    (r"winter_verifier::perform_verification::\{closure#2\}$", r"Overflow:Mul", "i < number of composition columns and trace length <= 2^32"),
    (r"DeepComposer::<E>::compose_columns$", r"call:with_capacity", "n = number of queried rows <= 255"),
    (r"DeepComposer::<E>::compose_columns$", r"call:expect", "aux table present iff the trace is multi-segment, in which case the OOD frame has an aux part (OodFrame::parse with aux width > 0)"),
    (r"DeepComposer::<E>::compose_columns$", r"BoundsCheck|call:index|Overflow:Add", "all widths derive from one Air instance: tables and OOD frames are parsed with trace_info's widths and the composition-column count, and DeepCompositionCoefficients are drawn with the same counts; j < n = rows of every table"),
    (r"DeepComposer::<E>::new", r".*", "domain offsets / generator powers over validated domain sizes"),
]


def main():
    p = ir.Program(build.build("default"))
    out = {}
    unmatched = []
    for mod, entries in ((c05, None), (c19, None), (c26, None), (c27, None)):
        es = mod.entry_points(p)
        # same splicing decisions as at check time: helpers named by a `requires` stay calls
        reqs = []
        for spec in SPEC:
            if len(spec) > 3 and spec[3]:
                reqs += spec[3] if isinstance(spec[3], list) else [spec[3]]
        recs, keys, an = panics.inventory(p, es, mod.make_stop(p), {"__spec__": {"key": "__spec__", "reason": "", "requires": reqs}})
        for r in recs:
            if r["verdict"] != "open":
                continue
            hit = None
            for spec in SPEC:
                if (re.search(spec[0], r["func"]) or (r.get("origin") and re.search(spec[0], r["origin"]))) and re.search(spec[1], r["site"]["id"]):
                    hit = spec
                    break
            if hit:
                e = {"key": r["key"], "alt": r["akey"], "kalt": r["kkey"], "nkind": r["nkind"], "reason": hit[2]}
                if len(hit) > 3 and hit[3]:
                    def fix(q):
                        q = dict(q)
                        if q.get("func") == "@self":
                            q["func"] = r["func"]
                        return q
                    e["requires"] = [fix(q) for q in hit[3]] if isinstance(hit[3], list) else fix(hit[3])
                out[r["key"]] = e
            else:
                unmatched.append((mod.__name__.split(".")[-1], r["key"], r["how"]))
    path = os.path.join(os.path.dirname(os.path.dirname(os.path.abspath(__file__))), "wfstatic", "tables", "panic_sites.json")
    with open(path, "w") as fh:
        json.dump({"sites": [out[k] for k in sorted(out)]}, fh, indent=1)
    print("table: %d entries; unmatched open sites: %d" % (len(out), len(unmatched)))
    seen = set()
    for m, k, h in unmatched:
        if k in seen:
            continue
        seen.add(k)
        print("  [%s] %s | %s" % (m, k, h[:90]))


if __name__ == "__main__":
    main()
