#!/usr/bin/env python3
"""tools/mkmutant.py <name> <property> <expect-key-substring|silent> <file> <old> <new> [<file> <old> <new> ...]
Creates selftest/mutants/<name>.patch (a unified diff against /repo HEAD) with a header that
states which check must fire (or stay silent)."""
import difflib, os, subprocess, sys

HERE = os.path.dirname(os.path.dirname(os.path.abspath(__file__)))
REPO = os.environ.get("WF_REPO", "/repo")


def main():
    name, prop, expect = sys.argv[1:4]
    rest = sys.argv[4:]
    out = ["# property: %s\n" % prop, "# expect: %s\n" % expect]
    edits = {}
    for i in range(0, len(rest), 3):
        f, old, new = rest[i:i + 3]
        src = edits.get(f)
        if src is None:
            src = open(os.path.join(REPO, f)).read()
        if src.count(old) != 1:
            sys.exit("%s: pattern occurs %d times: %r" % (f, src.count(old), old))
        edits[f] = src.replace(old, new)
    for f, new in edits.items():
        old = open(os.path.join(REPO, f)).read()
        out += list(difflib.unified_diff(old.splitlines(True), new.splitlines(True), "a/" + f, "b/" + f))
    p = os.path.join(HERE, "selftest", "mutants", name + ".patch")
    with open(p, "w") as fh:
        fh.writelines(out)
    print("wrote", p)


if __name__ == "__main__":
    main()
