#!/usr/bin/env python3
"""tools/inv.py [filter] — list open panic sites for C05 scope (triage aid)."""
import sys, collections
sys.path.insert(0,'/verif')
from wfstatic import build, ir, panics
from wfstatic.rules import c05
p=ir.Program(build.build('default'))
entries=c05.entry_points(p)
table=panics.load_table(c05.TABLE)
recs,keys,an=panics.inventory(p, entries, c05.make_stop(p), table)
flt=sys.argv[1] if len(sys.argv)>1 else ''
byf=collections.defaultdict(list)
for r in recs:
    if r['verdict']=='open' and flt in r['func']:
        byf[r['func']].append(r)
print(collections.Counter(r['verdict'] for r in recs))
for f,rs in sorted(byf.items(), key=lambda x:-len(x[1])):
    print("%3d %s" % (len(rs), f))
    if flt or '-v' in sys.argv:
        for r in rs:
            print("      %s  %s  | %s" % (ir.line_of(r['at']).split('/')[-1], r['site']['id'], r['how'][:110]))
