// C14: "power series with and without offset return successive powers ... for every length".
// On the pinned tree get_power_series(b, 0) and get_power_series_with_offset(b, s, 0) panicked with an
// index out of bounds in fill_power_series (`result[0] = start` on the empty batch) instead of returning
// an empty vector.  Run from math/tests/ of a checkout: cargo test -p winter-math --offline --test c14_power_series_len0
use winter_math::{fields::f64::BaseElement, get_power_series, get_power_series_with_offset, FieldElement};

#[test]
fn empty_power_series() {
    let b = BaseElement::new(3);
    assert_eq!(get_power_series(b, 0), Vec::<BaseElement>::new());
    assert_eq!(get_power_series_with_offset(b, BaseElement::ONE, 0), Vec::<BaseElement>::new());
    assert_eq!(get_power_series(b, 1), vec![BaseElement::ONE]);
}
