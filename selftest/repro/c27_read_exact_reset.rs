use std::io::Read;
use winter_utils::{ByteReader, ReadAdapter, SliceReader};
struct Chunked<'a> { data: &'a [u8], chunk: usize }
impl Read for Chunked<'_> {
    fn read(&mut self, buf: &mut [u8]) -> std::io::Result<usize> {
        let n = self.chunk.min(buf.len()).min(self.data.len());
        buf[..n].copy_from_slice(&self.data[..n]);
        self.data = &self.data[n..];
        Ok(n)
    }
}
#[test]
fn reset_without_pos() {
    let data = [1u8, 2, 3, 4, 5];
    let mut src = Chunked { data: &data, chunk: 2 };
    let mut r = ReadAdapter::new(&mut src);
    let mut s = SliceReader::new(&data);
    assert_eq!(r.read_slice(1).map(|x| x.to_vec()), s.read_slice(1).map(|x| x.to_vec()));
    assert_eq!(r.read_array::<2>(), s.read_array::<2>());
    let a = std::panic::catch_unwind(std::panic::AssertUnwindSafe(|| r.read_array::<2>()));
    println!("TRIAGE third read: adapter {:?} slice {:?}", a, s.read_array::<2>());
}
