use std::io::Read;
use winter_utils::{ByteReader, ReadAdapter, SliceReader};

struct Chunked<'a> { data: &'a [u8], chunk: usize }
impl Read for Chunked<'_> {
    fn read(&mut self, buf: &mut [u8]) -> std::io::Result<usize> {
        let n = self.chunk.min(buf.len()).min(self.data.len());
        buf[..n].copy_from_slice(&self.data[..n]);
        self.data = &self.data[n..];
        Ok(n)
    }
}

#[test]
fn a_read_slice_across_three_chunks() {
    let data: Vec<u8> = (0..=255u8).cycle().take(400).collect();
    let mut src = Chunked { data: &data, chunk: 100 };
    let mut r = ReadAdapter::new(&mut src);
    let got = r.read_slice(300).map(|s| s.to_vec());
    let want = SliceReader::new(&data).read_slice(300).map(|s| s.to_vec());
    assert_eq!(got, want);
}

#[test]
fn b_read_u64_after_partial_slice() {
    let data: Vec<u8> = (0..64u8).collect();
    let mut src = Chunked { data: &data, chunk: 3 };
    let mut r = ReadAdapter::new(&mut src);
    let mut s = SliceReader::new(&data);
    assert_eq!(r.read_slice(1).map(|x| x.to_vec()), s.read_slice(1).map(|x| x.to_vec()));
    assert_eq!(r.read_u64(), s.read_u64());
}

#[test]
fn c_read_u64_short_first_chunk() {
    let data: Vec<u8> = (0..64u8).collect();
    let mut src = Chunked { data: &data, chunk: 3 };
    let mut r = ReadAdapter::new(&mut src);
    let mut s = SliceReader::new(&data);
    assert_eq!(r.read_u64(), s.read_u64());
}
