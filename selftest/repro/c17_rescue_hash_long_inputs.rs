use winter_crypto::{hashers::{Rp62_248, Rp64_256, RpJive64_256}, Hasher};

fn run<H: Hasher>(name: &str) {
    for len in [55usize, 56, 57, 62, 63, 64, 70, 100] {
        let data: Vec<u8> = (0..len).map(|i| (i % 251) as u8 + 1).collect();
        let r = std::panic::catch_unwind(|| H::hash(&data));
        println!("TRIAGE {name} len {len}: {}", if r.is_ok() { "ok" } else { "PANIC" });
    }
}

#[test]
fn hash_long_inputs() {
    run::<Rp64_256>("Rp64_256");
    run::<Rp62_248>("Rp62_248");
    run::<RpJive64_256>("RpJive64_256");
}
