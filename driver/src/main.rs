// wf-facts-driver: a rustc_private driver that type-checks a crate exactly as cargo asks and,
// after analysis, writes one JSON fact file (functions + MIR, evaluated constants, ADTs, impl
// tables) for the rule engine in /verif/wfstatic. It never runs any winterfell code.
//
// Used as RUSTC_WORKSPACE_WRAPPER: argv = [driver, <path to rustc>, rustc args...].
#![feature(rustc_private)]
#![feature(box_patterns)]
#![allow(clippy::all)]

extern crate rustc_abi;
extern crate rustc_data_structures;
extern crate rustc_driver;
extern crate rustc_hir;
extern crate rustc_interface;
extern crate rustc_middle;
extern crate rustc_session;
extern crate rustc_span;

use std::fmt::Write as _;

use rustc_driver::Compilation;
use rustc_hir::def::DefKind;
use rustc_hir::def_id::{DefId, LocalDefId, LOCAL_CRATE};
use rustc_interface::interface::Compiler;
use rustc_middle::mir::{
    self, AggregateKind, AssertKind, BasicBlock, Body, Const as MirConst, ConstValue, Operand,
    Place, ProjectionElem, Rvalue, StatementKind, TerminatorKind,
};
use rustc_middle::ty::print::{with_no_trimmed_paths, with_no_visible_paths, with_resolve_crate_name};
use rustc_middle::ty::{self, Instance, Ty, TyCtxt, TypingEnv};
use rustc_span::Span;

mod json;
use json::{jstr, J};

struct Cb;

impl rustc_driver::Callbacks for Cb {
    fn after_analysis<'tcx>(&mut self, _c: &Compiler, tcx: TyCtxt<'tcx>) -> Compilation {
        let dir = match std::env::var("WF_FACTS_DIR") {
            Ok(d) => d,
            Err(_) => return Compilation::Continue,
        };
        let krate = tcx.crate_name(LOCAL_CRATE).to_string();
        if krate.starts_with("build_script") {
            return Compilation::Continue;
        }
        let ctypes: Vec<String> =
            tcx.crate_types().iter().map(|t| format!("{:?}", t).to_lowercase()).collect();
        let out = with_no_trimmed_paths!(with_no_visible_paths!(with_resolve_crate_name!(extract(tcx, &krate, &ctypes))));
        let cfgid = std::env::var("WF_FACTS_CFG").unwrap_or_else(|_| "default".into());
        let path = format!("{}/{}-{}-{}.json", dir, krate, ctypes.join("_"), cfgid);
        let tmp = format!("{}.tmp{}", path, std::process::id());
        std::fs::create_dir_all(&dir).ok();
        std::fs::write(&tmp, out).expect("write facts");
        std::fs::rename(&tmp, &path).expect("rename facts");
        Compilation::Continue
    }
}

fn main() {
    let mut args: Vec<String> = std::env::args().collect();
    // RUSTC_WORKSPACE_WRAPPER passes the real rustc path as argv[1]
    if args.len() > 1 && (args[1].ends_with("rustc") || args[1].contains("/rustc")) {
        args.remove(1);
    }
    let mut cb = Cb;
    rustc_driver::run_compiler(&args, &mut cb);
}

fn loc(tcx: TyCtxt<'_>, span: Span) -> (String, Vec<String>) {
    // walk out of macro expansions, collecting macro names (innermost first)
    let mut macros = Vec::new();
    let mut sp = span;
    let mut guard = 0;
    while sp.from_expansion() && guard < 32 {
        let ed = sp.ctxt().outer_expn_data();
        match ed.kind {
            rustc_span::ExpnKind::Macro(_, name) => macros.push(name.to_string()),
            rustc_span::ExpnKind::Desugaring(d) => macros.push(format!("desugar:{:?}", d)),
            rustc_span::ExpnKind::AstPass(p) => macros.push(format!("astpass:{:?}", p)),
            rustc_span::ExpnKind::Root => {}
        }
        sp = ed.call_site;
        guard += 1;
    }
    let sm = tcx.sess.source_map();
    let l = sm.lookup_char_pos(sp.lo());
    let file = match &l.file.name {
        rustc_span::FileName::Real(r) => match r.local_path() {
            Some(p) => p.to_string_lossy().to_string(),
            None => format!("{:?}", r),
        },
        other => format!("{:?}", other),
    };
    (format!("{}:{}:{}", file, l.line, l.col.0 + 1), macros)
}

fn span_j(tcx: TyCtxt<'_>, span: Span) -> J {
    let (l, m) = loc(tcx, span);
    let mut o = J::obj();
    o.set("at", J::s(&l));
    if !m.is_empty() {
        o.set("mac", J::Arr(m.iter().map(|x| J::s(x)).collect()));
    }
    o
}

fn ty_s<'tcx>(t: Ty<'tcx>) -> String {
    t.to_string()
}

fn place_j<'tcx>(tcx: TyCtxt<'tcx>, body: &Body<'tcx>, p: &Place<'tcx>) -> J {
    let mut v = vec![J::Int(p.local.as_usize() as i128)];
    for (base, elem) in p.iter_projections() {
        let s = match elem {
            ProjectionElem::Deref => "*".to_string(),
            ProjectionElem::Field(f, _) => {
                let pty = base.ty(&body.local_decls, tcx);
                let mut name = String::new();
                if let ty::Adt(adt, _) = pty.ty.kind() {
                    let vi = pty.variant_index.unwrap_or(rustc_abi::FIRST_VARIANT);
                    if adt.is_enum() || adt.is_struct() || adt.is_union() {
                        if let Some(var) = adt.variants().get(vi) {
                            if let Some(fd) = var.fields.get(f) {
                                name = fd.name.to_string();
                            }
                        }
                    }
                }
                format!(".{}:{}", f.as_usize(), name)
            }
            ProjectionElem::Index(l) => format!("[_{}]", l.as_usize()),
            ProjectionElem::ConstantIndex { offset, min_length, from_end } => {
                format!("[c{}{}/{}]", if from_end { "-" } else { "" }, offset, min_length)
            }
            ProjectionElem::Subslice { from, to, from_end } => {
                format!("[s{}:{}{}]", from, if from_end { "-" } else { "" }, to)
            }
            ProjectionElem::Downcast(name, vi) => format!(
                "@{}:{}",
                vi.as_usize(),
                name.map(|n| n.to_string()).unwrap_or_default()
            ),
            _ => format!("?{:?}", elem),
        };
        v.push(J::s(&s));
    }
    J::Arr(v)
}

fn scalar_int_of<'tcx>(
    tcx: TyCtxt<'tcx>,
    env: TypingEnv<'tcx>,
    c: &MirConst<'tcx>,
) -> Option<u128> {
    let t = c.ty();
    if !(t.is_integral() || t.is_bool() || t.is_char()) {
        return None;
    }
    let si = c.try_eval_scalar_int(tcx, env)?;
    Some(si.to_bits_unchecked())
}

fn callee_j<'tcx>(
    tcx: TyCtxt<'tcx>,
    env: TypingEnv<'tcx>,
    def_id: DefId,
    args: ty::GenericArgsRef<'tcx>,
) -> J {
    let mut o = J::obj();
    o.set("def", J::s(&tcx.def_path_str(def_id)));
    o.set("full", J::s(&tcx.def_path_str_with_args(def_id, args)));
    o.set("krate", J::s(&tcx.crate_name(def_id.krate).to_string()));
    o.set("args", J::Arr(args.iter().map(|a| J::s(&a.to_string())).collect()));
    if let Some(assoc) = tcx.opt_associated_item(def_id) {
        if let Some(tr) = assoc.trait_container(tcx) {
            o.set("trait", J::s(&tcx.def_path_str(tr)));
        }
        o.set("name", J::s(&assoc.name().to_string()));
    } else if let Some(n) = tcx.opt_item_name(def_id) {
        o.set("name", J::s(&n.to_string()));
    }
    // resolve through trait dispatch where the typing env allows it
    let res = std::panic::catch_unwind(std::panic::AssertUnwindSafe(|| {
        Instance::try_resolve(tcx, env, def_id, args)
    }));
    if let Ok(Ok(Some(inst))) = res {
        let rd = inst.def_id();
        if rd != def_id {
            o.set("rdef", J::s(&tcx.def_path_str(rd)));
            o.set("rfull", J::s(&tcx.def_path_str_with_args(rd, inst.args)));
            o.set("rkrate", J::s(&tcx.crate_name(rd.krate).to_string()));
        }
        match inst.def {
            ty::InstanceKind::Item(_) => {}
            ref other => {
                let s = format!("{:?}", other);
                let k = s.split('(').next().unwrap_or("").to_string();
                o.set("ikind", J::s(&k));
            }
        }
    }
    o
}

fn const_j<'tcx>(tcx: TyCtxt<'tcx>, env: TypingEnv<'tcx>, c: &MirConst<'tcx>) -> J {
    let mut o = J::obj();
    let t = c.ty();
    o.set("ty", J::s(&ty_s(t)));
    match t.kind() {
        ty::FnDef(def_id, args) => {
            o.set("fn", callee_j(tcx, env, *def_id, args));
        }
        _ => {}
    }
    match c {
        MirConst::Unevaluated(uv, _) => {
            o.set("uneval", J::s(&tcx.def_path_str_with_args(uv.def, uv.args)));
            o.set("uneval_def", J::s(&tcx.def_path_str(uv.def)));
            if let Some(p) = uv.promoted {
                o.set("promoted", J::Int(p.as_usize() as i128));
            }
        }
        MirConst::Ty(_, ct) => {
            o.set("tyconst", J::s(&ct.to_string()));
        }
        MirConst::Val(..) => {}
    }
    let is_promoted = matches!(c, MirConst::Unevaluated(uv, _) if uv.promoted.is_some());
    if !is_promoted {
        let r = std::panic::catch_unwind(std::panic::AssertUnwindSafe(|| {
            scalar_int_of(tcx, env, c)
        }));
        if let Ok(Some(v)) = r {
            o.set("v", J::s(&v.to_string()));
        }
    }
    o
}

fn operand_j<'tcx>(
    tcx: TyCtxt<'tcx>,
    env: TypingEnv<'tcx>,
    body: &Body<'tcx>,
    op: &Operand<'tcx>,
) -> J {
    match op {
        Operand::Copy(p) => J::Arr(vec![J::s("cp"), place_j(tcx, body, p)]),
        Operand::Move(p) => J::Arr(vec![J::s("mv"), place_j(tcx, body, p)]),
        Operand::Constant(box c) => J::Arr(vec![J::s("k"), const_j(tcx, env, &c.const_)]),
        #[allow(unreachable_patterns)]
        _ => J::Arr(vec![J::s("?"), J::s(&format!("{:?}", op))]),
    }
}

fn rvalue_j<'tcx>(
    tcx: TyCtxt<'tcx>,
    env: TypingEnv<'tcx>,
    body: &Body<'tcx>,
    rv: &Rvalue<'tcx>,
) -> J {
    let op = |o: &Operand<'tcx>| operand_j(tcx, env, body, o);
    match rv {
        Rvalue::Use(o, ..) => J::Arr(vec![J::s("use"), op(o)]),
        Rvalue::Repeat(o, n) => J::Arr(vec![J::s("repeat"), op(o), J::s(&n.to_string())]),
        Rvalue::Ref(_, bk, p) => J::Arr(vec![
            J::s("ref"),
            J::s(match bk {
                mir::BorrowKind::Shared => "shared",
                mir::BorrowKind::Fake(_) => "fake",
                mir::BorrowKind::Mut { .. } => "mut",
            }),
            place_j(tcx, body, p),
        ]),
        Rvalue::RawPtr(k, p) => J::Arr(vec![
            J::s("rawptr"),
            J::s(&format!("{:?}", k)),
            place_j(tcx, body, p),
        ]),
        Rvalue::Cast(kind, o, t) => {
            let ks = format!("{:?}", kind);
            J::Arr(vec![
                J::s("cast"),
                J::s(&ks),
                op(o),
                J::s(&ty_s(*t)),
                J::s(&ty_s(o.ty(&body.local_decls, tcx))),
            ])
        }
        Rvalue::BinaryOp(b, box (l, r)) => {
            J::Arr(vec![J::s("bin"), J::s(&format!("{:?}", b)), op(l), op(r)])
        }
        Rvalue::UnaryOp(u, o) => J::Arr(vec![J::s("un"), J::s(&format!("{:?}", u)), op(o)]),
        Rvalue::Discriminant(p) => J::Arr(vec![J::s("discr"), place_j(tcx, body, p)]),
        Rvalue::Aggregate(box kind, fields) => {
            let mut k = J::obj();
            match kind {
                AggregateKind::Array(t) => {
                    k.set("k", J::s("array"));
                    k.set("ty", J::s(&ty_s(*t)));
                }
                AggregateKind::Tuple => {
                    k.set("k", J::s("tuple"));
                }
                AggregateKind::Adt(def, vi, args, _, _) => {
                    k.set("k", J::s("adt"));
                    k.set("adt", J::s(&tcx.def_path_str(*def)));
                    k.set("full", J::s(&tcx.def_path_str_with_args(*def, args)));
                    let adt = tcx.adt_def(*def);
                    let var = adt.variant(*vi);
                    k.set("variant", J::s(&var.name.to_string()));
                    k.set("vi", J::Int(vi.as_usize() as i128));
                    k.set(
                        "fields",
                        J::Arr(var.fields.iter().map(|f| J::s(&f.name.to_string())).collect()),
                    );
                }
                AggregateKind::Closure(def, _) => {
                    k.set("k", J::s("closure"));
                    k.set("def", J::s(&tcx.def_path_str(*def)));
                }
                AggregateKind::Coroutine(def, _) => {
                    k.set("k", J::s("coroutine"));
                    k.set("def", J::s(&tcx.def_path_str(*def)));
                }
                AggregateKind::CoroutineClosure(def, _) => {
                    k.set("k", J::s("coroutine_closure"));
                    k.set("def", J::s(&tcx.def_path_str(*def)));
                }
                AggregateKind::RawPtr(t, _) => {
                    k.set("k", J::s("rawptr"));
                    k.set("ty", J::s(&ty_s(*t)));
                }
            }
            J::Arr(vec![J::s("agg"), k, J::Arr(fields.iter().map(|f| op(f)).collect())])
        }
        Rvalue::CopyForDeref(p) => {
            J::Arr(vec![J::s("use"), J::Arr(vec![J::s("cp"), place_j(tcx, body, p)])])
        }
        Rvalue::ThreadLocalRef(d) => J::Arr(vec![J::s("tls"), J::s(&tcx.def_path_str(*d))]),
        other => J::Arr(vec![J::s("other"), J::s(&format!("{:?}", other))]),
    }
}

fn bb(b: BasicBlock) -> J {
    J::Int(b.as_usize() as i128)
}

fn body_j<'tcx>(tcx: TyCtxt<'tcx>, def: LocalDefId, body: &Body<'tcx>) -> J {
    let env = TypingEnv::post_analysis(tcx, def.to_def_id());
    let mut o = J::obj();
    o.set("argc", J::Int(body.arg_count as i128));
    let mut names: Vec<Option<String>> = vec![None; body.local_decls.len()];
    let mut dbg = Vec::new();
    for vdi in &body.var_debug_info {
        if let mir::VarDebugInfoContents::Place(p) = &vdi.value {
            if p.projection.is_empty() {
                names[p.local.as_usize()] = Some(vdi.name.to_string());
            } else {
                dbg.push(J::Arr(vec![J::s(&vdi.name.to_string()), place_j(tcx, body, p)]));
            }
        }
    }
    let mut locals = Vec::new();
    for (i, d) in body.local_decls.iter().enumerate() {
        let mut l = J::obj();
        l.set("ty", J::s(&ty_s(d.ty)));
        if let Some(n) = &names[i] {
            l.set("name", J::s(n));
        }
        locals.push(l);
    }
    o.set("locals", J::Arr(locals));
    if !dbg.is_empty() {
        o.set("dbg", J::Arr(dbg));
    }
    let mut blocks = Vec::new();
    for (_bbi, data) in body.basic_blocks.iter_enumerated() {
        let mut b = J::obj();
        if data.is_cleanup {
            b.set("cleanup", J::Bool(true));
        }
        let mut stmts = Vec::new();
        for st in &data.statements {
            match &st.kind {
                StatementKind::Assign(box (p, rv)) => {
                    let mut s = J::obj();
                    s.set("k", J::s("assign"));
                    s.set("p", place_j(tcx, body, p));
                    s.set("rv", rvalue_j(tcx, env, body, rv));
                    s.set("sp", span_j(tcx, st.source_info.span));
                    stmts.push(s);
                }
                StatementKind::SetDiscriminant { place, variant_index } => {
                    let mut s = J::obj();
                    s.set("k", J::s("setdiscr"));
                    s.set("p", place_j(tcx, body, place));
                    s.set("vi", J::Int(variant_index.as_usize() as i128));
                    stmts.push(s);
                }
                StatementKind::Intrinsic(box i) => {
                    let mut s = J::obj();
                    s.set("k", J::s("intrinsic"));
                    s.set("d", J::s(&format!("{:?}", i)));
                    s.set("sp", span_j(tcx, st.source_info.span));
                    stmts.push(s);
                }
                _ => {}
            }
        }
        b.set("s", J::Arr(stmts));
        let term = data.terminator();
        let mut t = J::obj();
        t.set("sp", span_j(tcx, term.source_info.span));
        match &term.kind {
            TerminatorKind::Goto { target } => {
                t.set("k", J::s("goto"));
                t.set("t", bb(*target));
            }
            TerminatorKind::SwitchInt { discr, targets } => {
                t.set("k", J::s("switch"));
                t.set("d", operand_j(tcx, env, body, discr));
                t.set("dty", J::s(&ty_s(discr.ty(&body.local_decls, tcx))));
                t.set(
                    "arms",
                    J::Arr(
                        targets
                            .iter()
                            .map(|(v, b)| J::Arr(vec![J::s(&v.to_string()), bb(b)]))
                            .collect(),
                    ),
                );
                t.set("else", bb(targets.otherwise()));
            }
            TerminatorKind::Return => {
                t.set("k", J::s("return"));
            }
            TerminatorKind::Unreachable => {
                t.set("k", J::s("unreachable"));
            }
            TerminatorKind::UnwindResume => {
                t.set("k", J::s("resume"));
            }
            TerminatorKind::UnwindTerminate(_) => {
                t.set("k", J::s("terminate"));
            }
            TerminatorKind::Drop { place, target, .. } => {
                t.set("k", J::s("drop"));
                t.set("p", place_j(tcx, body, place));
                t.set("t", bb(*target));
            }
            TerminatorKind::Call { func, args, destination, target, fn_span, .. } => {
                t.set("k", J::s("call"));
                t.set("f", operand_j(tcx, env, body, func));
                t.set(
                    "a",
                    J::Arr(args.iter().map(|a| operand_j(tcx, env, body, &a.node)).collect()),
                );
                t.set("dest", place_j(tcx, body, destination));
                if let Some(tg) = target {
                    t.set("t", bb(*tg));
                }
                t.set("fsp", span_j(tcx, *fn_span));
            }
            TerminatorKind::TailCall { func, args, .. } => {
                t.set("k", J::s("tailcall"));
                t.set("f", operand_j(tcx, env, body, func));
                t.set(
                    "a",
                    J::Arr(args.iter().map(|a| operand_j(tcx, env, body, &a.node)).collect()),
                );
            }
            TerminatorKind::Assert { cond, expected, msg, target, .. } => {
                t.set("k", J::s("assert"));
                t.set("c", operand_j(tcx, env, body, cond));
                t.set("exp", J::Bool(*expected));
                let (kind, ops): (String, Vec<&Operand<'tcx>>) = match &**msg {
                    AssertKind::BoundsCheck { len, index } => ("BoundsCheck".into(), vec![len, index]),
                    AssertKind::Overflow(op, l, r) => (format!("Overflow:{:?}", op), vec![l, r]),
                    AssertKind::OverflowNeg(x) => ("OverflowNeg".into(), vec![x]),
                    AssertKind::DivisionByZero(x) => ("DivisionByZero".into(), vec![x]),
                    AssertKind::RemainderByZero(x) => ("RemainderByZero".into(), vec![x]),
                    other => {
                        let s = format!("{:?}", other);
                        (s.split(|c| c == '(' || c == ' ' || c == '{').next().unwrap_or("").to_string(), vec![])
                    }
                };
                t.set("ak", J::s(&kind));
                t.set(
                    "ao",
                    J::Arr(ops.iter().map(|x| operand_j(tcx, env, body, x)).collect()),
                );
                t.set("t", bb(*target));
            }
            TerminatorKind::FalseEdge { real_target, .. } => {
                t.set("k", J::s("goto"));
                t.set("t", bb(*real_target));
            }
            TerminatorKind::FalseUnwind { real_target, .. } => {
                t.set("k", J::s("goto"));
                t.set("t", bb(*real_target));
            }
            TerminatorKind::Yield { resume, .. } => {
                t.set("k", J::s("yield"));
                t.set("t", bb(*resume));
            }
            TerminatorKind::CoroutineDrop => {
                t.set("k", J::s("coroutine_drop"));
            }
            TerminatorKind::InlineAsm { .. } => {
                t.set("k", J::s("asm"));
            }
        }
        b.set("t", t);
        blocks.push(b);
    }
    o.set("blocks", J::Arr(blocks));
    o
}

fn alloc_j<'tcx>(a: &rustc_middle::mir::interpret::Allocation, offset: u64) -> J {
    let mut o = J::obj();
    let len = a.len();
    let has_ptrs = !a.provenance().ptrs().is_empty();
    let bytes = a.inspect_with_uninit_and_ptr_outside_interpreter(0..len);
    let mut hex = String::with_capacity(bytes.len() * 2);
    for b in bytes {
        let _ = write!(hex, "{:02x}", b);
    }
    o.set("bytes", J::s(&hex));
    o.set("offset", J::Int(offset as i128));
    if has_ptrs {
        o.set("has_ptrs", J::Bool(true));
    }
    o
}

fn const_value_j<'tcx>(tcx: TyCtxt<'tcx>, def_id: DefId) -> Option<J> {
    if tcx.is_static(def_id) {
        let r = std::panic::catch_unwind(std::panic::AssertUnwindSafe(|| {
            tcx.eval_static_initializer(def_id)
        }));
        return match r {
            Ok(Ok(a)) => Some(alloc_j(a.inner(), 0)),
            _ => None,
        };
    }
    let r = std::panic::catch_unwind(std::panic::AssertUnwindSafe(|| tcx.const_eval_poly(def_id)));
    let v = match r {
        Ok(Ok(v)) => v,
        _ => return None,
    };
    let mut o = J::obj();
    match v {
        ConstValue::Scalar(mir::interpret::Scalar::Int(i)) => {
            o.set("scalar", J::s(&i.to_bits_unchecked().to_string()));
            o.set("size", J::Int(i.size().bytes() as i128));
        }
        ConstValue::Scalar(_) => {
            o.set("ptr", J::Bool(true));
        }
        ConstValue::ZeroSized => {
            o.set("zst", J::Bool(true));
        }
        ConstValue::Indirect { alloc_id, offset } => {
            if let rustc_middle::mir::interpret::GlobalAlloc::Memory(a) = tcx.global_alloc(alloc_id) {
                return Some(alloc_j(a.inner(), offset.bytes()));
            } else {
                return None;
            }
        }
        ConstValue::Slice { .. } => {
            o.set("slice", J::Bool(true));
        }
    }
    Some(o)
}

fn extract<'tcx>(tcx: TyCtxt<'tcx>, krate: &str, ctypes: &[String]) -> String {
    let mut root = J::obj();
    root.set("crate", J::s(krate));
    root.set("crate_types", J::Arr(ctypes.iter().map(|c| J::s(c)).collect()));

    let mut funcs = Vec::new();
    let mut consts = Vec::new();
    let mut adts = Vec::new();
    let mut impls = Vec::new();
    let mut traits = Vec::new();

    let mut keys: Vec<LocalDefId> = tcx.mir_keys(()).iter().copied().collect();
    keys.sort_by_key(|k| tcx.def_path_str(k.to_def_id()));
    for ldid in keys {
        let did = ldid.to_def_id();
        let kind = tcx.def_kind(did);
        match kind {
            DefKind::Fn | DefKind::AssocFn | DefKind::Closure => {
                let mut f = J::obj();
                f.set("key", J::s(&tcx.def_path_str(did)));
                f.set("kind", J::s(&format!("{:?}", kind)));
                let (l, m) = loc(tcx, tcx.def_span(did));
                f.set("at", J::s(&l));
                if !m.is_empty() {
                    f.set("mac", J::Arr(m.iter().map(|x| J::s(x)).collect()));
                }
                if matches!(kind, DefKind::Fn | DefKind::AssocFn) {
                    f.set("vis", J::s(&format!("{:?}", tcx.visibility(did))));
                    f.set("is_const", J::Bool(tcx.is_const_fn(did)));
                    let sig = tcx.fn_sig(did).instantiate_identity().skip_norm_wip();
                    f.set("ret", J::s(&sig.output().skip_binder().to_string()));
                    f.set(
                        "params",
                        J::Arr(
                            sig.inputs()
                                .skip_binder()
                                .iter()
                                .map(|t| J::s(&t.to_string()))
                                .collect(),
                        ),
                    );
                }
                {
                    // names of the generic parameters in declaration order (parents first), so that
                    // a call site's generic arguments can be matched with `const N` uses in the body
                    let mut names: Vec<J> = Vec::new();
                    let mut chain = Vec::new();
                    let mut g = Some(tcx.generics_of(did));
                    while let Some(gen) = g {
                        chain.push(gen);
                        g = gen.parent.map(|p| tcx.generics_of(p));
                    }
                    for gen in chain.iter().rev() {
                        for prm in gen.own_params.iter() {
                            names.push(J::s(prm.name.as_str()));
                        }
                    }
                    f.set("generics", J::Arr(names));
                }
                if kind == DefKind::Closure {
                    let root_id = tcx.typeck_root_def_id(did);
                    f.set("root", J::s(&tcx.def_path_str(root_id)));
                    f.set("parent", J::s(&tcx.def_path_str(tcx.parent(did))));
                    let caps: Vec<J> = tcx
                        .closure_captures(ldid)
                        .iter()
                        .map(|c| {
                            let mut o = J::obj();
                            o.set("place", J::s(&c.to_string(tcx)));
                            o.set("kind", J::s(&format!("{:?}", c.info.capture_kind)));
                            o.set("ty", J::s(&c.place.ty().to_string()));
                            o
                        })
                        .collect();
                    f.set("captures", J::Arr(caps));
                }
                if let Some(assoc) = tcx.opt_associated_item(did) {
                    f.set("name", J::s(&assoc.name().to_string()));
                    let container = tcx.parent(did);
                    match tcx.def_kind(container) {
                        DefKind::Impl { of_trait } => {
                            f.set(
                                "self_ty",
                                J::s(&tcx.type_of(container).instantiate_identity().skip_norm_wip().to_string()),
                            );
                            if of_trait {
                                let tr = tcx.impl_trait_ref(container).instantiate_identity().skip_norm_wip();
                                f.set("impl_trait", J::s(&tcx.def_path_str(tr.def_id)));
                                f.set("impl_trait_full", J::s(&tr.to_string()));
                            }
                        }
                        DefKind::Trait => {
                            f.set("in_trait", J::s(&tcx.def_path_str(container)));
                        }
                        _ => {}
                    }
                } else if let Some(n) = tcx.opt_item_name(did) {
                    f.set("name", J::s(&n.to_string()));
                }
                let is_ctfe_only = false;
                if !is_ctfe_only {
                    let r = std::panic::catch_unwind(std::panic::AssertUnwindSafe(|| {
                        let body = tcx.optimized_mir(did);
                        body_j(tcx, ldid, body)
                    }));
                    match r {
                        Ok(b) => f.set("mir", b),
                        Err(_) => f.set("mir_error", J::Bool(true)),
                    }
                    // promoted constants (`&(LO..=HI)`, `&CONST[..]`): small bodies that compute the value
                    let pr = std::panic::catch_unwind(std::panic::AssertUnwindSafe(|| {
                        let proms = tcx.promoted_mir(did);
                        let mut arr: Vec<J> = Vec::new();
                        for (i, b) in proms.iter_enumerated() {
                            let mut o = J::obj();
                            o.set("idx", J::s(&format!("{}", i.as_usize())));
                            o.set("mir", body_j(tcx, ldid, b));
                            arr.push(o);
                        }
                        J::Arr(arr)
                    }));
                    if let Ok(a) = pr {
                        f.set("promoted", a);
                    }
                }
                funcs.push(f);
            }
            DefKind::Const { .. } | DefKind::AssocConst { .. } | DefKind::Static { .. } => {
                let mut c = J::obj();
                c.set("key", J::s(&tcx.def_path_str(did)));
                c.set("kind", J::s(&format!("{:?}", kind).split(|ch| ch == ' ' || ch == '{').next().unwrap_or("").to_string()));
                let (l, _) = loc(tcx, tcx.def_span(did));
                c.set("at", J::s(&l));
                c.set("ty", J::s(&tcx.type_of(did).instantiate_identity().skip_norm_wip().to_string()));
                if let Some(assoc) = tcx.opt_associated_item(did) {
                    c.set("name", J::s(&assoc.name().to_string()));
                    let container = tcx.parent(did);
                    if let DefKind::Impl { of_trait } = tcx.def_kind(container) {
                        c.set(
                            "self_ty",
                            J::s(&tcx.type_of(container).instantiate_identity().skip_norm_wip().to_string()),
                        );
                        if of_trait {
                            let tr = tcx.impl_trait_ref(container).instantiate_identity().skip_norm_wip();
                            c.set("impl_trait", J::s(&tcx.def_path_str(tr.def_id)));
                        }
                    } else if tcx.def_kind(container) == DefKind::Trait {
                        c.set("in_trait", J::s(&tcx.def_path_str(container)));
                    }
                } else if let Some(n) = tcx.opt_item_name(did) {
                    c.set("name", J::s(&n.to_string()));
                }
                let generic = tcx.generics_of(did).requires_monomorphization(tcx);
                c.set("generic", J::Bool(generic));
                if !generic {
                    if let Some(v) = const_value_j(tcx, did) {
                        c.set("value", v);
                    }
                }
                let r = std::panic::catch_unwind(std::panic::AssertUnwindSafe(|| {
                    let body = tcx.mir_for_ctfe(did);
                    body_j(tcx, ldid, body)
                }));
                if let Ok(b) = r {
                    c.set("mir", b);
                }
                consts.push(c);
            }
            _ => {}
        }
    }

    for ldid in tcx.hir_crate_items(()).definitions() {
        let did = ldid.to_def_id();
        match tcx.def_kind(did) {
            DefKind::Struct | DefKind::Enum => {
                let adt = tcx.adt_def(did);
                let mut a = J::obj();
                a.set("key", J::s(&tcx.def_path_str(did)));
                a.set("kind", J::s(if adt.is_enum() { "enum" } else { "struct" }));
                let (l, _) = loc(tcx, tcx.def_span(did));
                a.set("at", J::s(&l));
                let mut vars = Vec::new();
                let discrs: Vec<u128> = if adt.is_enum() {
                    adt.discriminants(tcx).map(|(_, d)| d.val).collect()
                } else {
                    vec![]
                };
                for (i, v) in adt.variants().iter().enumerate() {
                    let mut vo = J::obj();
                    vo.set("name", J::s(&v.name.to_string()));
                    if let Some(d) = discrs.get(i) {
                        vo.set("discr", J::s(&d.to_string()));
                    }
                    vo.set(
                        "fields",
                        J::Arr(
                            v.fields
                                .iter()
                                .map(|f| {
                                    let mut fo = J::obj();
                                    fo.set("name", J::s(&f.name.to_string()));
                                    fo.set(
                                        "ty",
                                        J::s(&tcx.type_of(f.did).instantiate_identity().skip_norm_wip().to_string()),
                                    );
                                    fo.set("vis", J::s(&format!("{:?}", f.vis)));
                                    fo
                                })
                                .collect(),
                        ),
                    );
                    vars.push(vo);
                }
                a.set("variants", J::Arr(vars));
                adts.push(a);
            }
            DefKind::Impl { of_trait } => {
                let mut i = J::obj();
                let (l, m) = loc(tcx, tcx.def_span(did));
                i.set("at", J::s(&l));
                if !m.is_empty() {
                    i.set("mac", J::Arr(m.iter().map(|x| J::s(x)).collect()));
                }
                i.set("self_ty", J::s(&tcx.type_of(did).instantiate_identity().skip_norm_wip().to_string()));
                if of_trait {
                    let tr = tcx.impl_trait_ref(did).instantiate_identity().skip_norm_wip();
                    i.set("trait", J::s(&tcx.def_path_str(tr.def_id)));
                    i.set("trait_full", J::s(&tr.to_string()));
                }
                let items: Vec<J> = tcx
                    .associated_items(did)
                    .in_definition_order()
                    .map(|it| {
                        let mut o = J::obj();
                        o.set("name", J::s(&it.name().to_string()));
                        o.set("kind", J::s(&format!("{:?}", it.kind).split(|c| c == ' ' || c == '{' || c == '(').next().unwrap_or("").to_string()));
                        o.set("key", J::s(&tcx.def_path_str(it.def_id)));
                        o
                    })
                    .collect();
                i.set("items", J::Arr(items));
                impls.push(i);
            }
            DefKind::Trait => {
                let mut t = J::obj();
                t.set("key", J::s(&tcx.def_path_str(did)));
                let items: Vec<J> = tcx
                    .associated_items(did)
                    .in_definition_order()
                    .map(|it| {
                        let mut o = J::obj();
                        o.set("name", J::s(&it.name().to_string()));
                        o.set("kind", J::s(&format!("{:?}", it.kind).split(|c| c == ' ' || c == '{' || c == '(').next().unwrap_or("").to_string()));
                        o.set("key", J::s(&tcx.def_path_str(it.def_id)));
                        o.set("has_default", J::Bool(it.defaultness(tcx).has_value()));
                        o
                    })
                    .collect();
                t.set("items", J::Arr(items));
                traits.push(t);
            }
            _ => {}
        }
    }

    root.set("functions", J::Arr(funcs));
    root.set("consts", J::Arr(consts));
    root.set("adts", J::Arr(adts));
    root.set("impls", J::Arr(impls));
    root.set("traits", J::Arr(traits));
    let mut s = String::new();
    root.write(&mut s);
    let _ = jstr;
    s
}
