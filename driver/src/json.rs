// Minimal JSON value + writer (no external crates are available to a rustc_private driver here).
use std::fmt::Write;

pub enum J {
    Null,
    Bool(bool),
    Int(i128),
    Str(String),
    Arr(Vec<J>),
    Obj(Vec<(String, J)>),
}

impl J {
    pub fn obj() -> J {
        J::Obj(Vec::new())
    }
    pub fn s(x: &str) -> J {
        J::Str(x.to_string())
    }
    pub fn set(&mut self, k: &str, v: J) {
        if let J::Obj(o) = self {
            o.push((k.to_string(), v));
        }
    }
    pub fn write(&self, out: &mut String) {
        match self {
            J::Null => out.push_str("null"),
            J::Bool(b) => out.push_str(if *b { "true" } else { "false" }),
            J::Int(i) => {
                let _ = write!(out, "{}", i);
            }
            J::Str(s) => jstr(s, out),
            J::Arr(a) => {
                out.push('[');
                for (i, x) in a.iter().enumerate() {
                    if i > 0 {
                        out.push(',');
                    }
                    x.write(out);
                }
                out.push(']');
            }
            J::Obj(o) => {
                out.push('{');
                for (i, (k, v)) in o.iter().enumerate() {
                    if i > 0 {
                        out.push(',');
                    }
                    jstr(k, out);
                    out.push(':');
                    v.write(out);
                }
                out.push('}');
            }
        }
    }
}

pub fn jstr(s: &str, out: &mut String) {
    out.push('"');
    for c in s.chars() {
        match c {
            '"' => out.push_str("\\\""),
            '\\' => out.push_str("\\\\"),
            '\n' => out.push_str("\\n"),
            '\r' => out.push_str("\\r"),
            '\t' => out.push_str("\\t"),
            c if (c as u32) < 0x20 => {
                let _ = write!(out, "\\u{:04x}", c as u32);
            }
            c => out.push(c),
        }
    }
    out.push('"');
}
